#!/usr/bin/env python3
"""T1b: guard translator.  Reads the range guards, reservation formulas and literal thresholds that
decide memory safety and numeric exactness straight from /repo's current source text and writes them
as Coq definitions (coq/Gen/Guards.v).  Model/GuardsOk.v proves, for whatever values were extracted,
the obligations each guard has to meet (table indices in range, no u64 wrap, finite/normal results,
node buffer large enough).  A change of a guard in the source therefore changes a definition the
proofs are about; a guard that can no longer be located is left out, which breaks the proofs that
mention it (reported as a translator failure).

usage: guards.py <repo> <out.v>     exit 0 when every guard was found, 2 when some were not."""
import re, sys, os

def strip_comments(s):
    s = re.sub(r"//[^\n]*", "", s)
    return re.sub(r"/\*.*?\*/", "", s, flags=re.S)

class Src:
    def __init__(self, repo, rel):
        self.rel = rel
        self.text = strip_comments(open(os.path.join(repo, rel)).read())
    def const(self, name):
        m = re.search(r"\bconst\s+%s\s*:\s*\w+\s*=\s*([^;]+);" % re.escape(name), self.text)
        if not m:
            raise KeyError(name)
        return self.eval(m.group(1))
    def eval(self, expr):
        """integer expressions: literals (with _), + - * / << parentheses, named consts, `as T` casts"""
        e = re.sub(r"\bas\s+\w+", "", expr)
        e = re.sub(r"(\d)_(?=\d)", r"\1", e)
        e = re.sub(r"(\d+)(u8|u16|u32|u64|usize|i8|i16|i32|i64|isize)\b", r"\1", e)
        def name(m):
            w = m.group(0)
            if w.isdigit():
                return w
            return "(%d)" % self.const(w)
        e = re.sub(r"[A-Za-z_][A-Za-z_0-9]*", name, e)
        if not re.fullmatch(r"[\d\s()+\-*/<]+", e):
            raise ValueError("not an integer expression: " + expr)
        return int(eval(e.replace("/", "//"), {"__builtins__": {}}))
    def find(self, pattern):
        m = re.search(pattern, self.text, flags=re.S)
        if not m:
            raise LookupError(pattern)
        return m

def extract(repo):
    out, missing = [], []
    num = Src(repo, "sonic-number/src/lib.rs")
    node = Src(repo, "src/value/node.rs")

    def guard(name, fn, doc):
        try:
            v = fn()
            out.append((name, v, doc))
        except Exception as ex:          # noqa: a guard that is not found is reported, not guessed
            missing.append("%s (%s: %s)" % (name, type(ex).__name__, str(ex)[:80]))

    # --- DOM node buffer: let max_len = (json_len / 2) + 2;
    guard("G_NODE_DIV", lambda: node.eval(node.find(r"let\s+max_len\s*=\s*\(json_len\s*/\s*([^)]+)\)\s*\+\s*([^;]+);").group(1)),
          "src/value/node.rs DocumentVisitor::new: max_len = json_len / G_NODE_DIV + G_NODE_ADD")
    guard("G_NODE_ADD", lambda: node.eval(node.find(r"let\s+max_len\s*=\s*\(json_len\s*/\s*([^)]+)\)\s*\+\s*([^;]+);").group(2)), "")

    # --- integer accumulation: digits_cnt > 19 (slow path), digits_cnt < 19 (re-accumulate)
    guard("G_INT_DIGITS", lambda: num.eval(num.find(r"if\s+digits_cnt\s*>\s*([^\s{]+)\s*\{").group(1)),
          "sonic-number parse_number: more than G_INT_DIGITS digits leave the wrapping accumulation")
    guard("G_INT_DIGITS_REDO", lambda: num.eval(num.find(r"while\s+is_digit!\(data,\s*\*index\)\s*&&\s*digits_cnt\s*<\s*([^\s{]+)\s*\{").group(1)),
          "... and only the first G_INT_DIGITS_REDO are accumulated again, without wrapping")
    guard("G_FLOAT_DIGITS", lambda: num.const("FLOATING_LONGEST_DIGITS"), "FLOATING_LONGEST_DIGITS: significant digits kept for the float paths")

    # --- exponent clamp
    m_clamp = lambda: num.find(r"exponent\.clamp\(([^,]+),([^)]+)\)")
    guard("G_EXP_CLAMP_LO", lambda: num.eval(m_clamp().group(1)), "parse_number: exponent.clamp(G_EXP_CLAMP_LO, G_EXP_CLAMP_HI)")
    guard("G_EXP_CLAMP_HI", lambda: num.eval(m_clamp().group(2)), "")

    # --- Clinger fast path: significant >> 52 == 0 && (-22..=(22 + 15)).contains(&exponent)
    m_cl = lambda: num.find(r"if\s+significant\s*>>\s*([^\s=]+)\s*==\s*0\s*&&\s*\((.+?)\.\.=(.+?)\)\s*\.contains\(&exponent\)")
    guard("G_CL_SHIFT", lambda: num.eval(m_cl().group(1)), "parse_float: Clinger path taken when significant >> G_CL_SHIFT == 0 and G_CL_LO <= exponent <= G_CL_HI")
    guard("G_CL_LO", lambda: num.eval(m_cl().group(2)), "")
    guard("G_CL_HI", lambda: num.eval(m_cl().group(3)), "")
    m_ff = lambda: num.find(r"fn\s+parse_float_fast.*?if\s+exp10\s*>\s*0\s*\{\s*if\s+exp10\s*>\s*(\d+)\s*\{\s*d\s*\*=\s*POW10_FLOAT\[exp10\s+as\s+usize\s*-\s*(\d+)\];\s*if\s*\(-1e(\d+)\.\.=1e(\d+)\)\.contains\(&d\)\s*\{\s*Some\(d\s*\*\s*POW10_FLOAT\[(\d+)\]\)")
    guard("G_CL_SPLIT", lambda: int(m_ff().group(1)), "parse_float_fast: exponents above G_CL_SPLIT are split as 10^(e-G_CL_SPLIT_SUB) then 10^G_CL_SPLIT_MUL, when the intermediate is within 1e(G_CL_MID_EXP)")
    guard("G_CL_SPLIT_SUB", lambda: int(m_ff().group(2)), "")
    guard("G_CL_MID_EXP", lambda: (lambda m: int(m.group(3)) if m.group(3) == m.group(4) else (_ for _ in ()).throw(ValueError("asymmetric")))(m_ff()), "")
    guard("G_CL_SPLIT_MUL", lambda: int(m_ff().group(5)), "")

    # --- Eisel-Lemire / yyjson normal fast path: exponent > (-308 + 1) && exponent < (308 - 20); idx = exp10 + 342
    m_nf = lambda: num.find(r"if\s+!trunc\s*&&\s*exponent\s*>\s*\((.+?)\)\s*&&\s*exponent\s*<\s*\((.+?)\)\s*\{\s*if\s+let\s+Some\(raw\)\s*=\s*parse_floating_normal_fast")
    guard("G_NF_LO", lambda: num.eval(m_nf().group(1)), "parse_float: parse_floating_normal_fast taken when not truncated and G_NF_LO < exponent < G_NF_HI")
    guard("G_NF_HI", lambda: num.eval(m_nf().group(2)), "")
    guard("G_NF_IDX", lambda: num.eval(num.find(r"fn\s+parse_floating_normal_fast.*?let\s+idx\s*=\s*exp10\s*\+\s*([^;]+);").group(1)),
          "parse_floating_normal_fast: POWER_OF_FIVE_128[exp10 + G_NF_IDX]")
    # --- widest SIMD block read from the (padded) input: [ui]8xN::from_slice_unaligned_unchecked, const LANES
    def max_block():
        widths = []
        for rel in ("src/parser.rs", "src/util/string.rs", "src/util/unicode.rs"):
            try:
                t = Src(repo, rel).text
            except OSError:
                continue
            widths += [int(x) for x in re.findall(r"\b[ui]8x(\d+)::from_slice_unaligned_unchecked", t)]
            widths += [int(x) for x in re.findall(r"\bconst\s+LAN[E]?S\s*:\s*usize\s*=\s*(\d+)\s*;", t)]
        if not widths:
            raise LookupError("no SIMD block load found")
        return max(widths)
    guard("G_MAX_BLOCK", max_block, "widest block the scanners load from the input in one go (src/parser.rs, src/util/string.rs): must fit into the padding behind the text")
    return out, missing

def main():
    repo, dst = sys.argv[1], sys.argv[2]
    out, missing = extract(repo)
    lines = ["(* GENERATED on every run by lib/guards.py from %s's current source text -- do not edit. *)" % repo,
             "From Coq Require Import ZArith.", "Local Open Scope Z_scope.", ""]
    for name, v, doc in out:
        if doc:
            lines.append("(* %s *)" % doc)
        lines.append("Definition %s : Z := %s." % (name, "(%d)" % v if v < 0 else str(v)))
    for m in missing:
        lines.append("(* NOT FOUND in the source: %s *)" % m.replace("*)", "* )"))
    text = "\n".join(lines) + "\n"
    old = open(dst).read() if os.path.exists(dst) else None
    if text != old:
        os.makedirs(os.path.dirname(dst), exist_ok=True)
        open(dst, "w").write(text)
    for m in missing:
        print("guard not found:", m)
    sys.exit(2 if missing else 0)

if __name__ == "__main__":
    main()
