#!/usr/bin/env python3
"""Supporting evidence for Model/NormalFast.v (NOT a proof): is there a 64-bit significand for which
parse_floating_normal_fast (sonic-number/src/lib.rs) evaluates `add + 1` with add == u64::MAX, the one
arithmetic overflow the theorem normal_fast_panics_only_on_all_ones leaves open for checked builds?

That happens iff, for the table entry T = sig2 * 2^64 + sig2_ext of some exponent in the guarded range and some
normalised significand x in [2^63, 2^64), the 192-bit product x * T has its middle word all ones and the low nine
bits of its top word all equal, i.e. (x * T mod 2^137) lies in one of two windows of width 2^64. For each T the
points (x*T mod 2^137, x) form a 2-dimensional lattice; after Lagrange reduction the lattice points near the centre of
each window are enumerated (Babai rounding, +-R neighbours). The enumeration is validated with wider windows, for
which the number of hits must be close to the expected density (printed). Result on the pinned tree: no input.

usage: lattice_search.py        (reads /repo/sonic-number/src/table.rs)"""
import re
from fractions import Fraction
src = open('/repo/sonic-number/src/table.rs').read()
body = src[src.index('POWER_OF_FIVE_128'):]
pairs = re.findall(r'\(\s*(0x[0-9a-fA-F_]+)\s*,\s*(0x[0-9a-fA-F_]+)\s*\)', body)
tab = [(int(a.replace('_',''),16), int(b.replace('_',''),16)) for a,b in pairs]
M = 1 << 137
def gauss(u, v):
    n = lambda a: a[0]*a[0] + a[1]*a[1]
    while True:
        if n(u) > n(v): u, v = v, u
        m = u[0]*v[0] + u[1]*v[1]
        q = (2*m + n(u)) // (2*n(u))
        if q == 0: return u, v
        v = (v[0] - q*u[0], v[1] - q*u[1])
def search(width_log, R):
    cnt = 0; sols=[]
    WIDTH = 1 << width_log
    for i,(sig2, sig2_ext) in enumerate(tab):
        exp10 = i - 342
        if not (-307 < exp10 < 288): continue
        T = (sig2 << 64) | sig2_ext
        # scale second coordinate so the box is a square: x range 2^63 wide, value range WIDTH wide
        Wn, Wd = WIDTH, 1 << 63          # weight = WIDTH / 2^63 (as a rational; multiply first coord by Wd instead)
        u, v = gauss((M * Wd, 0), ((T % M) * Wd, Wn))
        for L in (1 << 128) - WIDTH, M - WIDTH:
            tx, ty = (L + WIDTH // 2) * Wd, Wn * (3 << 62)
            det = u[0]*v[1] - u[1]*v[0]
            a0 = Fraction(tx*v[1] - ty*v[0], det); b0 = Fraction(u[0]*ty - u[1]*tx, det)
            for a in range(int(a0) - R, int(a0) + R + 1):
                for b in range(int(b0) - R, int(b0) + R + 1):
                    px, py = a*u[0] + b*v[0], a*u[1] + b*v[1]
                    if py % Wn: continue
                    x = py // Wn
                    if not ((1 << 63) <= x < (1 << 64)): continue
                    r = (x * T) % M
                    if L <= r < L + WIDTH:
                        cnt += 1; sols.append((exp10, x))
    return cnt, sols
for wl in (72, 70, 68, 66):
    for R in (3, 6):
        c, s = search(wl, R)
        print('width 2^%d R=%d: found %d, expected about %.1f' % (wl, R, c, 594*2*2.0**(wl+63-137)))
c, s = search(64, 8)
print('exact window:', c, s)
