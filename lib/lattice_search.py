import re
from fractions import Fraction
src = open('/repo/sonic-number/src/table.rs').read()
body = src[src.index('POWER_OF_FIVE_128'):]
pairs = re.findall(r'\(\s*(0x[0-9a-fA-F_]+)\s*,\s*(0x[0-9a-fA-F_]+)\s*\)', body)
tab = [(int(a.replace('_',''),16), int(b.replace('_',''),16)) for a,b in pairs]
M = 1 << 137
def gauss(u, v):
    n = lambda a: a[0]*a[0] + a[1]*a[1]
    while True:
        if n(u) > n(v): u, v = v, u
        m = u[0]*v[0] + u[1]*v[1]
        q = (2*m + n(u)) // (2*n(u))
        if q == 0: return u, v
        v = (v[0] - q*u[0], v[1] - q*u[1])
def search(width_log, R):
    cnt = 0; sols=[]
    WIDTH = 1 << width_log
    for i,(sig2, sig2_ext) in enumerate(tab):
        exp10 = i - 342
        if not (-307 < exp10 < 288): continue
        T = (sig2 << 64) | sig2_ext
        # scale second coordinate so the box is a square: x range 2^63 wide, value range WIDTH wide
        Wn, Wd = WIDTH, 1 << 63          # weight = WIDTH / 2^63 (as a rational; multiply first coord by Wd instead)
        u, v = gauss((M * Wd, 0), ((T % M) * Wd, Wn))
        for L in (1 << 128) - WIDTH, M - WIDTH:
            tx, ty = (L + WIDTH // 2) * Wd, Wn * (3 << 62)
            det = u[0]*v[1] - u[1]*v[0]
            a0 = Fraction(tx*v[1] - ty*v[0], det); b0 = Fraction(u[0]*ty - u[1]*tx, det)
            for a in range(int(a0) - R, int(a0) + R + 1):
                for b in range(int(b0) - R, int(b0) + R + 1):
                    px, py = a*u[0] + b*v[0], a*u[1] + b*v[1]
                    if py % Wn: continue
                    x = py // Wn
                    if not ((1 << 63) <= x < (1 << 64)): continue
                    r = (x * T) % M
                    if L <= r < L + WIDTH:
                        cnt += 1; sols.append((exp10, x))
    return cnt, sols
for wl in (72, 70, 68, 66):
    for R in (3, 6):
        c, s = search(wl, R)
        print('width 2^%d R=%d: found %d, expected about %.1f' % (wl, R, c, 594*2*2.0**(wl+63-137)))
c, s = search(64, 8)
print('exact window:', c, s)
