#!/usr/bin/env python3
"""summarise mismatches of the last run of a property: lib/mism.py Cxx [n]"""
import sys, collections
def load(p):
    d={}
    for l in open(p,errors='replace'):
        i,_,r=l.rstrip('\n').partition('\t'); d[i]=r
    return d
pid=sys.argv[1]; n=int(sys.argv[2]) if len(sys.argv)>2 else 12
w='/verif/work/%s/'%pid
imp,mod,cas=load(w+'impl.tsv'),load(w+'model.tsv'),load(w+'cases.tsv')
c=collections.Counter(); ex={}
for i,v in imp.items():
    m=mod.get(i)
    if m!=v:
        parts=cas[i].split('\t')
        key=(parts[0], parts[-1] if parts[0] in ('skipacc','fullacc','skipfirst','fullfirst') else '', v[:40], (m or '')[:40])
        c[key]+=1; ex.setdefault(key,[]).append(parts)
for k,cnt in c.most_common(n):
    print(cnt,k)
    for parts in sorted(ex[k],key=lambda p:len(''.join(p)))[:3]:
        shown=[]
        for a in parts[1:]:
            try:
                b=bytes.fromhex(a)
                shown.append(repr(b[:120])) if len(a)%2==0 and len(a)>3 else shown.append(a)
            except ValueError:
                shown.append(a[:80])
        print('    ',shown)
