"""Per-property configuration of ./check and the correspondence driver."""
import os, json, subprocess, re

COMMON_TRUST = [
    "T2 translator: lib/rs2coq.py (Rust subset -> Gallina over Base/RustInt.v) regenerates coq/Gen/Funcs.v from the source text on every run; validated on every run by executing the extracted translation and the implementation on the same arguments (op t2)",
    "Coq 8.16.1 kernel (coqc), vm_compute for finite sweeps; no native_compute",
    "hand-written Gallina model of the Rust code (coq/Model), tied to /repo by the correspondence run of this check (differential, generator-bounded)",
    "T1 translator: harness `tables` dump of the crate's constants into coq/Gen/Tables.v (rustc + hooks under cfg(sonic_rs_verif))",
    "extraction to OCaml with ExtrOcamlBasic only (bool, option, unit, list, prod, sumbool, comparison mapped; nat/N/Z stay Coq datatypes), ocaml/driver glue, ocamlfind ocamlopt",
    "Rust harness (generators, canonicalisation, diff) and python ./check",
]

PROPS = {}

def prop(pid, **kw):
    kw.setdefault("level", "proof")
    kw.setdefault("trusted_base", COMMON_TRUST)
    kw.setdefault("assumptions", [])
    kw.setdefault("unit_ops", set())
    kw.setdefault("rule", "")
    PROPS[pid] = kw

prop("C20",
     rule="unit: random buffers x indices for Position::from_index / Error::syntax / Parser::error clamp; API: generated documents (depth<=3, multi-line variants) mutated once (truncate/substitute/insert/delete/bad UTF-8/bad escape/duplicate structural/trailing/swap) x 24 error-returning entry points + get/get_many with a generated path + stream/iterator polled 4 times past the end (Value, u8, Vec<String>, IgnoredAny, LazyValue, OwnedLazyValue, serde_json::Value and a record that skips members, over slice / Bytes / str input; the failing document also in the middle of a stream with well-formed documents behind it); non-trivial = distinct (op,args) with offset>0",
     unit_ops={"synlr", "perridx", "t2"}, funcs=True,
     assumptions=["String::from_utf8_lossy / format! used by Error::syntax do not panic (std)", "the serde visitor error path reaches Parser::fix_position (checked by the API-level cases only)"])

prop("C02",
     rule="structured documents (1/3 valid, 2/3 mutated once or twice) + every byte value as a stray byte at every token boundary of four templates, the end of the text included + nesting depth around both limits + exhaustive token sequences over 16 tokens (length<=3 quick, <=5 thorough) x {LazyValue, OwnedLazyValue, IgnoredAny, Value, serde_json::Value, Vec<Value>, HashMap<String,Value>} x {from_slice, from_str, from_reader, Deserializer::from_json over Bytes/FastStr}; non-trivial = distinct input longer than 2 bytes",
     assumptions=["simdutf8 decides UTF-8 validity (modelled by Spec.Ref.utf8_valid; compared on every case)", "completeness of the container skipper is validated, not yet proved (skip_value_sound is proved)"])

prop("C10", funcs=True,
     rule="well-formed generated documents (duplicate-free, plus a stream that repeats member names: every variant answers with the first occurrence) (depth<=4, strings with escapes/multibyte/structural bytes, leading pad 0..69 to move the 64-byte blocks) x up to 6 valid paths + perturbed paths x 15 lookup variants (checked/unchecked x 5 carriers, LazyValue/OwnedLazyValue/Value pointer, Value::get chain); plus block-edge documents with quotes/backslashes/brackets inside strings; non-trivial = non-empty path",
     assumptions=["the 64-byte bitmap bookkeeping of skip_container_loop is tied to the scalar counting model by the correspondence (unit hooks + unchecked API), not by proof"])
prop("C11", unit_ops={"manyrec"},
     rule="generated documents x 1..6 paths (shared prefixes, repeats, perturbed) filtered for shape consistency x {get_many, get_many_unchecked}; the implementation's slot vector is judged by the extracted reference lookup (verdict op); on documents that repeat member names (outside C11's statement: their API-level verdict is C14's) and on all others, for path sets of member names the search model itself (Model/ManySeen.rec2 over the tree Model/ManyBuild.build makes of the paths: counter, early exits, list of walked nodes) is run on the reference parse and must return the very slot vector get_many / get_many_unchecked returned, or fail where they fail (op manyrec); (schema, document) pairs against the reference merge",
     assumptions=["hash-map iteration order of owned objects is irrelevant (results compared after sorting keys)"])
prop("C12",
     rule="an escape of five kinds at every offset 0..70 / 92..98 / 124..130 (0..200 thorough) of an item against the 32- and 64-byte blocks of the string skippers, as element, member value and member name; generated documents (arrays/objects of width 0..6, nested, escaped keys, whitespace), 1/5 with trailing bytes, 1/3 mutated x {to_array_iter, to_object_iter} x {&[u8], &FastStr, &Bytes} + unchecked iterators and LazyValue::into_*_iter on the well-formed ones; each iterator polled 3 times past its end; transcript (spans, decoded keys) compared with the reference iterator",
     assumptions=["invalid UTF-8 anywhere in the input is reported by the first poll (as the implementation does)"])
prop("C14",
     rule="generated documents (one in three may repeat member names) mutated once (9 mutation kinds) x up to 5 paths x 6 checked get carriers, every prefix of small documents, get_many on the malformed stream, the enumerated number grammar (integer parts of 1..25, 30..34, 62..66, 95..97 digits x 35 well-formed and damaged tails) as selected value, as a member in front of it and as iterator item, get_many on well-formed documents that repeat member names (every filled slot is exactly one well-formed value inside the input, no panic: op manyfrag; F37), checked iterators; each returned span compared with the reference get on arbitrary bytes (Spec.Ref.ref_get = decision procedure of WfPrefix)",
     assumptions=[])

prop("C09",
     rule="sweep: literal length L x position p (around the 32/64-byte edges) x 34 byte classes (every escape form, bad escapes, lone/swapped surrogates, controls, valid and invalid multi-byte UTF-8) x embedding offset 0..64 x 13 decoders (String, &str, Cow field, in-place Value, copying Value, map key, object key, object-iterator key, LazyValue::as_str, get+as_str, IgnoredAny, lossy String/Value); code points through \\u escapes (boundaries + 3000 sampled; all 1,114,112 in the thorough tier); hooks hex_to_u32_nocheck / codepoint_to_utf8; generated literals; non-trivial = literal longer than 2 bytes",
     unit_ops={"hex4", "utf8enc", "t2"}, funcs=True,
     assumptions=["the block structure of parse_string_raw/parse_string_escaped/parse_string_inplace is tied to the scalar decoders by the sweep (and by the generic block-scan theorem), not transcribed line by line"])

prop("C03",
     rule="generated well-formed documents with duplicates allowed (1/10 mutated: every driver must reject) x 11 parse drivers (in-place from_slice/from_str, copying parser as Vec element / struct field / map value / second stream document / Bytes carrier, use_rawnumber, utf8_lossy on valid text, clone) + alignment sweep of one document behind 0..69 spaces; canonical tree dump (kinds, order, duplicates, decoded strings, number class and bits) compared with the dump of the reference parse; hook Meta pack/unpack on random and boundary words",
     unit_ops={"metapack", "t2", "domevents"}, funcs=True,
     assumptions=["numbers are classified and valued by Spec/Num.v (decimal value, round half even); its agreement with Rust's parser is C07's subject"])
prop("C06",
     feature_builds=["sort_keys", "arbitrary_precision"],
     rule="three builds of the harness (default, sort_keys, arbitrary_precision): generated documents (duplicates allowed): to_string / to_string_pretty / Display / to_vec of the parsed DOM; the text must denote the same tree as the source (dump equality incl. float bits, order, duplicates), be exactly the model's canonical compact / pretty form of its own parse (format_string spec escaper, separators, indentation), re-serialize to itself; raw-number mode reproduces every literal verbatim",
     assumptions=["ryu/itoa print a number that parses back to the same value (checked per case through the dump, not proved)"])
prop("C13",
     rule="generated documents (one in three may repeat member names) x up to 5 sub-values reached by get, plus every scalar literal directly: accessor string (type, bool, number class+bits, decoded string, raw number, is_* flags) of LazyValue (from get / serde / clone) and OwnedLazyValue (from LazyValue / serde / clone / to_lazyvalue) compared with the accessors of the reference parse of the raw text; verbatim serialization; Value::try_from; owned-lazy views walked; one mutation (push / replace / take) of an owned-lazy array with the clone taken before it",
     assumptions=[])

prop("C07",
     rule="literals: boundary pool, every digit count (1..120 quick / 1..800 thorough) as integer / negative / pure fraction / mixed, every power of ten -400..400, 19/20-digit and 128-bit integer boundaries, exact decimal expansions of midpoints between adjacent doubles (exact / just above / just below), long digit runs at every alignment of the 16-byte fraction reader, huge and zero-padded exponents, generated numbers; each through sonic_number::parse_number, the DOM, and 12 typed targets; simd_str2int on random 16-byte windows; every literal also through Rust's str::parse::<f64> as a second opinion on the specification",
     unit_ops={"str2int", "t2"}, guards=True, funcs=True,
     assumptions=["Spec/Num.v (exact decimal value, round half to even by integer arithmetic) is the definition of 'nearest f64'; it is compared with Rust's str::parse::<f64> on every finite literal of every run (op numstd) but its equality with Flocq's rounding operator is not proved",
                  "the Eisel-Lemire and big-decimal paths are not modelled: they are covered by the correspondence against the specification only"])
prop("C08",
     rule="f64: every exponent (3 values each), neighbours of every power of ten, 10k random bit patterns (200k thorough); f32: every exponent + 10k random (all 2^32 in the thorough tier, implementation-only sweep); all u8/i8, sampled/boundary wider integers incl. 128-bit; DOM u64/i64/f64 routes; raw numbers from 1500 literals bare and quoted plus malformed ones: the printed text must be an RFC number whose exact value (Spec/Num.v) is the value written",
     assumptions=["ryu and itoa are outside the repository: their output is checked case by case (valid number, denotes the value), not proved"])

prop("C05",
     rule="unit: format_string through the hook on strings of every length 0..100 (0..200 thorough) with one of 16 special characters at block-edge positions (+ optional second special), each also placed so that it ends exactly on a page boundary followed by an inaccessible page, canary behind the reserved window; API: generated values of the whole serde data model (all integer widths incl. 128-bit, f32/f64 incl. non-finite and subnormal, chars, arbitrary Unicode strings, bytes, options, units, seqs, tuples, maps with scalar keys of 6 kinds, structs, the four enum shapes) through to_string / to_string_pretty / to_vec / to_writer over Vec, BufferedWriter, io::BufWriter, BytesMut writer, and a sink failing after n bytes; maps with non-scalar keys must be refused",
     unit_ops={"fmtstr"},
     assumptions=["ryu/itoa: a printed number is accepted when it denotes exactly the value written (Spec/Num.v)"])

prop("C15",
     rule="random operation histories (3..25 steps) over the public mutation API: new values (parsed documents, json!, From, empty), clone of a subtree, drop, pointer read, and at a random (sometimes perturbed) path: push/pop/insert/remove/swap_remove/truncate/clear/len on arrays, insert/remove/get/contains_key/entry().or_insert/IndexMut on objects, assignment, take; donors are clones of subtrees of other live values; after every step the result and the sorted dump of every live value are compared with the reference model run on the same history",
     assumptions=["Rust ownership: two owned Values do not alias (why the reference can be a tree model)", "documents without duplicate names (F6 otherwise)"])
prop("C16",
     rule="the same random histories (3..30 steps) with, after every step, for every arena reachable from a live value: Arc strong count (hook) = number of live root-kind values pointing into it (walked through owned containers); then all values dropped in a random order; after every drop each survivor must read exactly as it did while everything was alive, and nothing may read as freed memory (the harness allocator overwrites freed blocks with 0xDD)",
     assumptions=["Arc's counter is atomic (std); cross-thread schedules are not explored by this check", "the counting allocator check of 'all memory released' is left to the thorough tier"])

prop("C04", guards=True,
     rule="44 target types (all integer widths incl. 128-bit, f32/f64, char, String, unit, Option, Vec, tuples, fixed arrays, maps keyed by string/integer/bool/unit-enum, structs with optional/defaulted/unknown/denied/borrowed/flattened fields, newtype/tuple/unit structs, externally/internally/adjacently tagged and untagged enums, byte buffers, serde_json::Value) x type-directed texts in three modes (matching, near-matching: range boundaries, wrong width, missing/extra/duplicate fields, wrong framing, quoted numbers; mismatching + byte mutations) x {from_str, from_slice}; sonic-rs result (Ok value via Debug / Err) must equal serde_json's for the same type",
     assumptions=["serde_json 1.0.151 (float_roundtrip) is the reference named by the property; serde-derive's visitors are third-party", "documented differences excluded by the generator: nesting beyond 128, f32 overflow to infinity (F19), strings with escapes/controls as byte buffers (F21)"])
prop("C19", unit_ops={"valeq"},
     rule="for each of the 44 types: values obtained from matching texts: to_value(x) vs DOM of to_string(x), from_value(to_value(x)) = x, from_str(to_string(x)) = x; 2500 generated values of the whole serde data model: to_value must denote the value (Model/SerVal.v; f32 widened exactly), agree with the text route (except f32: F24) and fail exactly for integers beyond 64 bits; 1500 pairs of DOM values (parsed vs rebuilt with shuffled members vs perturbed): reflexive, symmetric, order- and construction-insensitive equality agreeing with the dumps; comparison with primitives; `==` of two parsed documents in both directions against the extracted Model/ObjEq.obj_eq applied at every object with the operands exchanged where partial_eq.rs exchanges them (op valeq: repeated member names, shuffled / damaged / renamed variants, so the asymmetric outcomes of F7 are predicted case by case)",
     assumptions=["hash-map iteration order is irrelevant (sorted dumps)"])

prop("C17",
     rule="primitives: eq/le/gt + bitmask on u8x16/u8x32/u8x64/i8x16/i8x32/i8x64 with every byte value as focus lane (plus neighbours, boundary bytes, random), load/store, splat of all 256 bytes, BitMask helpers on u16/u32/u64, prefix_xor, get_nonspace_bits, get_escaped_branchless_u32/u64, get_string_bits through the hooks - both builds (target-cpu=native: AVX2+PCLMUL; baseline x86-64: SSE2 + portable fallbacks) against the lane-wise model; then the full quick suites of C02 C03 C05 C09 C10 C12 through both builds, result lines compared one by one",
     baseline_build=True, cross_build=["C02", "C03", "C05", "C09", "C10", "C12"], funcs=True, unit_ops={"t2"},
     assumptions=["the lane-wise meaning of the Intel intrinsics is observed on this CPU only; NEON is not built here"])

prop("C18",
     rule="exhaustive DFS over the interleavings of 1-3 threads at the granularity of the atomic operations of the two caches (every load and compare-exchange is a yield point of the shim; a weak compare-exchange adds a spurious-failure choice): readers of one shared LazyValue (escaped string -> Inner::parse_from) and of one shared OwnedLazyValue (LazyRaw::load) replayed step by step in the model (per-thread hit / miss+win / miss+lose); mixed readers, cloners and early droppers judged on values and on the allocation ledger (tracked allocations of the worker threads and of the shared value return to the baseline); quick tier caps each scenario at 3000 schedules",
     assumptions=["sequential consistency: the Acquire/Release/AcqRel annotations are not checked against the C++11 memory model", "clone/drop steps are not in the model (they are covered by the ledger on the real code)"])

prop("C01", guards=True, funcs=True,
     rule="generated documents: valid / mutated once / mutated twice / truncated (2000 quick, 20000 thorough) plus boundary-size inputs (0..4097 bytes of one byte value) through every safe entry point: 20 parse targets x carriers, get / get_many / get_by_schema with a generated path, lazy and owned-lazy accessors, views, iterators, stream, serialization and Display/Debug of whatever was produced and of every error; verdict per input: no panic, the tracked allocations of the call return to the baseline, and the 64-byte guard zone the harness allocator keeps behind every heap block is intact when the block is freed or resized; escapes of every width (1-4 bytes of UTF-8, pairs) behind 0..40 / 56..66 / 120..136 / 248..262 plain bytes (0..600 thorough) as value, member name and stream element, so that every fill level of the decoding buffers is met; nesting of 200000 levels in a child process must be an error, not a stack overflow",
     assumptions=["PARTIAL: of the memory errors that do not crash, writes past the end of a heap block (up to 64 bytes) are observed through guard zones; freed blocks are overwritten so that dangling reads show as a pattern; stray reads of live memory, writes in front of a block or into the stack are not observed (no sanitizer)"])

def classify_known(pid, case, known):
    """return the id of the recorded known finding this mismatch belongs to, or None"""
    for k in known:
        if k.get("property") != pid or not str(k.get("status", "")).startswith("known"):
            continue
        ms = k.get("match", {})
        for m in (ms if isinstance(ms, list) else [ms]):      # a list = alternative shapes of the same finding
            if m.get("op") and m["op"] != case["op"]:
                continue
            if m.get("impl_re") and not re.search(m["impl_re"], case["impl"]):
                continue
            if m.get("args_re") and not re.search(m["args_re"], "\t".join(case["args"])):
                continue
            if m.get("model_re") and not re.search(m["model_re"], case["model"]):
                continue
            return k["id"], k.get("what", "")
    return None

def run_correspondence(pid, P, tier, seed, work, harness, run_model, load_tsv, known, replay):
    notes = []
    cmd = [harness, "run", pid, tier, str(seed), work]
    p = subprocess.run(cmd, stdout=subprocess.PIPE, stderr=subprocess.STDOUT, timeout=3400, text=True, errors="replace")
    mism = []
    if p.returncode != 0:
        # the harness died (abort / stack overflow / signal): the last case written is the input
        last = ""
        try:
            with open(os.path.join(work, "cases.tsv"), errors="replace") as f:
                for line in f:
                    last = line.rstrip("\n")
        except OSError:
            pass
        mism.append({"id": "harness", "op": "process", "args": [last[:2000]], "impl": "harness exited with %d: %s" % (p.returncode, p.stdout[-500:]), "model": "no crash", "kind": "api"})
        return {}, mism, {}, ["harness exit %d" % p.returncode]
    stats = json.load(open(os.path.join(work, "stats.json")))
    rc, err = run_model(os.path.join(work, "cases.tsv"), os.path.join(work, "model.tsv"))
    if rc != 0:
        mism.append({"id": "model", "op": "process", "args": [], "impl": "", "model": "model runner exited %d %s" % (rc, err), "kind": "unit"})
        return stats, mism, {}, notes
    impl = load_tsv(os.path.join(work, "impl.tsv"))
    model = load_tsv(os.path.join(work, "model.tsv"))
    cases = load_tsv(os.path.join(work, "cases.tsv"))
    known_hits = {}
    rid = None
    if replay:
        rid = json.load(open(replay)).get("id")
    for i, want in impl.items():
        if rid is not None and i != rid:
            continue
        got = model.get(i)
        if got == want:
            continue
        if got is not None and "||" in got:
            # the model allows alternatives (one-directional properties)
            alts = got.split("||")
            if want in alts:
                if want != alts[0]:
                    stats.setdefault("stats", {})["impl-chose-alternative:" + want[:12]] = stats.get("stats", {}).get("impl-chose-alternative:" + want[:12], 0) + 1
                continue
        parts = cases.get(i, "").split("\t")
        case = {"id": i, "op": parts[0], "args": parts[1:], "impl": want, "model": got if got is not None else "(missing)",
                "seed": seed, "tier": tier, "kind": "unit" if parts[0] in P["unit_ops"] else "api"}
        k = classify_known(pid, case, known)
        if k:
            fid, what = k
            d = known_hits.setdefault(fid, [what, 0])
            d[1] += 1
            continue
        mism.append(case)
    # thorough tier of C08: every one of the 2^32 f32 values printed and read back (implementation only, 16 shards)
    if pid == "C08" and tier == "thorough":
        procs = [subprocess.Popen([harness, "f32all", str(i), "16"], stdout=subprocess.PIPE, stderr=subprocess.STDOUT, text=True) for i in range(16)]
        bad = 0
        for i, pr in enumerate(procs):
            o, _ = pr.communicate(timeout=7000)
            if pr.returncode != 0:
                bad += 1
                case = {"id": "f32all-%d" % i, "op": "f32all", "args": [str(i), "16"], "impl": o[-600:], "model": "every finite f32 reads back bit-identically", "kind": "api"}
                k = classify_known(pid, case, known)      # the listed values of a recorded finding, and nothing else in that shard
                if k:
                    d = known_hits.setdefault(k[0], [k[1], 0])
                    d[1] += 1
                else:
                    mism.append(case)
        stats.setdefault("stats", {})["f32 values swept (all bit patterns)"] = 2 ** 32
        stats["evaluations"] = stats.get("evaluations", 0) + 2 ** 32
    # feature builds of the harness (sort_keys, arbitrary_precision): the same property run in each
    for feat in P.get("feature_builds", []):
        fh = harness.replace("/target/", "/target-%s/" % feat)
        fdir = os.path.join(work, "feature-" + feat)
        pf = subprocess.run([fh, "run", pid, tier, str(seed), fdir], stdout=subprocess.PIPE, stderr=subprocess.STDOUT, timeout=3400, text=True, errors="replace")
        if pf.returncode != 0:
            mism.append({"id": feat, "op": "process", "args": [feat], "impl": "harness (%s) exited %d" % (feat, pf.returncode), "model": "", "kind": "api"})
            continue
        rc2, err2 = run_model(os.path.join(fdir, "cases.tsv"), os.path.join(fdir, "model.tsv"))
        fi, fm, fc = load_tsv(os.path.join(fdir, "impl.tsv")), load_tsv(os.path.join(fdir, "model.tsv")), load_tsv(os.path.join(fdir, "cases.tsv"))
        for i, want in fi.items():
            if fm.get(i) != want:
                parts = fc.get(i, "").split("\t")
                mism.append({"id": i, "op": parts[0], "args": parts[1:], "impl": want, "model": fm.get(i, "(missing)"), "seed": seed, "tier": tier, "kind": "api", "feature_build": feat})
        stats.setdefault("stats", {})["cases in the %s build" % feat] = len(fi)
        stats["evaluations"] = stats.get("evaluations", 0) + len(fi)
    # C17: the same generated suites through the second build; every result line must be identical
    if P.get("cross_build"):
        base = harness.replace("/target/", "/target-baseline/")
        # the primitives of this property through the baseline build, against the model
        bdir = os.path.join(work, "baseline")
        pb = subprocess.run([base, "run", pid, tier, str(seed), bdir], stdout=subprocess.PIPE, stderr=subprocess.STDOUT, timeout=3400, text=True, errors="replace")
        if pb.returncode != 0:
            mism.append({"id": "baseline", "op": "process", "args": [], "impl": "baseline harness exited %d" % pb.returncode, "model": "", "kind": "api"})
        else:
            bimpl = load_tsv(os.path.join(bdir, "impl.tsv"))
            for i, want in bimpl.items():
                if model.get(i) != want:
                    parts = cases.get(i, "").split("\t")
                    mism.append({"id": i, "op": parts[0], "args": parts[1:], "impl": want, "model": model.get(i, "(missing)"), "seed": seed, "tier": tier, "kind": "api", "build": "baseline"})
        total = 0
        for suite in P["cross_build"]:
            d1, d2 = os.path.join(work, "x-" + suite + "-native"), os.path.join(work, "x-" + suite + "-baseline")
            r1 = subprocess.run([harness, "run", suite, "quick", str(seed), d1], stdout=subprocess.PIPE, stderr=subprocess.STDOUT, timeout=3400)
            r2 = subprocess.run([base, "run", suite, "quick", str(seed), d2], stdout=subprocess.PIPE, stderr=subprocess.STDOUT, timeout=3400)
            if r1.returncode != 0 or r2.returncode != 0:
                mism.append({"id": suite, "op": "process", "args": [suite], "impl": "harness exit %d / %d" % (r1.returncode, r2.returncode), "model": "", "kind": "api"})
                continue
            a, b = load_tsv(os.path.join(d1, "impl.tsv")), load_tsv(os.path.join(d2, "impl.tsv"))
            ca = load_tsv(os.path.join(d1, "cases.tsv"))
            cb = load_tsv(os.path.join(d2, "cases.tsv"))
            total += len(a)
            for i in a:
                if a[i] != b.get(i) or ca.get(i) != cb.get(i):
                    parts = ca.get(i, "").split("\t")
                    mism.append({"id": i, "op": parts[0], "args": parts[1:], "impl": "native: %s | baseline: %s" % (a[i][:300], (b.get(i) or "")[:300]), "model": "both builds must agree", "suite": suite, "seed": seed, "tier": "quick", "kind": "api"})
                    if len(mism) > 60:
                        break
        stats.setdefault("stats", {})["cross-build cases compared"] = total
        stats["evaluations"] = stats.get("evaluations", 0) + total
    # API-level mismatches first: they are failing inputs of the property itself
    mism.sort(key=lambda c: (c["kind"] != "api", len("".join(c["args"]))))
    return stats, mism, {k: tuple(v) for k, v in known_hits.items()}, notes
