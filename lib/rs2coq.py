#!/usr/bin/env python3
"""T2: function translator.  Translates a fixed list of small integer-only Rust functions of /repo's
current source text into Gallina (coq/Gen/Funcs.v) on every run.  The target semantics is
coq/Base/RustInt.v: Z inside the range of the Rust type, None for everything that panics in a build
with overflow checks and debug assertions, wrapping for wrapping_* and casts.

Supported subset: let / let mut (with tuple patterns, deferred initialisation), assignment and
compound assignment (also through `&mut` parameters and, at constant offsets, through a `*mut u8`
output buffer), if / else (statement and expression, early `return`), `match` on integer constants,
`matches!`, `assert!`/`debug_assert!`/`unreachable!`, integer and bool operators, `as` casts, ranges with
`.contains`, tuple / struct literals and field access, constant tables, calls to other translated
functions, a handful of integer methods.  No loops, no floats, no references except parameters.
Anything else stops the translation of that function with an error naming the construct; the
function is then missing from Funcs.v and the theorems about it no longer build (reported as a
translator failure by ./check).

usage: rs2coq.py <repo> <out.v>      exit 0 when every listed function was translated, 2 otherwise."""
import re, sys, os

# ----------------------------------------------------------------------------------------------
# lexer
# ----------------------------------------------------------------------------------------------
TOK = re.compile(r"""
    (?P<ws>\s+)
  | (?P<byte>b'(?:\\x[0-9A-Fa-f]{2}|\\.|[^\\'])')
  | (?P<char>'(?:\\x[0-9A-Fa-f]{2}|\\.|[^\\'])')
  | (?P<life>'[A-Za-z_][A-Za-z_0-9]*)
  | (?P<str>b?"(?:\\.|[^\\"])*")
  | (?P<num>0x[0-9A-Fa-f_]+(?:[ui](?:8|16|32|64|128|size))?|0b[01_]+(?:[ui](?:8|16|32|64|128|size))?|[0-9][0-9_]*(?:\.[0-9][0-9_]*)?(?:[eE][+-]?[0-9]+)?(?:_?(?:[ui](?:8|16|32|64|128|size)|f32|f64))?)
  | (?P<id>[A-Za-z_][A-Za-z_0-9]*)
  | (?P<op><<=|>>=|\.\.=|\.\.\.|==|!=|<=|>=|&&|\|\||\+=|-=|\*=|/=|%=|\^=|&=|\|=|<<|>>|->|=>|::|\.\.|[-+*/%^&|!=<>.,;:(){}\[\]#?@$])
""", re.X)


class TranslationError(Exception):
    pass


def strip_comments(s):
    out, i, n = [], 0, len(s)
    while i < n:
        if s.startswith("//", i):
            j = s.find("\n", i)
            i = n if j < 0 else j
        elif s.startswith("/*", i):
            j = s.find("*/", i + 2)
            i = n if j < 0 else j + 2
        elif s[i] == "r" and re.match(r'r#*"', s[i:i + 6]) and not (i and (s[i - 1].isalnum() or s[i - 1] == "_")):
            h = re.match(r'r(#*)"', s[i:i + 6]).group(1)
            j = s.find('"' + h, i + 2 + len(h))
            out.append('""'); i = n if j < 0 else j + 1 + len(h)
        elif s[i] == '"':
            j = i + 1
            while j < n and s[j] != '"':
                j += 2 if s[j] == "\\" else 1
            out.append(s[i:j + 1]); i = j + 1
        elif (s[i] == "'" or s.startswith("b'", i)) and re.match(r"b?'(?:\\x[0-9A-Fa-f]{2}|\\.|[^\\'])'", s[i:i + 9]):
            m = re.match(r"b?'(?:\\x[0-9A-Fa-f]{2}|\\.|[^\\'])'", s[i:i + 9])
            out.append(m.group(0)); i += len(m.group(0))
        else:
            out.append(s[i]); i += 1
    return "".join(out)


def lex(src):
    toks, i = [], 0
    while i < len(src):
        m = TOK.match(src, i)
        if not m:
            raise TranslationError("cannot tokenize at: " + src[i:i + 30])
        i = m.end()
        k = m.lastgroup
        if k == "ws":
            continue
        toks.append((k, m.group(0)))
    return toks


INT_TYPES = {"u8": (8, False), "u16": (16, False), "u32": (32, False), "u64": (64, False), "u128": (128, False), "usize": (64, False),
             "i8": (8, True), "i16": (16, True), "i32": (32, True), "i64": (64, True), "i128": (128, True), "isize": (64, True)}


def T_int(name):
    w, s = INT_TYPES[name]
    return ("int", w, s)


BOOL = ("bool",)
UNIT = ("unit",)


def byte_value(tok):
    body = tok[2:-1] if tok.startswith("b'") else tok[1:-1]
    if body.startswith("\\x"):
        return int(body[2:], 16)
    if body.startswith("\\"):
        return {"n": 10, "r": 13, "t": 9, "\\": 92, "'": 39, '"': 34, "0": 0}[body[1]]
    return ord(body)


# ----------------------------------------------------------------------------------------------
# parser (expressions by precedence climbing)
# ----------------------------------------------------------------------------------------------
BINPREC = {"||": 1, "&&": 2, "==": 3, "!=": 3, "<": 3, ">": 3, "<=": 3, ">=": 3, "|": 4, "^": 5, "&": 6, "<<": 7, ">>": 7,
           "+": 8, "-": 8, "*": 9, "/": 9, "%": 9}
ASSIGN_OPS = {"=", "+=", "-=", "*=", "/=", "%=", "^=", "&=", "|=", "<<=", ">>="}


class P:
    def __init__(self, toks):
        self.t, self.i = toks, 0

    def peek(self, k=0):
        return self.t[self.i + k][1] if self.i + k < len(self.t) else None

    def kind(self, k=0):
        return self.t[self.i + k][0] if self.i + k < len(self.t) else None

    def next(self):
        v = self.t[self.i][1]; self.i += 1; return v

    def eat(self, v):
        if self.peek() != v:
            raise TranslationError("expected %r, found %r (near %s)" % (v, self.peek(), " ".join(x[1] for x in self.t[max(0, self.i - 6):self.i + 4])))
        self.i += 1

    def accept(self, v):
        if self.peek() == v:
            self.i += 1; return True
        return False

    def skip_attrs(self):
        """#[...] attributes; returns the list of their texts"""
        attrs = []
        while self.peek() == "#":
            self.next()
            self.accept("!")
            self.eat("[")
            depth, txt = 1, []
            while depth:
                v = self.next()
                if v == "[":
                    depth += 1
                elif v == "]":
                    depth -= 1
                if depth:
                    txt.append(v)
            attrs.append("".join(txt))
        return attrs

    # ---- types ----
    def ty(self):
        if self.accept("&"):
            if self.kind() == "life":
                self.next()
            mut = self.accept("mut")
            t = self.ty()
            return ("ref", mut, t)
        if self.accept("*"):
            mut = self.next()  # mut | const
            t = self.ty()
            return ("ptr", mut == "mut", t)
        if self.accept("("):
            ts = []
            while not self.accept(")"):
                ts.append(self.ty()); self.accept(",")
            return ("tuple", ts) if ts else UNIT
        if self.accept("["):
            t = self.ty()
            n = None
            if self.accept(";"):
                n = self.expr()
            self.eat("]")
            return ("arr", t, n)
        name = self.next()
        while self.accept("::"):
            name = self.next()
        if name == "Option" and self.peek() == "<":
            self.next(); t = self.ty(); self.eat(">")
            return ("opt", t)
        if self.peek() == "<":
            depth = 0
            while True:
                v = self.next()
                if v == "<":
                    depth += 1
                elif v == ">":
                    depth -= 1
                elif v == ">>":
                    depth -= 2
                if depth <= 0:
                    break
        if name in INT_TYPES:
            return T_int(name)
        if name == "bool":
            return BOOL
        return ("named", name)

    # ---- patterns ----
    def pat(self):
        if self.accept("("):
            ps = []
            while not self.accept(")"):
                ps.append(self.pat()); self.accept(",")
            return ("ptuple", ps)
        if self.accept("_"):
            return ("pwild",)
        self.accept("mut")
        return ("pvar", self.next())

    # ---- expressions ----
    def expr(self, minprec=0, nostruct=False):
        lhs = self.unary(nostruct)
        while True:
            op = self.peek()
            if op == "as":
                self.next(); lhs = ("cast", lhs, self.ty()); continue
            if op in ("..", "..="):
                if minprec > 0:
                    break
                self.next()
                if self.peek() == "]":
                    lhs = ("range", lhs, None, False); continue
                rhs = self.expr(1, nostruct)
                lhs = ("range", lhs, rhs, op == "..=")
                continue
            if op in BINPREC and BINPREC[op] >= max(minprec, 1):
                p = BINPREC[op]
                self.next()
                rhs = self.expr(p + 1, nostruct)
                lhs = ("binop", op, lhs, rhs)
                continue
            break
        return lhs

    def unary(self, nostruct):
        v = self.peek()
        if v in ("-", "!", "*"):
            self.next()
            return ("unop", v, self.unary_cast(nostruct))
        if v == "&":
            self.next(); self.accept("mut")
            return self.unary(nostruct)            # references are transparent
        return self.postfix(self.primary(nostruct), nostruct)

    def unary_cast(self, nostruct):
        # `-x as T` parses as `(-x) as T`; the operand of a unary operator is a postfix expression
        return self.unary(nostruct)

    def args(self):
        a = []
        while not self.accept(")"):
            a.append(self.expr()); self.accept(",")
        return a

    def postfix(self, e, nostruct):
        while True:
            v = self.peek()
            if v == "(":
                self.next(); e = ("call", e, self.args())
            elif v == "[":
                self.next()
                if self.peek() in ("..", "..="):
                    op = self.next(); hi = None if self.peek() == "]" else self.expr(1)
                    i = ("range", None, hi, op == "..=")
                else:
                    i = self.expr()
                    if i[0] != "range" and self.peek() == "..":
                        self.next(); i = ("range", i, None, False)
                self.eat("]"); e = ("index", e, i)
            elif v == ".":
                self.next()
                if self.kind() == "num":
                    e = ("field", e, self.next())
                else:
                    name = self.next()
                    if self.peek() == "::":      # turbofish
                        self.next(); self.ty_args()
                    if self.peek() == "(":
                        self.next(); e = ("method", e, name, self.args())
                    else:
                        e = ("field", e, name)
            elif v == "?":
                raise TranslationError("`?` operator")
            else:
                return e

    def ty_args(self):
        self.eat("<"); depth = 1
        while depth:
            v = self.next()
            depth += {"<": 1, ">": -1, ">>": -2}.get(v, 0)

    def block(self):
        self.eat("{")
        stmts, tail = [], None
        nosemi = -1
        while True:
            attrs = self.skip_attrs()
            drop = any(re.match(r'cfg\(target_endian="big"\)', a) for a in attrs) or any(a.startswith("cfg(test") for a in attrs)
            if self.accept("}"):
                if tail is None and stmts and nosemi == len(stmts) - 1:
                    tail = stmts.pop()[1]
                break
            if self.accept(";"):
                continue
            if self.peek() == "const":
                self.next(); name = self.next(); self.eat(":"); t = self.ty(); self.eat("="); e = self.expr(); self.eat(";")
                stmts.append(("const", name, t, e)); continue
            if self.peek() == "let":
                self.next(); p = self.pat(); t = None
                if self.accept(":"):
                    t = self.ty()
                init = None
                if self.accept("="):
                    init = self.expr()
                self.eat(";")
                stmts.append(("let", p, t, init)); continue
            if self.peek() == "return":
                self.next()
                e = None if self.peek() == ";" else self.expr()
                self.accept(";")
                stmts.append(("return", e)); continue
            if self.peek() == "for":
                self.next(); pat = self.pat(); self.eat("in")
                it = self.expr(0, True)
                body = self.block()
                stmts.append(("for", pat, it, body)); continue
            if self.peek() in ("while", "loop"):
                raise TranslationError("loop (`%s`)" % self.peek())
            if self.peek() in ("if", "match", "unsafe", "{"):
                # a block-like expression in statement position ends the statement
                e = self.primary(False)
                if drop:
                    self.accept(";"); continue
                if self.peek() == "}":
                    self.next(); tail = e; break
                if not self.accept(";"):
                    nosemi = len(stmts)
                stmts.append(("expr", e)); continue
            e = self.expr()
            if drop:
                self.accept(";"); continue
            if self.peek() in ASSIGN_OPS:
                op = self.next(); r = self.expr()
                if self.peek() != "}":
                    self.eat(";")
                stmts.append(("assign", e, op, r)); continue
            if self.accept(";"):
                stmts.append(("expr", e)); continue
            if self.peek() == "}":
                self.next(); tail = e; break
            if e[0] in ("if", "match", "block", "macro"):
                stmts.append(("expr", e)); continue
            raise TranslationError("unexpected token %r after expression" % self.peek())
        return ("block", stmts, tail)

    def primary(self, nostruct):
        k, v = self.kind(), self.peek()
        if v == "(":
            self.next()
            if self.accept(")"):
                return ("tuple", [])
            e = self.expr()
            if self.accept(")"):
                return e
            es = [e]
            while self.accept(","):
                if self.peek() == ")":
                    break
                es.append(self.expr())
            self.eat(")")
            return ("tuple", es)
        if v == "{":
            return self.block()
        if v == "unsafe":
            self.next(); return self.block()
        if v == "if":
            self.next()
            if self.peek() == "let":
                raise TranslationError("`if let`")
            c = self.expr(0, True)
            a = self.block()
            b = None
            if self.accept("else"):
                b = self.primary(nostruct) if self.peek() == "if" else self.block()
                if b[0] == "if":
                    b = ("block", [], b)
            return ("if", c, a, b)
        if v == "match":
            self.next(); s = self.expr(0, True); self.eat("{")
            arms = []
            while not self.accept("}"):
                pats = [self.match_pat()]
                while self.accept("|"):
                    pats.append(self.match_pat())
                self.eat("=>")
                body = self.expr()
                self.accept(",")
                arms.append((pats, body))
            return ("match", s, arms)
        if v == "|":
            self.next(); ps = []
            while not self.accept("|"):
                ps.append(self.pat()); self.accept(",")
            return ("closure", ps, self.expr())
        if k == "num":
            self.next(); return self.number(v)
        if k == "byte":
            self.next(); return ("lit", byte_value(v), "u8")
        if v in ("true", "false"):
            self.next(); return ("bool", v == "true")
        if k == "id":
            segs = [self.next()]
            while self.peek() == "::":
                self.next()
                if self.peek() == "<":
                    self.ty_args(); continue
                segs.append(self.next())
            if self.peek() == "!":
                self.next(); return self.macro(segs[-1])
            if self.peek() == "{" and not nostruct and segs[-1][0].isupper():
                self.next(); fields = []
                while not self.accept("}"):
                    f = self.next()
                    if self.accept(":"):
                        fields.append((f, self.expr()))
                    else:
                        fields.append((f, ("path", [f])))
                    self.accept(",")
                return ("struct", segs, fields)
            return ("path", segs)
        raise TranslationError("unsupported expression starting with %r" % v)

    def match_pat(self):
        if self.accept("_"):
            return ("pwild",)
        return ("pexpr", self.expr(5))      # binds tighter than `|`

    def number(self, v):
        m = re.match(r"^(.*?)_?((?:[ui](?:8|16|32|64|128|size))|f32|f64)?$", v)
        body, suf = m.group(1), m.group(2)
        body = body.replace("_", "")
        if suf in ("f32", "f64") or re.search(r"[.eE]", body) and not body.startswith("0x"):
            raise TranslationError("float literal " + v)
        return ("lit", int(body, 0), suf)

    def macro(self, name):
        open_ = self.next()
        close = {"(": ")", "[": "]", "{": "}"}[open_]
        if name in ("debug_assert", "assert"):
            e = self.expr()
            self.skip_to(close)
            return ("macro", "assert", [e])
        if name in ("debug_assert_eq", "assert_eq"):
            a = self.expr(); self.eat(","); b = self.expr(); self.skip_to(close)
            return ("macro", "assert", [("binop", "==", a, b)])
        if name == "matches":
            s = self.expr(); self.eat(",")
            pats = [self.match_pat()]
            while self.accept("|"):
                pats.append(self.match_pat())
            self.skip_to(close)
            return ("macro", "matches", [s, pats])
        if name in ("unreachable", "panic", "unimplemented"):
            self.skip_to(close)
            return ("macro", "panic", [])
        raise TranslationError("macro %s!" % name)

    def skip_to(self, close):
        depth = 1
        pairs = {"(": ")", "[": "]", "{": "}"}
        while depth:
            v = self.next()
            if v in pairs:
                depth += 1
            elif v in pairs.values():
                depth -= 1


# ----------------------------------------------------------------------------------------------
# source files: functions, constants, structs
# ----------------------------------------------------------------------------------------------
class Source:
    def __init__(self, repo, rel, subst=None):
        self.rel = rel
        text = strip_comments(open(os.path.join(repo, rel)).read())
        # the verification hooks are not part of the translated code
        text = re.sub(r"#\[cfg\(sonic_rs_verif\)\]\s*pub mod verif_hooks\s*\{.*\Z", "", text, flags=re.S)
        text = re.sub(r"#\[cfg\(test\)\]\s*mod \w+\s*\{.*\Z", "", text, flags=re.S)
        for a, b in (subst or {}).items():
            text = text.replace(a, b)
        self.toks = lex(text)

    def find_fn(self, name, after=None):
        """token index of `fn name`; `after` = an identifier that must occur before it (impl header)"""
        start = 0
        if after:
            for i in range(len(self.toks) - 1):
                if self.toks[i][1] == "impl" and self._impl_matches(i, after):
                    start = i; break
            else:
                raise TranslationError("impl %s not found in %s" % (after, self.rel))
        for i in range(start, len(self.toks) - 1):
            if self.toks[i][1] == "fn" and self.toks[i + 1][1] == name:
                return i
        raise TranslationError("fn %s not found in %s" % (name, self.rel))

    def parse_fn(self, name, after=None):
        p = P(self.toks); p.i = self.find_fn(name, after)
        p.eat("fn"); p.next()
        if p.peek() == "<":
            p.ty_args()
        p.eat("(")
        params = []
        while not p.accept(")"):
            if p.peek() == "&" and p.peek(1) in ("self", "mut") and (p.peek(1) == "self" or p.peek(2) == "self"):
                p.next(); p.accept("mut"); p.next(); params.append(("self", ("named", "Self"))); p.accept(","); continue
            if p.peek() == "self":
                p.next(); params.append(("self", ("named", "Self"))); p.accept(","); continue
            p.accept("mut")
            n = p.next(); p.eat(":"); t = p.ty(); params.append((n, t)); p.accept(",")
        ret = UNIT
        if p.accept("->"):
            ret = p.ty()
        if p.peek() == "where":
            while p.peek() != "{":
                p.next()
        body = p.block()
        return params, ret, body

    def consts(self, after=None):
        """`const NAME: T = expr;` items (module level or inside the impl block named `after`)"""
        out = {}
        toks = self.toks
        lo, hi = 0, len(toks)
        if after:
            for i in range(len(toks) - 1):
                if toks[i][1] == "impl" and self._impl_matches(i, after):
                    j = i
                    while toks[j][1] != "{":
                        j += 1
                    depth, k = 1, j + 1
                    while depth:
                        depth += {"{": 1, "}": -1}.get(toks[k][1], 0); k += 1
                    self._collect_consts(j + 1, k, out)
            return out
        self._collect_consts(lo, hi, out)
        return out

    def _impl_matches(self, i, after):
        words = []
        j = i + 1
        while self.toks[j][1] != "{" and j < i + 12:
            words.append(self.toks[j][1]); j += 1
        return " ".join(words) == after or (after in words and " " not in after and "for" not in words)

    def _collect_consts(self, lo, hi, out):
        toks = self.toks
        i = lo
        while i < hi - 3:
            if toks[i][1] in ("const", "static") and toks[i + 1][0] == "id" and toks[i + 2][1] == ":":
                p = P(toks); p.i = i + 1
                name = p.next(); p.eat(":")
                try:
                    t = p.ty()
                    if p.accept("="):
                        e = p.expr()
                        out.setdefault(name, (t, e))
                    i = p.i
                    continue
                except TranslationError:
                    pass
            i += 1

    def struct_fields(self, name):
        toks = self.toks
        for i in range(len(toks) - 2):
            if toks[i][1] in ("struct", "union") and toks[i + 1][1] == name:
                p = P(toks); p.i = i + 2
                p.eat("{")
                fs = []
                while not p.accept("}"):
                    p.skip_attrs()
                    p.accept("pub")
                    if p.peek() == "(":
                        p.next(); p.skip_to(")")
                    f = p.next(); p.eat(":"); t = p.ty(); fs.append((f, t)); p.accept(",")
                return fs
        raise TranslationError("struct %s not found in %s" % (name, self.rel))


# ----------------------------------------------------------------------------------------------
# translation
# ----------------------------------------------------------------------------------------------
COQ_RESERVED = {"left", "right", "at", "in", "end", "fun", "mod", "type", "as", "return", "with", "match", "if", "then", "else", "let", "fix",
                "forall", "exists", "Some", "None", "bind", "idx", "upd", "shr", "assert", "add", "Type", "Set", "Prop", "using", "where", "is", "lo", "hi"} - {"lo", "hi"}


def cname(n):
    return n + "_" if n in COQ_RESERVED else n


def zlit(v):
    return str(v) if v >= 0 else "(%d)" % v


def ty_range(t):
    _, w, s = t
    return (-(1 << (w - 1)), (1 << (w - 1)) - 1) if s else (0, (1 << w) - 1)


def wrap_py(t, v):
    _, w, s = t
    v &= (1 << w) - 1
    if s and v >= 1 << (w - 1):
        v -= 1 << w
    return v


class V:
    """a translated pure expression: Coq term, type, and its value when it is a compile-time constant"""
    def __init__(self, term, ty, const=None):
        self.term, self.ty, self.const = term, ty, const


def mk_const(v, t):
    return V(zlit(v), t, v)


class Ctx:
    """one function being translated"""
    def __init__(self, tr, name, consts, self_ty=None, generics=None):
        self.tr, self.name, self.consts, self.self_ty, self.generics = tr, name, consts, self_ty, generics or {}
        self.fresh = 0
        self.early = []         # stack of variable lists of the enclosing early-return scopes
        self.outs = []          # names of &mut / *mut parameters, returned after the result
        self.ret_ty = None

    def tmp(self, base="t"):
        self.fresh += 1
        return "%s%d" % (base, self.fresh)


# IR of the monadic code
#   ("ret", term) | ("fail",) | ("let", pat, term, body) | ("bind", pat, opt_term, body) | ("if", cond, A, B) | ("bindc", pat, code, body)

def simp(c):
    k = c[0]
    if k in ("ret", "fail"):
        return c
    if k == "let":
        return ("let", c[1], c[2], simp(c[3]))
    if k == "bind":
        return ("bind", c[1], c[2], simp(c[3]))
    if k == "if":
        a, b = simp(c[2]), simp(c[3])
        if a[0] == "ret" and b[0] == "ret":
            return ("ret", "(if %s then %s else %s)" % (c[1], a[1], b[1]))
        if a == b:
            return a
        return ("if", c[1], a, b)
    if k == "matchret":
        return ("matchret", c[1], simp(c[2]), simp(c[3]))
    if k == "bindc":
        inner, body = simp(c[2]), simp(c[3])
        pure = as_pure(inner)
        if pure is not None:
            return ("let", c[1], pure, body)
        return ("bindc", c[1], inner, body)
    raise AssertionError(k)


def as_pure(c):
    """the term computed by code that cannot fail, or None"""
    k = c[0]
    if k == "ret":
        return c[1]
    if k == "let":
        b = as_pure(c[3])
        return None if b is None else "(let %s := %s in %s)" % (c[1], c[2], b)
    if k == "if":
        a, b = as_pure(c[2]), as_pure(c[3])
        return None if a is None or b is None else "(if %s then %s else %s)" % (c[1], a, b)
    return None


def pp(c, ind=2):
    sp = " " * ind
    k = c[0]
    if k == "ret":
        return sp + "Some %s" % paren(c[1])
    if k == "fail":
        return sp + "None"
    if k == "let":
        return sp + "let %s := %s in\n%s" % (c[1], c[2], pp(c[3], ind))
    if k == "bind":
        return sp + "%s <- %s ;;\n%s" % (c[1], c[2], pp(c[3], ind))
    if k == "bindc":
        return sp + "%s <- (\n%s) ;;\n%s" % (c[1], pp(c[2], ind + 4), pp(c[3], ind))
    if k == "if":
        return sp + "if %s then (\n%s)\n%selse (\n%s)" % (c[1], pp(c[2], ind + 2), sp, pp(c[3], ind + 2))
    if k == "matchret":
        return sp + "match %s with\n%s| Some r_ => (\n%s)\n%s| None => (\n%s)\n%send" % (c[1], sp, pp(c[2], ind + 4), sp, pp(c[3], ind + 4), sp)
    raise AssertionError(k)


def pp_opt_pair(c, iv):
    return pp(c, 6)


def paren(t):
    t = t.strip()
    if re.fullmatch(r"[A-Za-z_0-9']+|\(.*\)", t) and balanced_outer(t):
        return t
    return "(" + t + ")"


def balanced_outer(t):
    if not t.startswith("("):
        return True
    depth = 0
    for i, ch in enumerate(t):
        depth += {"(": 1, ")": -1}.get(ch, 0)
        if depth == 0 and i < len(t) - 1:
            return False
    return True


def pat_of(names):
    if len(names) == 1:
        return names[0]
    return "'(" + ", ".join(names) + ")"


def tuple_term(ts):
    return ts[0] if len(ts) == 1 else "(" + ", ".join(ts) + ")"


class Translator:
    def __init__(self, repo):
        self.repo = repo
        self.sources = {}
        self.funcs = {}          # rust key -> dict(name, params, ret, outs)
        self.structs = {}        # name -> [(field, type)]
        self.tables = {}         # rust name -> (coq term, element type)
        self.out = []
        self.errors = []

    def src(self, rel, subst=None):
        key = (rel, tuple(sorted((subst or {}).items())))
        if key not in self.sources:
            self.sources[key] = Source(self.repo, rel, subst)
        return self.sources[key]

    # ---- constants (evaluated at translation time) ----
    def const_value(self, ctx, name):
        if name in ctx.consts:
            t, e = ctx.consts[name]
            if t[0] != "int":
                raise TranslationError("constant %s is not an integer" % name)
            sub = Ctx(self, ctx.name, ctx.consts, ctx.self_ty, ctx.generics)
            v = self.pure_expr(sub, {}, e, t)
            if v.const is None:
                raise TranslationError("constant %s is not a compile-time integer" % name)
            return mk_const(v.const, t)
        raise TranslationError("unknown constant " + name)

    # ---- expression translation ----
    # expr(ctx, env, e, expected) -> (pre, V) where pre = list of IR wrappers (functions body -> code)
    def pure_expr(self, ctx, env, e, expected=None):
        pre, v = self.expr(ctx, env, e, expected)
        if pre:
            raise TranslationError("constant expression needs a run-time check")
        return v

    def expr(self, ctx, env, e, expected=None):
        k = e[0]
        if k == "lit":
            t = T_int(e[2]) if e[2] else (expected if expected and expected[0] == "int" else T_int("i32"))
            lo, hi = ty_range(t)
            if not lo <= e[1] <= hi:
                raise TranslationError("literal %d out of range" % e[1])
            return [], mk_const(e[1], t)
        if k == "bool":
            return [], V("true" if e[1] else "false", BOOL, e[1])
        if k == "path":
            segs = e[1]
            if len(segs) == 1 and segs[0] in env:
                return [], V(cname(segs[0]), env[segs[0]])
            if segs == ["None"]:
                return [], V("None", expected if expected and expected[0] == "opt" else ("opt", None))
            name = segs[-1]
            if len(segs) >= 2 and segs[-2] in INT_TYPES and name in ("MAX", "MIN"):
                t = T_int(segs[-2]); lo, hi = ty_range(t)
                return [], mk_const(hi if name == "MAX" else lo, t)
            if name in self.tables and len(segs) <= 2:
                return [], V(self.tables[name][0], ("arr", self.tables[name][1], None))
            if len(segs) == 2 and segs[0] in ctx.generics:
                gc = ctx.generics[segs[0]]
                if name in gc:
                    sub = Ctx(self, ctx.name, gc, ctx.self_ty, ctx.generics)
                    return [], self.const_value(sub, name)
            return [], self.const_value(ctx, name)
        if k == "tuple":
            pre, vs = [], []
            exps = expected[1] if expected and expected[0] == "tuple" else [None] * len(e[1])
            for x, ex in zip(e[1], exps):
                p, v = self.expr(ctx, env, x, ex); pre += p; vs.append(v)
            return pre, V(tuple_term([v.term for v in vs]), ("tuple", [v.ty for v in vs]))
        if k == "cast":
            pre, v = self.expr(ctx, env, e[1], e[2] if e[1][0] == "lit" and not e[1][2] else None)
            return pre, self.cast(v, e[2])
        if k == "unop":
            return self.unop(ctx, env, e, expected)
        if k == "binop":
            return self.binop(ctx, env, e, expected)
        if k == "method":
            return self.method(ctx, env, e, expected)
        if k == "call":
            return self.call(ctx, env, e, expected)
        if k == "index" and e[2][0] == "range":
            pre, a = self.expr(ctx, env, e[1])
            if a.ty[0] != "arr":
                raise TranslationError("slicing a non-array")
            lo, hi = e[2][1], e[2][2]
            if e[2][3]:
                raise TranslationError("inclusive slice range")
            plo = phi = []
            tlo, thi = "0", "(Z.of_nat (length %s))" % a.term
            if lo is not None:
                plo, vlo = self.expr(ctx, env, lo, T_int("usize")); tlo = paren(vlo.term)
            if hi is not None:
                phi, vhi = self.expr(ctx, env, hi, T_int("usize")); thi = paren(vhi.term)
            n = ctx.tmp("s")
            pre = pre + plo + phi
            pre.append(lambda body, n=n, a=a, tlo=tlo, thi=thi: ("bind", n, "slice %s %s %s" % (paren(a.term), tlo, thi), body))
            return pre, V(n, ("arr", a.ty[1], None))
        if k == "index":
            pre, a = self.expr(ctx, env, e[1])
            p2, i = self.expr(ctx, env, e[2], T_int("usize")); pre += p2
            if a.ty[0] != "arr":
                raise TranslationError("indexing a non-array")
            if i.const is not None and a.ty[2] is not None and 0 <= i.const < a.ty[2]:
                n = ctx.tmp("x")
                pre.append(lambda body, n=n, a=a, i=i: ("bind", n, "idx %s %s" % (a.term, i.term), body))
                return pre, V(n, a.ty[1])
            n = ctx.tmp("x")
            pre.append(lambda body, n=n, a=a, i=i: ("bind", n, "idx %s %s" % (paren(a.term), paren(i.term)), body))
            return pre, V(n, a.ty[1])
        if k == "field":
            pre, a = self.expr(ctx, env, e[1])
            if a.ty[0] == "tuple":
                n = int(e[2]); return pre, V(self.proj(a.term, n, len(a.ty[1])), a.ty[1][n])
            if a.ty[0] == "named" and a.ty[1] in self.unions:
                return pre, V(a.term, dict(self.structs[a.ty[1]])[e[2]])
            if a.ty[0] == "named" and a.ty[1] in self.structs:
                fs = self.structs[a.ty[1]]
                names = [f for f, _ in fs]
                n = names.index(e[2])
                return pre, V(self.proj(a.term, n, len(fs)), fs[n][1])
            raise TranslationError("field access .%s on %r" % (e[2], a.ty))
        if k == "struct":
            sname = e[1][-1]
            if sname == "Self":
                sname = ctx.self_ty
            fs = self.structs.get(sname)
            if fs is None:
                raise TranslationError("struct %s is not declared to the translator" % sname)
            given = dict(e[2])
            pre, vs = [], []
            if len(given) == 1 and len(fs) > 1 and sname in self.unions:
                # a union written through one field: the value itself
                f, x = list(given.items())[0]
                p, v = self.expr(ctx, env, x, dict(fs)[f])
                return p, V(v.term, ("named", sname))
            for f, t in fs:
                p, v = self.expr(ctx, env, given[f], t); pre += p; vs.append(v)
            return pre, V(tuple_term([v.term for v in vs]), ("named", sname))
        if k == "range":
            raise TranslationError("range outside `.contains`")
        if k == "macro":
            if e[1] == "matches":
                pre, s = self.expr(ctx, env, e[2][0])
                alts = []
                for p in e[2][1]:
                    if p[0] == "pwild":
                        return pre, V("true", BOOL)
                    v = self.pure_expr(ctx, env, p[1], s.ty)
                    alts.append("(%s =? %s)" % (s.term, v.term))
                return pre, V("(" + " || ".join(alts) + ")", BOOL)
            raise TranslationError("macro in expression position: " + e[1])
        if k in ("if", "block", "match"):
            return self.expr_via_code(ctx, env, e, expected)
        raise TranslationError("unsupported expression kind " + k)

    unions = {"Meta"}

    def proj(self, term, n, total):
        if total == 1:
            return term
        t = term
        # right-nested? Coq tuples are left-nested: (a, b, c) = ((a, b), c)
        for _ in range(total - 1 - n):
            t = "(fst %s)" % t
        return t if n == 0 else "(snd %s)" % t

    def expr_via_code(self, ctx, env, e, expected):
        """an if / block / match used as a value: translate as code returning that value"""
        holder = {}

        def k(env2, v):
            holder["ty"] = v.ty
            return ("ret", v.term)
        code = self.value_code(ctx, dict(env), e, expected, k)
        n = ctx.tmp("v")
        ty = holder.get("ty")
        if ty is None:
            raise TranslationError("value of a diverging expression")
        return [lambda body, n=n, code=code: ("bindc", n, code, body)], V(n, ty)

    def value_code(self, ctx, env, e, expected, k):
        """code for expression e whose value is passed to k(env, V); assignments inside are NOT propagated
        (used for pure-valued if/match/block expressions; assignment inside them is rejected)"""
        if e[0] == "block":
            return self.block(ctx, env, e, lambda env2, v: k(env2, v), expected, value=True)
        if e[0] == "if":
            pre, c = self.expr(ctx, env, e[1], BOOL)
            if e[3] is None:
                raise TranslationError("if without else used as a value")
            a = self.value_code(ctx, dict(env), e[2], expected, k)
            b = self.value_code(ctx, dict(env), e[3], expected, k)
            return wrap(pre, ("if", c.term, a, b))
        if e[0] == "match":
            return self.match_code(ctx, env, e, lambda env2, body: self.value_code(ctx, env2, body, expected, k))
        pre, v = self.expr(ctx, env, e, expected)
        return wrap(pre, k(env, v))

    def match_code(self, ctx, env, e, arm_code):
        pre, s = self.expr(ctx, env, e[1])
        code = ("fail",)
        for pats, body in reversed(e[2]):
            bc = arm_code(dict(env), body)
            if any(p[0] == "pwild" for p in pats):
                code = bc
                continue
            conds = ["(%s =? %s)" % (s.term, self.pure_expr(ctx, env, p[1], s.ty).term) for p in pats]
            code = ("if", " || ".join(conds), bc, code)
        return wrap(pre, code)

    def cast(self, v, t):
        if t[0] == "named" and t[1] == "_":
            raise TranslationError("cast to inferred type")
        if t[0] != "int":
            raise TranslationError("cast to non-integer type %r" % (t,))
        if v.ty == BOOL:
            c = None if v.const is None else int(v.const)
            return V("(b2z %s)" % v.term, t, c)
        if v.ty[0] != "int":
            raise TranslationError("cast of non-integer %r" % (v.ty,))
        if v.const is not None:
            return mk_const(wrap_py(t, v.const), t)
        slo, shi = ty_range(v.ty); tlo, thi = ty_range(t)
        if tlo <= slo and shi <= thi:
            return V(v.term, t)
        if t[2]:
            return V("(wrap_s %d %s)" % (t[1], paren(v.term)), t)
        return V("(%s mod %d)" % (paren(v.term), 1 << t[1]), t)

    def unop(self, ctx, env, e, expected):
        op = e[1]
        if op == "*":
            return self.expr(ctx, env, e[2], expected)          # dereference of a parameter reference
        if op == "-" and e[2][0] == "lit":
            t = T_int(e[2][2]) if e[2][2] else (expected if expected and expected[0] == "int" else T_int("i32"))
            return [], mk_const(-e[2][1], t)
        pre, v = self.expr(ctx, env, e[2], expected)
        if op == "!":
            if v.ty == BOOL:
                return pre, V("(negb %s)" % v.term, BOOL, None if v.const is None else (not v.const))
            if v.const is not None:
                return pre, mk_const(wrap_py(v.ty, ~v.const), v.ty)
            if v.ty[2]:
                return pre, V("(not_s %s)" % paren(v.term), v.ty)
            return pre, V("(%d - %s)" % ((1 << v.ty[1]) - 1, paren(v.term)), v.ty)
        if op == "-":
            if v.ty[0] != "int" or not v.ty[2]:
                raise TranslationError("unary minus on unsigned")
            if v.const is not None:
                return pre, mk_const(-v.const, v.ty)
            n = ctx.tmp()
            pre.append(lambda body, n=n, v=v: ("bind", n, "chk_s %d (- %s)" % (v.ty[1], paren(v.term)), body))
            return pre, V(n, v.ty)
        raise TranslationError("unary " + op)

    def operands(self, ctx, env, a, b, expected):
        """translate both operands of an arithmetic operator, letting a bare literal take the other side's type"""
        bare = lambda x: (x[0] == "lit" and not x[2]) or (x[0] == "unop" and x[1] == "-" and x[2][0] == "lit" and not x[2][2])
        if bare(a) and not bare(b):
            pb, vb = self.expr(ctx, env, b, expected)
            pa, va = self.expr(ctx, env, a, vb.ty)
            return pa + pb, va, vb
        pa, va = self.expr(ctx, env, a, expected)
        pb, vb = self.expr(ctx, env, b, va.ty if va.ty[0] == "int" else expected)
        return pa + pb, va, vb

    def binop(self, ctx, env, e, expected):
        op, a, b = e[1], e[2], e[3]
        if op in ("&&", "||"):
            pa, va = self.expr(ctx, env, a, BOOL)
            pb, vb = self.expr(ctx, env, b, BOOL)
            if va.const is not None and vb.const is not None:
                r = (va.const and vb.const) if op == "&&" else (va.const or vb.const)
                return pa + pb, V("true" if r else "false", BOOL, r)
            if not pb:
                return pa, V("(%s %s %s)" % (va.term, op, vb.term), BOOL)
            # the right operand is evaluated (and may panic) only when needed
            n = ctx.tmp("c")
            inner = wrap(pb, ("ret", vb.term))
            other = ("ret", "false" if op == "&&" else "true")
            code = ("if", va.term, inner, other) if op == "&&" else ("if", va.term, other, inner)
            pa.append(lambda body, n=n, code=code: ("bindc", n, code, body))
            return pa, V(n, BOOL)
        if op in ("<<", ">>"):
            pa, va = self.expr(ctx, env, a, expected)
            pb, vb = self.expr(ctx, env, b, T_int("u32"))
            pre = pa + pb
            t = va.ty
            if t[0] != "int":
                raise TranslationError("shift of non-integer")
            w = t[1]
            if vb.const is not None:
                s = vb.const
                if not 0 <= s < w:
                    raise TranslationError("constant shift amount %d out of range for %d bits" % (s, w))
                if va.const is not None:
                    r = wrap_py(t, va.const << s) if op == "<<" else va.const >> s
                    return pre, mk_const(r, t)
                if op == ">>":
                    return pre, V("(%s / %d)" % (paren(va.term), 1 << s), t)
                if t[2]:
                    return pre, V("(wrap_s %d (%s * %d))" % (w, paren(va.term), 1 << s), t)
                return pre, V("((%s * %d) mod %d)" % (paren(va.term), 1 << s, 1 << w), t)
            n = ctx.tmp()
            f = "chk_shr %d" % w if op == ">>" else ("chk_shl_s %d" % w if t[2] else "chk_shl_u %d" % w)
            pre.append(lambda body, n=n, f=f, va=va, vb=vb: ("bind", n, "%s %s %s" % (f, paren(va.term), paren(vb.term)), body))
            return pre, V(n, t)
        pre, va, vb = self.operands(ctx, env, a, b, expected if op in "+-*/%&|^" else None)
        if op in ("==", "!=", "<", ">", "<=", ">="):
            if va.ty == BOOL and vb.ty == BOOL:
                t = "(Bool.eqb %s %s)" % (va.term, vb.term)
                return pre, V(t if op == "==" else "(negb %s)" % t, BOOL)
            if va.ty[0] == "tuple" or va.ty[0] == "named":
                raise TranslationError("comparison of aggregates")
            if va.ty != vb.ty:
                raise TranslationError("comparison between %r and %r" % (va.ty, vb.ty))
            if va.const is not None and vb.const is not None:
                r = {"==": va.const == vb.const, "!=": va.const != vb.const, "<": va.const < vb.const, ">": va.const > vb.const,
                     "<=": va.const <= vb.const, ">=": va.const >= vb.const}[op]
                return pre, V("true" if r else "false", BOOL, r)
            x, y = va.term, vb.term
            t = {"==": "(%s =? %s)" % (x, y), "!=": "(negb (%s =? %s))" % (x, y), "<": "(%s <? %s)" % (x, y), ">": "(%s <? %s)" % (y, x),
                 "<=": "(%s <=? %s)" % (x, y), ">=": "(%s <=? %s)" % (y, x)}[op]
            return pre, V(t, BOOL)
        if va.ty == BOOL and vb.ty == BOOL and op in "&|^":
            f = {"&": "andb", "|": "orb", "^": "xorb"}[op]
            return pre, V("(%s %s %s)" % (f, va.term, vb.term), BOOL)
        if va.ty[0] != "int" or va.ty != vb.ty:
            raise TranslationError("operator %s between %r and %r" % (op, va.ty, vb.ty))
        t = va.ty
        if op in "&|^":
            if va.const is not None and vb.const is not None:
                r = {"&": va.const & vb.const, "|": va.const | vb.const, "^": va.const ^ vb.const}[op]
                return pre, mk_const(r, t)
            f = {"&": "Z.land", "|": "Z.lor", "^": "Z.lxor"}[op]
            return pre, V("(%s %s %s)" % (f, paren(va.term), paren(vb.term)), t)
        if op in "+-*":
            if va.const is not None and vb.const is not None:
                r = {"+": va.const + vb.const, "-": va.const - vb.const, "*": va.const * vb.const}[op]
                lo, hi = ty_range(t)
                if not lo <= r <= hi:
                    raise TranslationError("constant arithmetic overflows")
                return pre, mk_const(r, t)
            n = ctx.tmp()
            chk = "chk_s %d" % t[1] if t[2] else "chk_u %d" % t[1]
            pre.append(lambda body, n=n, chk=chk, va=va, vb=vb, op=op: ("bind", n, "%s (%s %s %s)" % (chk, paren(va.term), op, paren(vb.term)), body))
            return pre, V(n, t)
        if op in "/%":
            n = ctx.tmp()
            f = "chk_div" if op == "/" else "chk_rem"
            if vb.const is not None and vb.const > 0 and not t[2]:
                return pre, V("(%s %s %s)" % (paren(va.term), "/" if op == "/" else "mod", zlit(vb.const)), t)
            pre.append(lambda body, n=n, f=f, va=va, vb=vb: ("bind", n, "%s %s %s" % (f, paren(va.term), paren(vb.term)), body))
            return pre, V(n, t)
        raise TranslationError("operator " + op)

    def method(self, ctx, env, e, expected):
        recv, name, args = e[1], e[2], e[3]
        if recv[0] == "range" and name == "contains":
            pa, x = self.expr(ctx, env, args[0])
            lo = self.pure_expr(ctx, env, recv[1], x.ty)
            hi = self.pure_expr(ctx, env, recv[2], x.ty)
            cmp_hi = "<=?" if recv[3] else "<?"
            return pa, V("((%s <=? %s) && (%s %s %s))" % (lo.term, x.term, x.term, cmp_hi, hi.term), BOOL)
        pre, r = self.expr(ctx, env, recv, expected if name.startswith("wrapping_") else None)
        t = r.ty
        if t[0] == "arr" and name == "len" and not args:
            return pre, V("(Z.of_nat (length %s))" % r.term, T_int("usize"))
        if t[0] == "arr" and name == "iter" and not args:
            return pre, r
        if t[0] == "named" and "%s::%s" % (t[1], name) in self.funcs:
            return self.call(ctx, env, ("call", ("path", [t[1], name]), [recv] + list(args)), expected)
        if name == "as_little_endian" and t[0] == "int" and not t[2] and "as_little_endian_u%d" % t[1] in self.funcs and not args:
            return self.call(ctx, env, ("call", ("path", ["as_little_endian_u%d" % t[1]]), [recv]), expected)
        if name in ("clone", "to_le", "into", "get") and not args:
            return pre, r
        if t[0] == "opt":
            if name == "is_some_and" and args[0][0] == "closure":
                (p,), body = args[0][1], args[0][2]
                env2 = dict(env); env2[p[1]] = t[1]
                b = self.pure_expr(ctx, env2, body, BOOL)
                return pre, V("(match %s with Some %s => %s | None => false end)" % (r.term, cname(p[1]), b.term), BOOL)
            if name == "unwrap_or":
                d = self.pure_expr(ctx, env, args[0], t[1])
                return pre, V("(match %s with Some x_ => x_ | None => %s end)" % (r.term, d.term), t[1])
            raise TranslationError("Option method " + name)
        if t[0] != "int":
            raise TranslationError("method %s on %r" % (name, t))
        w, sg = t[1], t[2]
        wrapf = (lambda s: "(wrap_s %d %s)" % (w, s)) if sg else (lambda s: "(%s mod %d)" % (s, 1 << w))
        if name in ("wrapping_add", "wrapping_sub", "wrapping_mul"):
            pa, a = self.expr(ctx, env, args[0], t)
            op = {"wrapping_add": "+", "wrapping_sub": "-", "wrapping_mul": "*"}[name]
            if r.const is not None and a.const is not None:
                return pre + pa, mk_const(wrap_py(t, eval("%d %s %d" % (r.const, op, a.const))), t)
            return pre + pa, V(wrapf("(%s %s %s)" % (paren(r.term), op, paren(a.term))), t)
        if name in ("overflowing_add", "overflowing_sub", "overflowing_mul"):
            pa, a = self.expr(ctx, env, args[0], t)
            op = {"overflowing_add": "+", "overflowing_sub": "-", "overflowing_mul": "*"}[name]
            full = "(%s %s %s)" % (paren(r.term), op, paren(a.term))
            inr = "(in_s %d %s)" % (w, full) if sg else "(in_u %d %s)" % (w, full)
            return pre + pa, V("(%s, negb %s)" % (wrapf(full), inr), ("tuple", [t, BOOL]))
        if name in ("leading_zeros", "trailing_zeros") and not sg:
            return pre, V("(%s %d %s)" % (name, w, paren(r.term)), T_int("u32"))
        if name == "count_ones" and not sg:
            return pre, V("(count_ones %s)" % paren(r.term), T_int("u32"))
        if name in ("checked_shl", "checked_shr") and not sg:
            pa, a = self.expr(ctx, env, args[0], T_int("u32"))
            f = "chk_shl_u %d" % w if name == "checked_shl" else "chk_shr %d" % w
            return pre + pa, V("(%s %s %s)" % (f, paren(r.term), paren(a.term)), ("opt", t))
        if name == "saturating_sub" and not sg:
            pa, a = self.expr(ctx, env, args[0], t)
            return pre + pa, V("(Z.max 0 (%s - %s))" % (paren(r.term), paren(a.term)), t)
        if name in ("min", "max"):
            pa, a = self.expr(ctx, env, args[0], t)
            return pre + pa, V("(Z.%s %s %s)" % (name, paren(r.term), paren(a.term)), t)
        if name == "clamp":
            pa, a = self.expr(ctx, env, args[0], t); pb, b = self.expr(ctx, env, args[1], t)
            return pre + pa + pb, V("(Z.min %s (Z.max %s %s))" % (b.term, a.term, paren(r.term)), t)
        if name == "is_ascii_digit" and t == T_int("u8"):
            return pre, V("((48 <=? %s) && (%s <=? 57))" % (r.term, r.term), BOOL)
        if name == "offset":
            raise TranslationError("pointer arithmetic outside a store")
        raise TranslationError("method %s on an integer" % name)

    def call(self, ctx, env, e, expected):
        f, args = e[1], e[2]
        if f[0] != "path":
            raise TranslationError("call of a computed function %r" % (f,))
        segs = f[1]
        key = None
        cands = ["::".join(segs[-2:]), segs[-1]]
        if segs[0] == "Self" and ctx.self_ty:
            cands.insert(0, ctx.self_ty + "::" + segs[-1])
        for c in cands:
            if c in self.funcs:
                key = c; break
        if key is None and segs == ["Some"] and len(args) == 1:
            pre, v = self.expr(ctx, env, args[0], expected[1] if expected and expected[0] == "opt" else None)
            return pre, V("(Some %s)" % paren(v.term), ("opt", v.ty))
        if key is None:
            # identity wrappers around the bit pattern
            if segs[-1] in ("from_u64_bits",) and len(args) == 1:
                return self.expr(ctx, env, args[0], T_int("u64"))
            if segs[-1] == "new" and len(segs) >= 2 and segs[-2] in ("Self",) and len(args) == 1 and ctx.self_ty in self.unions:
                return self.expr(ctx, env, args[0])
            raise TranslationError("call of an untranslated function %s" % "::".join(segs))
        fn = self.funcs[key]
        pre, terms = [], []
        outs_assign = []
        for (pn, pt), a in zip(fn["params"], args):
            p, v = self.expr(ctx, env, a, pt if pt[0] == "int" else None); pre += p
            terms.append(paren(v.term))
            if pn in fn["outs"]:
                # `&mut x` / `x` (already a &mut parameter here): the callee's final value flows back
                tgt = a
                while tgt[0] == "unop" and tgt[1] == "*":
                    tgt = tgt[2]
                if tgt[0] != "path" or len(tgt[1]) != 1:
                    raise TranslationError("&mut argument is not a variable")
                outs_assign.append(tgt[1][0])
        n = ctx.tmp("r")
        names = [n] + [cname(x) for x in outs_assign]
        pre.append(lambda body, names=names, fn=fn, terms=terms: ("bind", pat_of(names), "%s %s" % (fn["name"], " ".join(terms)) if terms else fn["name"], body))
        return pre, V(n, fn["ret"])

    # ---- statements ----
    def assigned_vars(self, node, acc):
        """variables assigned (not declared) somewhere inside a block / expression"""
        if isinstance(node, tuple):
            if node and node[0] == "assign":
                tgt = node[1]
                self._lhs_vars(tgt, acc)
            if node and node[0] == "call":
                # &mut arguments
                for a in node[2]:
                    pass
            for x in node[1:]:
                self.assigned_vars(x, acc)
        elif isinstance(node, list):
            for x in node:
                self.assigned_vars(x, acc)

    def _lhs_vars(self, tgt, acc):
        while tgt[0] == "unop" and tgt[1] == "*":
            tgt = tgt[2]
        if tgt[0] == "path" and len(tgt[1]) == 1:
            acc.add(tgt[1][0])
        elif tgt[0] == "tuple":
            for x in tgt[1]:
                self._lhs_vars(x, acc)
        elif tgt[0] == "method" and tgt[2] == "offset":
            self._lhs_vars(tgt[1], acc)
        elif tgt[0] == "field":
            self._lhs_vars(tgt[1], acc)

    def has_return(self, node):
        if isinstance(node, tuple):
            if node and node[0] == "return":
                return True
            if node and node[0] == "closure":
                return False
            return any(self.has_return(x) for x in node[1:])
        if isinstance(node, list):
            return any(self.has_return(x) for x in node)
        return False

    def block(self, ctx, env, blk, k, expected=None, value=False):
        """code of a block; k(env, V or None) builds what follows it"""
        stmts, tail = blk[1], blk[2]
        env = dict(env)
        declared_here = set()

        def go(i, env):
            if i == len(stmts):
                if tail is None:
                    return k(env, None if not value else V("tt", UNIT))
                if tail[0] in ("if", "match", "block") and not value:
                    return self.stmt_expr(ctx, env, tail, lambda env2, v: k(env2, v), expected, want_value=True)
                if tail[0] in ("if", "match", "block"):
                    return self.value_code(ctx, env, tail, expected, k)
                if tail[0] == "macro" and tail[1] == "panic":
                    return ("fail",)
                pre, v = self.expr(ctx, env, tail, expected)
                return wrap(pre, k(env, v))
            s = stmts[i]
            rest = lambda env2: go(i + 1, env2)
            if s[0] == "const":
                ctx.consts = dict(ctx.consts); ctx.consts[s[1]] = (s[2], s[3])
                return rest(env)
            if s[0] == "let":
                _, p, t, init = s
                if init is None:
                    # deferred initialisation: the variables exist, untyped until assigned
                    env2 = dict(env)
                    code = None
                    for nme in pat_names(p):
                        env2[nme] = t if t else ("uninit",)
                    # Rust guarantees assignment before use; a placeholder keeps the name in scope on every path
                    code = rest(env2)
                    for nme in reversed(pat_names(p)):
                        code = ("let", cname(nme), "0", code)
                    return code
                if init[0] in ("if", "match", "block") and not self.has_return(init):
                    pre, v = self.expr_via_code(ctx, env, init, t)
                    return wrap(pre, self.bind_pat(ctx, dict(env), p, v, t, rest))
                if init[0] in ("if", "match", "block"):
                    def after(env2, v):
                        env3 = dict(env2)
                        return self.bind_pat(ctx, env3, p, v, t, rest)
                    return self.stmt_expr(ctx, env, init, after, t, want_value=True)
                pre, v = self.expr(ctx, env, init, t)
                if t and t[0] == "int" and v.ty != t:
                    raise TranslationError("let %s: declared %r, initialiser %r" % (p, t, v.ty))
                return wrap(pre, self.bind_pat(ctx, dict(env), p, v, t, rest))
            if s[0] == "return":
                if s[1] is None:
                    return self.final(ctx, env, None)
                if s[1][0] in ("if", "match", "block"):
                    return self.stmt_expr(ctx, env, s[1], lambda env2, v: self.final(ctx, env2, v), ctx.ret_ty, want_value=True)
                pre, v = self.expr(ctx, env, s[1], ctx.ret_ty)
                return wrap(pre, self.final(ctx, env, v))
            if s[0] == "assign":
                return self.assign(ctx, env, s, rest)
            if s[0] == "for":
                return self.for_loop(ctx, env, s, rest)
            if s[0] == "expr":
                e = s[1]
                if e[0] == "macro" and e[1] == "assert":
                    pre, c = self.expr(ctx, env, e[2][0], BOOL)
                    if c.const is True:
                        return wrap(pre, rest(env))
                    return wrap(pre, ("if", c.term, rest(env), ("fail",)))
                if e[0] == "macro" and e[1] == "panic":
                    return ("fail",)
                if e[0] in ("if", "match", "block"):
                    return self.stmt_expr(ctx, env, e, lambda env2, v: rest(env2), None, want_value=False)
                pre, v = self.expr(ctx, env, e)
                return wrap(pre, rest(env))
            raise TranslationError("statement " + s[0])
        return go(0, env)

    def for_loop(self, ctx, env, s, rest):
        """`for x in list-expression { body }` (also `.iter().enumerate()`): a monadic fold over the list whose state is
        the tuple of variables the body assigns; no break / continue / return inside"""
        _, pat, it, body = s
        if self.has_return(body):
            raise TranslationError("return inside a loop")
        for kw in ("break", "continue"):
            if self.mentions(body, kw):
                raise TranslationError("%s inside a loop" % kw)
        enum = False
        if it[0] == "method" and it[2] == "enumerate" and not it[3]:
            enum = True; it = it[1]
        pre, l = self.expr(ctx, env, it)
        if l.ty[0] != "arr":
            raise TranslationError("loop over a non-slice")
        acc = set(); self.assigned_vars(body, acc)
        vs = sorted(v for v in acc if v in env)
        for v in vs:
            if env[v] == ("uninit",):
                raise TranslationError("loop assigns a variable that is not initialised before it")
        env_b = dict(env)
        if enum:
            if pat[0] != "ptuple" or len(pat[1]) != 2 or pat[1][0][0] != "pvar" or pat[1][1][0] != "pvar":
                raise TranslationError("enumerate pattern")
            iv, xv = pat[1][0][1], pat[1][1][1]
            env_b[iv] = T_int("usize"); env_b[xv] = l.ty[1]
        else:
            if pat[0] != "pvar":
                raise TranslationError("loop pattern")
            xv = pat[1]; env_b[xv] = l.ty[1]
        state = [cname(v) for v in vs]
        st_term = tuple_term(state) if state else "tt"
        inner = self.block(ctx, env_b, body, lambda env2, v: ("ret", st_term))
        inner = simp(inner)
        st_pat = ("'" + "(" + ", ".join(state) + ")") if len(state) > 1 else (state[0] if state else "_")
        if enum:
            fn = "(fun '(%s, st_) %s => let %s := st_ in\n%s)" % (cname(iv), cname(xv), st_pat if len(state) != 1 else state[0], pp_opt_pair(inner, cname(iv)))
            term = "foldM_enum %s %s %s" % (fn, paren(l.term), st_term)
        else:
            fn = "(fun st_ %s => let %s := st_ in\n%s)" % (cname(xv), st_pat if len(state) != 1 else state[0], pp(inner, 6))
            term = "foldM %s %s %s" % (fn, paren(l.term), st_term)
        code = ("bind", pat_of(state) if state else "_", term, rest(env))
        return wrap(pre, code)

    def mentions(self, node, word):
        if isinstance(node, tuple):
            if len(node) == 2 and node[0] == "path" and node[1] == [word]:
                return True
            return any(self.mentions(x, word) for x in node[1:])
        if isinstance(node, list):
            return any(self.mentions(x, word) for x in node)
        return False

    def bind_pat(self, ctx, env, p, v, t, rest):
        if p[0] == "pvar":
            env[p[1]] = v.ty
            if v.term == cname(p[1]):
                return rest(env)
            return ("let", cname(p[1]), v.term, rest(env))
        if p[0] == "pwild":
            return rest(env)
        if p[0] == "ptuple":
            tys = v.ty[1] if v.ty[0] == "tuple" else [ft for _, ft in self.structs[v.ty[1]]]
            names = []
            for q, qt in zip(p[1], tys):
                if q[0] == "pvar":
                    env[q[1]] = qt; names.append(cname(q[1]))
                elif q[0] == "pwild":
                    names.append("_")
                else:
                    raise TranslationError("nested tuple pattern")
            return ("let", "'(" + ", ".join(names) + ")", v.term, rest(env))
        raise TranslationError("pattern")

    def assign(self, ctx, env, s, rest):
        _, tgt, op, rhs = s
        while tgt[0] == "unop" and tgt[1] == "*" and not (tgt[2][0] == "path" and env.get(tgt[2][1][0], ("",))[0] == "buf"):
            tgt = tgt[2]
        # store through an output pointer at a constant offset: *c = e / *(c.offset(k)) = e / *c.add(k) = e
        if tgt[0] == "unop" and tgt[1] == "*":
            tgt = tgt[2]
        ptr, off = None, None
        if tgt[0] == "path" and len(tgt[1]) == 1 and env.get(tgt[1][0], ("",))[0] == "buf":
            ptr, off = tgt[1][0], 0
        if tgt[0] == "method" and tgt[2] in ("offset", "add") and tgt[1][0] == "path" and env.get(tgt[1][1][0], ("",))[0] == "buf":
            ptr = tgt[1][1][0]
            off = self.pure_expr(ctx, env, tgt[3][0], T_int("usize")).const
            if off is None:
                raise TranslationError("store at a non-constant offset")
        if ptr is not None:
            if op != "=":
                raise TranslationError("compound store")
            pre, v = self.expr(ctx, env, rhs, T_int("u8"))
            if v.ty != T_int("u8"):
                raise TranslationError("store of a non-byte")
            return wrap(pre, ("let", cname(ptr), "upd %s %d %s" % (cname(ptr), off, paren(v.term)), rest(env)))
        if tgt[0] == "tuple":
            if op != "=":
                raise TranslationError("compound tuple assignment")
            pre, v = self.expr(ctx, env, rhs)
            pat = ("ptuple", [("pwild",) if (x[0] == "path" and x[1] == ["_"]) else ("pvar", x[1][0]) for x in tgt[1]])
            return wrap(pre, self.bind_pat(ctx, dict(env), pat, v, None, rest))
        if tgt[0] == "field" and tgt[1][0] == "path" and len(tgt[1][1]) == 1:
            # x.f = e on a struct variable: rebuild the tuple
            var = tgt[1][1][0]
            vt = env[var]
            fs = self.structs[vt[1]]
            names = [f for f, _ in fs]
            n = names.index(tgt[2])
            if op != "=":
                rhs = ("binop", op[:-1], tgt, rhs)
            pre, v = self.expr(ctx, env, rhs, fs[n][1])
            comps = [v.term if j == n else self.proj(cname(var), j, len(fs)) for j in range(len(fs))]
            return wrap(pre, ("let", cname(var), tuple_term(comps), rest(env)))
        if tgt[0] != "path" or len(tgt[1]) != 1:
            raise TranslationError("assignment target")
        var = tgt[1][0]
        if var not in env:
            raise TranslationError("assignment to unknown variable " + var)
        if op == "=":
            vt = env[var]
            pre, v = self.expr(ctx, env, rhs, vt if vt[0] == "int" else None)
            env2 = dict(env)
            if vt == ("uninit",):
                env2[var] = v.ty
            elif v.ty != vt:
                raise TranslationError("assignment of %r to %s: %r" % (v.ty, var, vt))
            return wrap(pre, ("let", cname(var), v.term, rest(env2)))
        bop = op[:-1]
        pre, v = self.expr(ctx, env, ("binop", bop, ("path", [var]), rhs))
        return wrap(pre, ("let", cname(var), v.term, rest(env)))

    def stmt_expr(self, ctx, env, e, k, expected, want_value):
        """an if / match / block in statement position (or initialising a let): assignments inside flow out"""
        if e[0] == "block":
            return self.block(ctx, env, e, k, expected, value=want_value)
        if e[0] == "match":
            if want_value or (self.has_return(e) and self.paths(e) <= 1):
                return self.match_code(ctx, env, e, lambda env2, body: self.stmt_expr(ctx, env2, self.as_block(body), k, expected, want_value))
            return self.merge(ctx, env, e, k, lambda kk: self.match_code(ctx, env, e, lambda env2, body: self.stmt_expr(ctx, env2, self.as_block(body), kk, None, False)))
        # if
        pre, c = self.expr(ctx, env, e[1], BOOL)
        els = e[3] if e[3] is not None else ("block", [], None)
        if c.const is not None:
            return wrap(pre, self.stmt_expr(ctx, env, e[2] if c.const else els, k, expected, want_value))
        if want_value or (self.has_return(e) and self.paths(e) <= 1):
            a = self.stmt_expr(ctx, dict(env), e[2], k, expected, want_value)
            b = self.stmt_expr(ctx, dict(env), els, k, expected, want_value)
            return wrap(pre, ("if", c.term, a, b))

        def build(kk):
            a = self.stmt_expr(ctx, dict(env), e[2], kk, None, False)
            b = self.stmt_expr(ctx, dict(env), els, kk, None, False)
            return wrap(pre, ("if", c.term, a, b))
        return self.merge(ctx, env, e, k, build)

    def paths(self, node):
        """number of syntactic paths through a statement / block that reach its end (do not `return`)"""
        k = node[0]
        if k == "block":
            n = 1
            for st in node[1]:
                if st[0] == "return":
                    return 0
                if st[0] == "expr" and st[1][0] in ("if", "match", "block"):
                    n *= self.paths(st[1])
                if st[0] == "expr" and st[1][0] == "macro" and st[1][1] == "panic":
                    return 0
            if node[2] is not None and node[2][0] in ("if", "match", "block"):
                n *= self.paths(node[2])
            return n
        if k == "if":
            return self.paths(node[2]) + (self.paths(node[3]) if node[3] is not None else 1)
        if k == "match":
            return sum(self.paths(self.as_block(b)) for _, b in node[2])
        return 1

    def as_block(self, body):
        return body if body[0] == "block" else ("block", [], body)

    def merge(self, ctx, env, e, k, build):
        """branches without `return`: the variables they assign are returned as a tuple and rebound, so the
        continuation is emitted once"""
        acc = set(); self.assigned_vars(e, acc)
        vs = sorted(v for v in acc if v in env)
        if self.has_return(e):
            # several paths fall through and some return early: the branches yield (Some result | None, vars)
            tys = {}
            ctx.early.append(vs)

            def kk(env2, v):
                for x in vs:
                    tys.setdefault(x, env2[x])
                return ("ret", tuple_term(["None"] + [cname(x) for x in vs]))
            code = build(kk)
            ctx.early.pop()
            env3 = dict(env)
            for x in vs:
                env3[x] = tys.get(x, env[x])
            nm = ctx.tmp("early")
            return ("bindc", pat_of([nm] + [cname(x) for x in vs]), code, ("matchret", nm, self.propagate(ctx, "r_"), k(env3, None)))
        if not vs:
            code = build(lambda env2, v: ("ret", "tt"))
            return ("bindc", "_", code, k(env, None))
        tys = {}

        def kk(env2, v):
            for x in vs:
                tys.setdefault(x, env2[x])
            return ("ret", tuple_term([cname(x) for x in vs]))
        code = build(kk)
        env3 = dict(env)
        for x in vs:
            env3[x] = tys.get(x, env[x])
        return ("bindc", pat_of([cname(x) for x in vs]), code, k(env3, None))

    def final(self, ctx, env, v):
        terms = [] if v is None or v.ty == UNIT else [v.term]
        if v is not None and ctx.ret_ty and ctx.ret_ty[0] == "opt" and v.ty[0] == "opt" and v.ty[1] in (None, ctx.ret_ty[1]):
            pass
        elif v is not None and ctx.ret_ty and ctx.ret_ty[0] in ("int", "opt") and v.ty != ctx.ret_ty:
            raise TranslationError("returned %r, declared %r" % (v.ty, ctx.ret_ty))
        terms += [cname(o) for o in ctx.outs]
        if not terms:
            terms = ["tt"]
        return self.propagate(ctx, tuple_term(terms))

    def propagate(self, ctx, result):
        """code that makes the function return `result` from the current nesting of early-return scopes"""
        if ctx.early:
            return ("ret", tuple_term(["(Some %s)" % paren(result)] + [cname(x) for x in ctx.early[-1]]))
        return ("ret", result)

    # ---- one function ----
    def function(self, rel, rust_name, coq_name, impl=None, self_ty=None, generics=None, subst=None, key=None, doc="", more_consts=()):
        try:
            src = self.src(rel, subst)
            params, ret, body = src.parse_fn(rust_name, impl)
            consts = {}
            for mrel in more_consts:
                consts.update(self.src(mrel).consts())
            consts.update(src.consts())
            if impl:
                consts.update(src.consts(impl))
            gen = {}
            for g, (grel, gimpl) in (generics or {}).items():
                gen[g] = self.src(grel).consts(gimpl)
            ctx = Ctx(self, coq_name, consts, self_ty, gen)
            env, cparams, outs = {}, [], []
            for n, t in params:
                if t[0] == "ref" and t[2][0] == "int":
                    env[n] = t[2]
                    if t[1]:
                        outs.append(n)
                elif t[0] == "ref" and t[2][0] == "arr":
                    et = t[2][1]
                    ln = None
                    if t[2][2] is not None:
                        ln = self.pure_expr(ctx, {}, t[2][2], T_int("usize")).const
                    env[n] = ("arr", et, ln)
                elif t[0] == "ptr" and t[1] and t[2] == T_int("u8"):
                    env[n] = ("buf",); outs.append(n)
                elif t[0] == "ref" and t[2] == ("named", "Self") or n == "self":
                    env[n] = self.self_value_type(self_ty)
                elif t[0] == "int" or t == BOOL:
                    env[n] = t
                elif t[0] == "named" and t[1] in self.structs:
                    env[n] = t
                else:
                    raise TranslationError("parameter %s: unsupported type %r" % (n, t))
                cparams.append(cname(n))
            if ret[0] == "named" and ret[1] == "Self":
                ret = self.self_value_type(self_ty)
            if ret[0] == "named" and ret[1] in gen:
                ret = T_int("u64")          # a float returned as its bit pattern (from_u64_bits)

            ctx.outs, ctx.ret_ty = outs, ret
            code = self.block(ctx, env, body, lambda env2, v: self.final(ctx, env2, v), ret if ret[0] in ("int", "opt") or ret == BOOL else None)
            code = simp(code)
            sig = " ".join("(%s : %s)" % (p, coq_type(env[n], self)) for p, (n, _) in zip(cparams, params))
            rty = [coq_type(ret, self)] if ret != UNIT else []
            rty += [coq_type(env[o], self) for o in outs]
            rty = " * ".join(rty) if rty else "unit"
            text = "(* %s: fn %s%s *)\nDefinition %s %s : option (%s) :=\n%s.\n" % (rel, (impl + "::" if impl else "") + rust_name, doc, coq_name, sig, rty, pp(code))
            self.out.append(text)
            self.funcs[key or rust_name] = {"name": coq_name, "params": params, "ret": ret, "outs": outs}
        except TranslationError as ex:
            self.errors.append("%s (%s): %s" % (coq_name, rel, ex))
        except (IndexError, KeyError, ValueError) as ex:
            self.errors.append("%s (%s): parser failure %s: %s" % (coq_name, rel, type(ex).__name__, ex))

    def self_value_type(self, self_ty):
        if self_ty in INT_TYPES:
            return T_int(self_ty)
        return ("named", self_ty)

    def struct(self, rel, name):
        try:
            self.structs[name] = self.src(rel).struct_fields(name)
        except TranslationError as ex:
            self.errors.append("struct %s: %s" % (name, ex))


def pat_names(p):
    if p[0] == "pvar":
        return [p[1]]
    if p[0] == "ptuple":
        return [n for q in p[1] for n in pat_names(q)]
    return []


def wrap(pre, code):
    for f in reversed(pre):
        code = f(code)
    return code


def coq_type(t, tr):
    if t[0] == "int":
        return "Z"
    if t == BOOL:
        return "bool"
    if t[0] == "arr" or t[0] == "buf":
        return "list Z"
    if t[0] == "tuple":
        return "(" + " * ".join(coq_type(x, tr) for x in t[1]) + ")"
    if t[0] == "opt":
        return "(option %s)" % coq_type(t[1], tr)
    if t[0] == "named" and t[1] in tr.structs:
        if t[1] in tr.unions:
            return "Z"
        return "(" + " * ".join(coq_type(x, tr) for _, x in tr.structs[t[1]]) + ")"
    if t == UNIT:
        return "unit"
    raise TranslationError("type %r" % (t,))


# ----------------------------------------------------------------------------------------------
# the list of translated functions
# ----------------------------------------------------------------------------------------------
HEADER = """(* GENERATED on every run by lib/rs2coq.py (T2) from /repo's current source text. Do not edit. *)
From Coq Require Import ZArith List Bool.
From SonicV Require Import Base.RustInt Gen.Tables.
Import ListNotations.
Open Scope Z_scope.
Open Scope bool_scope.

Definition POWER_OF_FIVE_128_Z : list (Z * Z) := map (fun p => (Z.of_N (fst p), Z.of_N (snd p))) POWER_OF_FIVE_128.
Definition DIGIT_TO_VAL32_Z : list Z := map Z.of_N DIGIT_TO_VAL32.
"""


def translate_all(repo):
    tr = Translator(repo)
    tr.tables["POWER_OF_FIVE_128"] = ("POWER_OF_FIVE_128_Z", ("tuple", [T_int("u64"), T_int("u64")]))
    tr.tables["DIGIT_TO_VAL32"] = ("DIGIT_TO_VAL32_Z", T_int("u32"))
    f64c = {"F": ("sonic-number/src/float.rs", "RawFloat for f64"), "T": ("sonic-number/src/float.rs", "RawFloat for f64")}
    tr.struct("sonic-number/src/common.rs", "BiasedFp")
    tr.struct("src/value/node.rs", "Meta")
    tr.struct("src/value/node.rs", "NodeMeta")
    # string scanner bit tricks
    tr.function("src/parser.rs", "get_escaped_branchless_u32", "get_escaped_branchless_u32")
    tr.function("src/parser.rs", "get_escaped_branchless_u64", "get_escaped_branchless_u64")
    tr.function("src/parser.rs", "is_whitespace", "is_whitespace")
    tr.function("src/util/arch/fallback.rs", "prefix_xor", "prefix_xor_fallback")
    # bit masks of sonic-simd (macro instantiated at u16 / u32 / u64)
    for ty in ("u16", "u32", "u64"):
        sub = {"$ty": ty, "Self::LEN": str(INT_TYPES[ty][0])}
        for fn in ("as_little_endian", "before", "first_offset", "all_zero", "clear_high_bits"):
            tr.function("sonic-simd/src/bits.rs", fn, "bitmask_%s_%s" % (ty, fn), impl="BitMask for " + ty, self_ty=ty, subst=sub,
                        key="%s::%s" % (ty, fn) if fn != "as_little_endian" else "as_little_endian_" + ty)
    # error positions and the portable whitespace classifier (loops over bytes)
    tr.struct("src/reader.rs", "Position")
    tr.function("src/reader.rs", "from_index", "position_from_index", impl="Position", self_ty="Position")
    tr.function("src/util/arch/fallback.rs", "get_nonspace_bits", "get_nonspace_bits_fallback")
    # node metadata
    tr.function("src/value/node.rs", "pack_dom_node", "meta_pack_dom_node", impl="Meta", self_ty="Meta")
    tr.function("src/value/node.rs", "get_kind", "meta_get_kind", impl="Meta", self_ty="Meta", key="Meta::get_kind")
    tr.function("src/value/node.rs", "get_type", "meta_get_type", impl="Meta", self_ty="Meta", key="Meta::get_type")
    tr.function("src/value/node.rs", "in_shared", "meta_in_shared", impl="Meta", self_ty="Meta", key="Meta::in_shared")
    tr.function("src/value/node.rs", "unpack_dom_node", "meta_unpack_dom_node", impl="Meta", self_ty="Meta")
    # \\u escapes
    tr.function("src/util/unicode.rs", "hex_to_u32_nocheck", "hex_to_u32_nocheck")
    tr.function("src/util/unicode.rs", "codepoint_to_utf8", "codepoint_to_utf8")
    # numbers
    tr.function("sonic-number/src/common.rs", "is_8digits", "is_8digits")
    tr.function("sonic-number/src/common.rs", "zero_pow2", "biased_fp_zero_pow2", impl="BiasedFp", self_ty="BiasedFp", key="BiasedFp::zero_pow2")
    tr.function("sonic-number/src/lemire.rs", "power", "lemire_power")
    tr.function("sonic-number/src/lemire.rs", "full_multiplication", "full_multiplication")
    tr.function("sonic-number/src/lemire.rs", "compute_product_approx", "compute_product_approx", more_consts=["sonic-number/src/table.rs"])
    tr.function("sonic-number/src/lemire.rs", "compute_float", "compute_float_f64", generics=f64c, more_consts=["sonic-number/src/table.rs"])
    tr.function("sonic-number/src/lib.rs", "parse_floating_normal_fast", "parse_floating_normal_fast")
    tr.function("sonic-number/src/lib.rs", "biased_fp_to_float", "biased_fp_to_bits_f64", generics=f64c)
    return tr


def main():
    repo, outp = sys.argv[1], sys.argv[2]
    tr = translate_all(repo)
    text = HEADER + "\n" + "\n".join(tr.out)
    if tr.errors:
        text += "\n(* NOT TRANSLATED:\n" + "\n".join("   " + e.replace("*)", "* )") for e in tr.errors) + "\n*)\n"
    old = open(outp).read() if os.path.exists(outp) else None
    if text != old:
        open(outp, "w").write(text)
    for e in tr.errors:
        print("T2: not translated:", e)
    print("T2: %d functions translated, %d failed" % (len(tr.out), len(tr.errors)))
    sys.exit(2 if tr.errors else 0)


if __name__ == "__main__":
    main()
