#!/usr/bin/env python3
"""lib/mk.py <targets...>: regenerate coq/_CoqProject + Makefile when the file list changed and make the targets"""
import importlib.machinery, importlib.util, sys
l = importlib.machinery.SourceFileLoader('check', '/verif/check'); spec = importlib.util.spec_from_loader('check', l); m = importlib.util.module_from_spec(spec); l.exec_module(m)
with m.Lock():
    m.coq_makefile()
    ok, out = m.coq_build(sys.argv[1:], timeout=3000)
print(out[-3000:]); sys.exit(0 if ok else 1)
