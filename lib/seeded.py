#!/usr/bin/env python3
"""lib/seeded.py verify <id> <src-dir>      confirm a seeded change in a scratch worktree (tests pass, demo fails with / passes without)
   lib/seeded.py detect <id> <prop> [...]    apply seeded/<id>/patch.diff to /repo, run ./check <prop> for each, undo; record in meta.json"""
import sys, os, json, subprocess, shutil, time
ROOT = os.path.dirname(os.path.dirname(os.path.abspath(__file__)))
WT = "/tmp/wt-verify"

def sh(cmd, cwd=None, timeout=3000):
    p = subprocess.run(cmd, shell=True, cwd=cwd, stdout=subprocess.PIPE, stderr=subprocess.STDOUT, text=True, errors="replace", timeout=timeout)
    return p.returncode, p.stdout

def ensure_wt():
    if not os.path.isdir(WT):
        rc, out = sh("git -C /repo worktree add --detach %s HEAD" % WT)
        assert rc == 0, out
    sh("git checkout -q --detach $(git -C /repo rev-parse HEAD) && git checkout -- .", cwd=WT)
    demo = os.path.join(WT, "demo")
    os.makedirs(os.path.join(demo, "src"), exist_ok=True)
    os.makedirs(os.path.join(demo, ".cargo"), exist_ok=True)
    open(os.path.join(demo, "Cargo.toml"), "w").write('[package]\nname="demo"\nversion="0.1.0"\nedition="2021"\n[workspace]\n[dependencies]\nsonic-rs={path=".."}\nsonic-number={path="../sonic-number"}\nsonic-simd={path="../sonic-simd"}\nbytes="1"\nfaststr="0.2"\nserde={version="1",features=["derive"]}\nserde_json={version="1",features=["float_roundtrip","raw_value"]}\n')
    open(os.path.join(demo, ".cargo", "config.toml"), "w").write('[net]\noffline=true\n[build]\nrustflags=["-C","target-cpu=native"]\ntarget-dir="%s/target-demo"\n' % WT)
    shutil.copy("/repo/Cargo.lock", os.path.join(demo, "Cargo.lock"))

BASELINE = False

def run_demo(src):
    shutil.copy(os.path.join(src, "demo.rs"), os.path.join(WT, "demo", "src", "main.rs"))
    # C17 demonstrations are built without target-cpu=native: the portable backend is the one compiled
    pre = 'RUSTFLAGS="" CARGO_TARGET_DIR=%s/target-demo-baseline ' % WT if BASELINE else ""
    rc, out = sh(pre + "cargo run --release --offline 2>&1 | tail -15", cwd=os.path.join(WT, "demo"))
    rc2, out2 = sh(pre + "cargo run --release --offline -q >/dev/null 2>&1; echo EXIT=$?", cwd=os.path.join(WT, "demo"))
    return "EXIT=0" in out2, out[-600:]

def verify(mid, src):
    global BASELINE
    BASELINE = mid.startswith("C17")
    ensure_wt()
    ok_clean, out_clean = run_demo(src)
    rc, out = sh("git apply %s" % os.path.join(src, "patch.diff"), cwd=WT)
    if rc != 0:
        print("patch does not apply:", out); return False
    rc, tout = sh("CARGO_TARGET_DIR=%s/target cargo test --workspace --offline --lib 2>&1 | grep -a 'test result' | head -3" % WT, cwd=WT)
    tests_ok = "90 passed; 0 failed" in tout
    ok_mut, out_mut = run_demo(src)
    sh("git checkout -- .", cwd=WT)
    good = ok_clean and tests_ok and not ok_mut
    dst = os.path.join(ROOT, "seeded", mid)
    os.makedirs(dst, exist_ok=True)
    for f in ("patch.diff", "demo.rs"):
        shutil.copy(os.path.join(src, f), os.path.join(dst, f))
    readme = open(os.path.join(src, "README.md")).read() if os.path.exists(os.path.join(src, "README.md")) else ""
    meta = {"id": mid, "breaks_property": mid.split("-")[0], "needs_to_manifest": readme.strip()[:1500],
            "confirmed": {"demo_passes_on_clean_tree": ok_clean, "existing_suite_passes_with_change": tests_ok, "demo_fails_with_change": not ok_mut,
                          "how": "scratch worktree %s at /repo HEAD: git apply patch.diff; cargo test --workspace --offline --lib; cargo run of demo.rs with and without the change" % WT,
                          "demo_output_with_change": out_mut[-400:]},
            "kept": good, "detected_by": {}}
    json.dump(meta, open(os.path.join(dst, "meta.json"), "w"), indent=1)
    print(mid, "clean demo ok:", ok_clean, "tests ok:", tests_ok, "demo fails with change:", not ok_mut, "=> kept" if good else "=> REJECTED")
    return good

def detect(mid, props):
    dst = os.path.join(ROOT, "seeded", mid)
    meta = json.load(open(os.path.join(dst, "meta.json")))
    rc, out = sh("git -C /repo status --porcelain")
    assert out.strip() == "", "/repo not clean: " + out
    rc, out = sh("git -C /repo apply %s" % os.path.join(dst, "patch.diff"))
    assert rc == 0, out
    try:
        for p in props:
            t0 = time.time()
            rc, out = sh("./check %s" % p, cwd=ROOT)
            viol = [l for l in out.split("\n") if l.startswith("VIOLATION")]
            meta["detected_by"][p] = {"exit": rc, "violations": len(viol), "first": viol[0] if viol else "", "wall_s": round(time.time() - t0, 1)}
            print(mid, p, "exit", rc, viol[0] if viol else "NOT DETECTED")
            # keep one replay as illustration
            if viol:
                rp = viol[0].split("replay=")[1].split()[0]
                if os.path.exists(rp):
                    shutil.copy(rp, os.path.join(dst, "replay-%s.json" % p))
    finally:
        sh("git -C /repo checkout -- .")
        sh("rm -rf %s/replays/*" % ROOT)
    json.dump(meta, open(os.path.join(dst, "meta.json"), "w"), indent=1)

if __name__ == "__main__":
    if sys.argv[1] == "verify":
        verify(sys.argv[2], sys.argv[3])
    else:
        detect(sys.argv[2], sys.argv[3:])
