#!/usr/bin/env python3
"""regenerate MANIFEST.json from the table below (python3 lib/mkmanifest.py)"""
import json, os
ROOT = os.path.dirname(os.path.dirname(os.path.abspath(__file__)))
NOTE = ("Trusted: Coq 8.16.1 kernel; the hand-written Gallina model, tied to /repo's current tree on every run by the "
        "correspondence run (differential, bounded by the generators whose distribution is in the evidence) and by the regenerated tables; "
        "extraction (ExtrOcamlBasic only) + OCaml driver; Rust harness; hooks under cfg(sonic_rs_verif). ")
C = {}
def chk(pid, text, note, tech, ref=None):
    C[pid] = dict(text=text, note=NOTE + note, tech=tech, ref=ref or "DESIGN.md section 4 " + pid)

chk("C02", "Coq theorems: the model of the validating skipper (skip_one/skip_array/skip_object with the string and number skippers) accepts, on arbitrary bytes, only whitespace + one RFC 8259 value + whitespace; the string and number skippers are sound and complete for their grammars. Tie: every generated/mutated/exhaustive-token input through 7 target types x 5 carriers, Ok/Err compared with the extracted verified recogniser and the executable reference parser (which are also compared with each other on every case).",
    "Completeness of the container skipper and the DOM parser's acceptance are validated by the correspondence, not yet proved; simdutf8 is modelled by Spec.Ref.utf8_valid.",
    "Coq proof (mutual fuel induction, grammar soundness) + model-vs-code correspondence")
chk("C20", "Coq theorems over the model of Position::from_index, Parser::error's clamp, Error::syntax's slice arithmetic and the stream/iterator latch (all inputs, all poll sequences, any behaviour of the underlying parser); tied to /repo by running the same functions through hooks and every error-returning entry point on generated rejected inputs and comparing with the extracted model.",
    "The error index each scanner reports is taken from the implementation (only its bound and its line/column are decided).",
    "Coq proof (induction over the input / poll sequence) + model-vs-code correspondence")

chk("C10", "Coq theorems for the three facts the bitmap skipper rests on, for all inputs: the escaped-character bitmap (get_escaped_branchless, any even width, carry across blocks), prefix_xor = running quote parity, and 'counting one bracket kind stops exactly at the matching bracket'; plus soundness of the validating skipper used by the checked walker. Tie: 15 lookup variants (checked/unchecked x 5 carriers, LazyValue/OwnedLazyValue/Value pointer) on generated well-formed documents and block-edge documents, spans compared with lookup on the executable reference parse.",
    "The per-block popcount bookkeeping of skip_container_loop and the path walkers are tied by the correspondence only; the reference parser (Spec/Ref.v) is cross-checked against the verified recogniser on every C02 case.",
    "Coq proof (bit-list induction, counting argument) + model-vs-code correspondence")
chk("C11", "Coq theorem: every slot the model of get_many_rec/get_many_keys (with the list of walked nodes the code keeps since the repair of F37) fills holds exactly what single-path lookup finds for that slot's path, on EVERY document tree - repeated member names included - path trie and early-exit pattern (mutual fuel induction, Model/ManySeen.v); the search without that list is refuted on a repeated name and equals the repaired one on documents without. Tie: get_many/get_many_unchecked on generated documents x path sets judged slot by slot by the extracted reference lookup (documents without repeated names, as the property states), and - for paths of member names, repeated names included - compared with the slot vector the extracted search model rec2 computes over the extracted build of the path tree (the theorems' own subject is run against the code); get_by_schema against the reference merge.",
    "The model works on the parsed tree (objects); arrays and the text-level walk are covered by the correspondence; completeness (all slots filled when every path resolves) is checked by the verdict op, not yet proved.",
    "Coq proof (invariant over the recursive extraction) + model-vs-code correspondence")
chk("C12", "Coq theorems: the iterator state machine (first/ending flags around parse_array_elem_lazy / parse_entry_lazy) is latched for every poll sequence and every behaviour of the underlying parser; every yielded element was stepped over by the validating skipper, hence is a well-formed value. Tie: checked/unchecked iterators and LazyValue::into_*_iter over 3 carriers on generated/mutated/trailing-garbage inputs, transcript (spans, decoded keys, terminal, 3 extra polls) compared with the executable reference iterator.",
    "That the yielded spans are exactly the members (count and order) is decided by the correspondence against Spec.Ref.ref_array_iter/ref_object_iter, not yet by a theorem.",
    "Coq proof (state-machine invariant) + model-vs-code correspondence")
chk("C14", "Coq theorems: whatever the validating skipper steps over or returns on arbitrary bytes is whitespace + an RFC 8259 value (strings with checked hex digits, numbers by the RFC grammar); tie: checked get (6 carriers), get_many and the checked iterators on mutated documents and every prefix of small documents; each returned span must equal Spec.Ref.ref_get (the executable decision procedure of 'well-formed up to and including the returned value') and its prefix must be valid UTF-8; on well-formed documents that repeat member names every filled slot of get_many must be exactly one well-formed value inside the input (F37).",
    "One-directional by the property's wording: the implementation may reject more than the reference (counted in the evidence as impl-chose-alternative).",
    "Coq proof (grammar soundness of the skipper on arbitrary bytes) + model-vs-code correspondence")

chk("C03", "Coq theorems: the DOM visitor (node stack with pending headers, copy to the arena at container end) turns the event stream of any value into exactly the node of that value - nesting, order, duplicates - for all trees; the node buffer len/2+2 always suffices; the 64-bit node metadata round-trips for child indices below 2^29 (and is refuted beyond: F14, recorded). Tie: 11 parse drivers (in-place and copying, stream, carriers, raw-number, lossy) dumped through the public read API against the dump of the executable reference parse, alignment sweep, Meta hook.",
    "The parser-to-visitor event stream itself (parse_value/array/object) is tied by the correspondence; numbers through Spec/Num.v.",
    "Coq proof (induction over trees, counting argument, arithmetic) + model-vs-code correspondence")
chk("C06", "Coq theorems: parse(print v) = v for the compact serializer and the reference parser for every tree (order and duplicates kept), and the PrettyFormatter state machine prints exactly the prescribed layout. Tie: every serialization of a parsed generated document must denote the same tree (float bits included), be exactly the model's canonical compact/pretty text of its own parse (Model/SerAll.v: spec escaper + separators + indentation), re-serialize to itself, agree across Display/to_string/to_vec; raw-number mode reproduces literals verbatim.",
    "ryu/itoa output is not modelled: the number token the implementation printed is taken as given and checked to parse back to the same class and bits. sort_keys / arbitrary_precision feature builds are not part of this check yet.",
    "Coq proof (induction over trees / formatter call sequences) + model-vs-code correspondence")
chk("C09", "Coq theorems: block scanning = byte scanning for every width/offset/length; the in-place decoder equals the copying decoder, writes behind its reads and keeps unread bytes; the string scanner is sound and complete for RFC string bodies; ESCAPED_TAB and the 4x256 hex table regenerated from the source are correct entry by entry and hex_to_u32 equals the specification on all four-hex-digit inputs. Tie: 13 decoders x length/position/byte-class/offset sweep, code points through escapes, strict and lossy modes, against Spec.Ref.decode_literal (strict) and the from_utf8_lossy model (lossy).",
    "The 32-byte block code of the decoders is tied by the sweep plus the generic block-scan theorem; surrogate-pair arithmetic is in the executable spec (not a separate theorem).",
    "Coq proof (block-scan lemma, buffer invariant, table sweeps lifted by forallb_forall) + model-vs-code correspondence")
chk("C13", "Coq theorems: the span captured for a lazy value is whitespace + exactly one well-formed value; mutation of a loaded owned-lazy container touches only the addressed element (frame lemmas). Tie: accessor strings of LazyValue/OwnedLazyValue obtained 7 ways, verbatim serialization, de+ser = trimmed input, Value::try_from, owned-lazy views, one mutation with a clone taken before, all against the reference parse of the raw text.",
    "The one-level lazy load and the atomic caches are C18's subject; accessor agreement is decided by the correspondence.",
    "Coq proof (skipper soundness, list frame lemmas) + model-vs-code correspondence")

chk("C07", "Coq theorems: plain integer literals are parsed and classified exactly for every digit list (19-digit wrapping accumulation never wraps; 20-digit overflow test; >20 digits never fit); the Clinger fast path m*10^e (m<2^53, 0<=e<=22) is one correctly rounded multiplication (Flocq); POW10_UINT, POW10_FLOAT and all 651 entries of POWER_OF_FIVE_128 regenerated from the source equal their definitions. Tie: ~8k literals per run (boundaries, every digit count, every power of ten, exact midpoints between doubles, alignment sweeps, huge exponents) through parse_number, the DOM and 12 typed targets against Spec/Num.v, plus simd_str2int hook and Rust's str::parse as second opinion on the spec.",
    "PARTIAL: the Eisel-Lemire and big-decimal slow paths are validated against the specification, not proved; Spec/Num.v's rounding is by exact integer arithmetic and is not proved equal to Flocq's operator. Flocq theorems depend on the four Reals axioms of the standard library.",
    "Coq proof (arithmetic, Flocq, table sweeps) + model-vs-code correspondence")
chk("C08", "Coq theorems on the reading side: the raw-number scanner accepts exactly the RFC 8259 numbers (sound and complete); decimal digit accumulation is exact up to 19 digits. Tie: every printed number (f64 over every exponent, neighbours of powers of ten, random; f32; all 8-bit and sampled wider integers incl. 128-bit; DOM routes) must be an RFC number whose exact value per Spec/Num.v is the value written (f32: narrowed once), and must read back bit-identically; raw numbers bare/quoted verbatim with agreeing accessors; malformed raw numbers rejected.",
    "PARTIAL: ryu and itoa are third-party; their output is checked per case, not proved (the thorough tier sweeps all 2^32 f32 values, implementation only).",
    "Coq proof (number grammar both directions) + per-value validation of the printer against the exact decimal specification")

chk("C05", "Coq theorems: format_string's 32-byte block algorithm equals the per-byte specification escaper for every string; NEED_ESCAPED and QUOTE_TAB regenerated from the source mark and expand exactly quote, backslash and the C0 controls; the PrettyFormatter prints exactly the prescribed layout; compact output of any tree parses back to it. Tie: format_string through the hook (block-edge sweep, page-boundary placement with an inaccessible next page, canary behind the reserved window) and generated values of the whole serde data model through 6 writers and failing sinks; the output must be valid UTF-8, well-formed, denote the value (Model/SerVal.v: expect/matches) and be exactly the canonical compact/pretty text; non-scalar map keys refused; failing sinks deliver a prefix and report the error.",
    "ryu/itoa are third-party: printed numbers are checked to denote exactly the value written. The Compound/State comma machine is tied by the correspondence to the recursive printer the theorems are about.",
    "Coq proof (block-scan instance, table sweeps, formatter state machine) + model-vs-code correspondence")

chk("C15", "Coq theorems about the reference model of vectors and string-keyed maps (Model/DomOps.v): an operation changes no live value other than the one it addresses (isolation), rejected operations leave every value unchanged; promotion of an arena object (first match wins) to an owned map keeps every lookup for duplicate-free objects (and not with duplicates: F6, recorded). Tie: random histories over the public Array/Object/Entry/Index/pointer/take/clone API with donors cloned from other live values; after every step the result and the sorted dump of every live value equal the reference run.",
    "Isolation of two owned Values in the implementation is Rust's ownership rule (safe code) plus Arc::make_mut; it is observed by the per-step dumps, not proved about the unsafe arena code. Documents without duplicate names.",
    "Coq proof (frame theorems over the reference step function, promotion lemma) + refinement checked by model-vs-code correspondence on histories")
chk("C16", "Coq theorems about the manual reference-counting protocol (Model/Arc.v): for every history of parse / clone / promote / drop the strong count of an arena equals the number of live handles into it, nothing is used after free or freed twice, an arena nobody holds is released. Tie: on random histories the real Arc strong count (hook) equals the number of distinct live root-kind values pointing into the arena after every step; random drop orders with reads of the survivors.",
    "Threads: Arc's atomicity is std's; interleavings are not explored here. Release of memory is argued by the count reaching zero (Arc), not measured by an allocator ledger in the quick tier.",
    "Coq proof (history invariant) + invariant evaluated on the implementation's real counters")

chk("C04", "PARTIAL. Coq theorems for the decisions sonic-rs takes before a serde visitor is called: integer literals reach the visitor as exactly their value (no wrap, no truncation), unknown fields are stepped over by the validating skipper (a well-formed value), string tokens end at their quote. The agreement with serde_json itself is decided by the correspondence: 44 target types x type-directed matching / near-matching / mismatching texts x {from_str, from_slice}, Ok value / Err compared with serde_json on the same type.",
    "serde-derive output and serde_json 1.0.151 are third-party: their behaviour is the reference, not modelled. Known finding F21 (byte buffers) is recorded.",
    "Coq proof of the number/skip/string decisions + differential correspondence against the reference implementation named by the property")
chk("C19", "Coq theorems: Object equality is symmetric for duplicate-free objects (refuted with duplicates: F7, recorded); the text route is lossless (parse of print). Tie: for 44 types to_value/from_value/to_string/from_str commute on generated values; for 2500 generated values of the whole serde data model to_value denotes the value (Model/SerVal.v, f32 widened exactly) and equals the DOM of the text except for f32 (F24, recorded) and fails exactly for integers beyond 64 bits and non-finite floats; equality laws on 1500 triples of DOM values built three ways; the equality model of the theorems (obj_eq, extracted) is run against `==` of parsed documents in both directions, repeated names included (the asymmetric outcomes of F7 are predicted case by case).",
    "PARTIAL as C04: the in-memory Serializer/Deserializer for Value are tied by the correspondence, not transcribed.",
    "Coq proof (pigeonhole argument for equality, round trip) + model-vs-code correspondence")

chk("C17", "Coq theorems: a vector compare against a splatted byte + movemask + trailing_zeros locates the first byte with the property for every lane count; the portable shift-xor prefix_xor equals the carry-less-multiply specification; the escaped-character bitmap is the same function at every even word width. All models are written against the scalar lane-wise meaning (Model/Simd.v). Tie: every primitive through both builds (AVX2+PCLMUL native; SSE2 + portable fallbacks) against the model with every byte value as focus lane, and the full quick suites of C02 C03 C05 C09 C10 C12 through both builds compared line by line.",
    "Intel intrinsic semantics are observed on this CPU, not proved; NEON and the pure v128 backend are not buildable here.",
    "Coq proof (bit-list lemmas) + two-build correspondence")

chk("C18", "Coq theorems (Model/Cas.v): with a strong compare-exchange the publish-once cache keeps its invariant in every reachable state for any number of threads and every schedule - no null or dangling dereference, at most one published decoding, every live allocation accounted for; the weak variant the code used before is refuted (F15, repaired). Tie: the two AtomicPtr fields go through a shim; all interleavings of 1-3 threads are enumerated by DFS on the real code, each schedule is replayed in the extracted model (per-thread outcome must agree) and the allocation ledger of the run must return to the baseline (this found F31: the loser freed an Arc<()> - repaired).",
    "Sequentially consistent model; memory orderings not verified; clone/drop covered by the ledger only.",
    "Coq proof (invariant over all schedules, any thread count) + exhaustive schedule exploration replayed in the model")

chk("C01", "PARTIAL. Coq theorems for the arithmetic that decides safety: Error::syntax's snippet slicing and Parser::error's clamp never leave the input; the refusing node buffer of len/2+2 always suffices; in-place unescaping writes strictly behind its reads and keeps unread bytes and padding; arena handles are never used after free or freed twice for any history; the publish-once caches never dereference null or freed memory under any schedule. Tie: every safe entry point on generated / mutated / truncated / boundary-size inputs with a per-input verdict (no panic, tracked allocations released), deep nesting in a child process; the harness is built with overflow checks and debug assertions on (which found F25, F26, F29, F30).",
    "Not shown: undefined behaviour inside unsafe blocks that happens not to crash, allocator internals, SIMD over-reads (argued by the padding and page checks, exercised with a guard page in C05). No sanitizer run is part of the quick tier.",
    "Coq proof of the safety-deciding arithmetic and protocols + exhaustive entry-point correspondence with allocation ledger")

# ---- additions of the later rounds (appended to the claims above) ----
T2 = (" T2: the integer-only functions named here are translated from the source text into Gallina on every run (lib/rs2coq.py -> coq/Gen/Funcs.v, "
      "semantics Base/RustInt.v: None = panic of the build with overflow checks and debug assertions) and the theorems are about the translation; "
      "the extracted translation and the implementation are run on the same arguments on every run (op t2).")
EXTRA = {
 "C01": " As translated from the source (T2): Eisel-Lemire compute_float::<f64> never overflows, shifts out of range, indexes outside its table or fails a debug assertion for any i64 exponent and u64 significand; codepoint_to_utf8 writes only the first four bytes of its buffer; hex_to_u32_nocheck's table indices are in range for all bytes; BitMask::clear_high_bits panics exactly outside its documented domain; parse_floating_normal_fast panics only when the middle word of its 192-bit product is all ones (a lattice search over all significands and table entries finds no such input; evidence, not proof)." + T2,
 "C03": " As translated from the source (T2): Meta::pack_dom_node / unpack_dom_node round-trip every child index below 2^29 and length below 2^32." + T2,
 "C07": " As translated from the source (T2): parse_floating_normal_fast (the 19-digit fast path after yyjson) returns, whenever it returns Some, the correctly rounded finite normal binary64 of man*10^exp10 for every exponent the guard admits and every non-zero 64-bit significand (product arithmetic against the 128-bit table, every table entry within one unit of the exact power, ties impossible on this path), and that result is exactly Spec.Num.round_pos, the oracle of the correspondence run (normal_fast_agrees_with_oracle); compute_float::<f64> always yields e = -1 or a biased exponent in [0,2047] with a fraction below 2^53, and biased_fp_to_float assembles exactly that field and fraction." + T2,
 "C09": " As translated from the source (T2): hex_to_u32_nocheck is the table expression of the hex theorems and codepoint_to_utf8 writes the reference UTF-8 encoding of every code point up to U+10FFFF, nothing for larger values." + T2,
 "C10": " As translated from the source (T2): get_escaped_branchless_u64 computes the escaped-byte bitmap of the specification for every word and carry." + T2,
 "C20": " As translated from the source (T2): Position::from_index (the loop over the prefix) never overflows its counters and returns the line / column model for every offset and every input shorter than 2^63 bytes." + T2,
 "C17": " As translated from the source (T2): the portable get_nonspace_bits is the lane-wise classifier on every block; the portable prefix_xor is the running parity on every 64-bit word; get_escaped_branchless_u32/u64 are the bit-list model on every word and carry; the BitMask helpers (first_offset = lowest set bit, all_zero, clear_high_bits = mod 2^(LEN-n)) never panic inside their domain; is_whitespace is the four JSON blanks." + T2,
}
NOTE_FIX = {
 "C03": "The event stream the two DOM parsers (parse_dom in place, parse_dom2 copying) hand to their visitor is captured by a recording visitor on every well-formed case and compared with the extracted Visitor.events of the reference tree (op domevents): the premise of the visitor theorem is checked on the implementation on every run; the parsers' control flow itself is not transcribed. Numbers through Spec/Num.v.",
 "C02": "The DOM parser's acceptance (parse_value/array/object) is validated by the correspondence, not transcribed; simdutf8 is modelled by Spec.Ref.utf8_valid (proved equal to the byte automaton of the Unicode standard). Both directions of the skipper and of the strict reference parser are theorems (skip_text_iff, strict_text_iff).",
 "C11": "The model works on the parsed tree (objects); arrays and the text-level walk are covered by the correspondence. Soundness and completeness of the search model (as repaired: with the list of walked nodes) and the path-trie construction are theorems for every document, repeated member names included (get_many_correct_on_every_document, Model/ManySeenComplete.v).",
 "C12": "The text-level stepping functions (parse_array_elem_lazy / parse_entry_lazy) are tied by the correspondence against Spec.Ref.ref_array_iter / ref_object_iter, whose soundness and completeness are theorems (IterSound, IterObjSound, IterComplete).",
 "C07": "PARTIAL: the Eisel-Lemire path is translated and proved panic-free and well-formed, its rounding correctness and the big-decimal slow path are validated against the specification, not proved; the digit scanner of parse_number is modelled for plain integers only (the rest is validated). Spec/Num.v's rounding is by exact integer arithmetic (rne_div proved to be THE nearest-even quotient) and is proved to be Flocq's round radix2 (FLT_exp (-1074) 53) ZnearestE for every positive rational, normal and subnormal range (Model/NumFlocq.v); the packing of exponent and quotient into a bit pattern is not related to Flocq's B2R. Flocq theorems depend on the four Reals axioms of the standard library.",
}
for k, v in EXTRA.items():
    C[k]["text"] += v
    C[k]["tech"] += " + source-to-Gallina translation (T2) validated by execution"
for k, v in NOTE_FIX.items():
    C[k]["note"] = NOTE + v

NA = {}
ALL = ["C%02d" % i for i in range(1, 21)]
for p in ALL:
    if p not in C:
        NA[p] = "check under construction in this round (model and theorems exist or are planned in DESIGN.md section 4; not claimed until its correspondence runs clean)"

def main():
    hooks = [l.split()[0] for l in os.popen("git -C /repo log --oneline --grep='^verif hooks'").read().strip().split("\n") if l]
    checks = []
    for pid in sorted(C):
        c = C[pid]
        checks.append({"property_id": pid, "quick_cmd": "./check %s --tier quick" % pid, "thorough_cmd": "./check %s --tier thorough" % pid,
                       "evidence_file": "/verif/evidence/%s.json" % pid, "replay_cmd_template": "./check %s --replay {path}" % pid,
                       "engine": "coq-model", "level_claimed": {"category": "proof", "text": c["text"], "design_ref": c["ref"]},
                       "level_note": c["note"], "technique": c["tech"]})
    m = {"version": 1, "setup_cmd": "./setup.sh",
         "hooks": {"guard": "sonic_rs_verif", "enable": "RUSTFLAGS=\"--cfg sonic_rs_verif -C target-cpu=native\" (set in /verif/harness/.cargo/config.toml)",
                   "baseline_off_cmd": "cd /repo && cargo test --workspace --offline --lib", "source_commits": hooks, "add_only": False},
         "engines": [{"name": "coq-model", "path": "/verif/coq", "serves_properties": sorted(C),
                      "kind_free_text": "Coq 8.16 development (Spec/Model/Props) + extracted OCaml model runner + Rust correspondence harness"}],
         "checks": checks,
         "not_applicable": [{"property_id": p, "reason": r} for p, r in sorted(NA.items())],
         "notes": "See DESIGN.md. Known findings: known_findings.json."}
    json.dump(m, open(os.path.join(ROOT, "MANIFEST.json"), "w"), indent=1)
    print("checks:", sorted(C), "not_applicable:", len(NA))
main()
