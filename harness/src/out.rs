//! Case / result files shared with the model runner, and the run statistics.
use std::{
    collections::{BTreeMap, HashSet},
    fs::File,
    io::{BufWriter, Write},
};

pub struct Out {
    cases: BufWriter<File>,
    imp: BufWriter<File>,
    dir: String,
    pub n: u64,
    pub stats: BTreeMap<String, u64>,
    pub samples: Vec<String>,
    seen: HashSet<u64>,
    pub distinct_nontrivial: u64,
}

pub fn hex(b: &[u8]) -> String {
    const H: &[u8; 16] = b"0123456789abcdef";
    let mut s = String::with_capacity(b.len() * 2);
    for &c in b {
        s.push(H[(c >> 4) as usize] as char);
        s.push(H[(c & 15) as usize] as char);
    }
    s
}

pub fn unhex(s: &str) -> Vec<u8> {
    let v = |c: u8| match c {
        b'0'..=b'9' => c - 48,
        b'a'..=b'f' => c - 87,
        _ => c - 55,
    };
    s.as_bytes().chunks(2).map(|p| v(p[0]) * 16 + v(p[1])).collect()
}

fn fnv(parts: &[&str]) -> u64 {
    let mut h: u64 = 0xcbf29ce484222325;
    for p in parts {
        for b in p.bytes() {
            h ^= b as u64;
            h = h.wrapping_mul(0x100000001b3);
        }
        h ^= 0xff;
        h = h.wrapping_mul(0x100000001b3);
    }
    h
}

impl Out {
    pub fn new(dir: &str) -> Self {
        std::fs::create_dir_all(dir).unwrap();
        Out {
            cases: BufWriter::new(File::create(format!("{dir}/cases.tsv")).unwrap()),
            imp: BufWriter::new(File::create(format!("{dir}/impl.tsv")).unwrap()),
            dir: dir.to_string(),
            n: 0,
            stats: BTreeMap::new(),
            samples: Vec::new(),
            seen: HashSet::new(),
            distinct_nontrivial: 0,
        }
    }

    /// One case: `op` with `args` is what the model runner evaluates; `result` is what the
    /// implementation produced (canonical text). `nontrivial` by the caller's stated rule.
    pub fn case(&mut self, op: &str, args: &[&str], result: &str, nontrivial: bool) {
        self.n += 1;
        let id = self.n;
        // one line per case: a field never carries a raw tab or line break (error messages quote the input)
        fn clean(s: &str) -> std::borrow::Cow<str> {
            if s.bytes().any(|b| b == b'\t' || b == b'\n' || b == b'\r') {
                s.replace('\t', "\\t").replace('\n', "\\n").replace('\r', "\\r").into()
            } else {
                s.into()
            }
        }
        write!(self.cases, "{id}\t{op}").unwrap();
        for a in args {
            write!(self.cases, "\t{}", clean(a)).unwrap();
        }
        writeln!(self.cases).unwrap();
        writeln!(self.imp, "{id}\t{}", clean(result)).unwrap();
        let mut parts = vec![op];
        parts.extend_from_slice(args);
        if self.seen.insert(fnv(&parts)) && nontrivial {
            self.distinct_nontrivial += 1;
        }
        if self.samples.len() < 8 && (self.n % 997 == 1 || self.samples.len() < 2) {
            let mut s = format!("{op}");
            for a in args {
                let a = if a.len() > 160 { &a[..160] } else { a };
                s.push(' ');
                s.push_str(a);
            }
            s.push_str(" => ");
            s.push_str(if result.len() > 160 { &result[..160] } else { result });
            self.samples.push(s);
        }
    }

    pub fn count(&mut self, key: &str) {
        *self.stats.entry(key.to_string()).or_insert(0) += 1;
    }

    pub fn add(&mut self, key: &str, n: u64) {
        *self.stats.entry(key.to_string()).or_insert(0) += n;
    }

    pub fn finish(mut self) {
        self.cases.flush().unwrap();
        self.imp.flush().unwrap();
        let mut f = File::create(format!("{}/stats.json", self.dir)).unwrap();
        let esc = |s: &str| {
            let mut o = String::new();
            for c in s.chars() {
                match c {
                    '"' => o.push_str("\\\""),
                    '\\' => o.push_str("\\\\"),
                    c if (c as u32) < 32 => o.push_str(&format!("\\u{:04x}", c as u32)),
                    c => o.push(c),
                }
            }
            o
        };
        write!(f, "{{\"evaluations\":{},\"distinct_nontrivial\":{},\"stats\":{{", self.n, self.distinct_nontrivial).unwrap();
        let mut first = true;
        for (k, v) in &self.stats {
            if !first {
                write!(f, ",").unwrap();
            }
            first = false;
            write!(f, "\"{}\":{}", esc(k), v).unwrap();
        }
        write!(f, "}},\"samples\":[").unwrap();
        for (i, s) in self.samples.iter().enumerate() {
            if i > 0 {
                write!(f, ",").unwrap();
            }
            write!(f, "\"{}\"", esc(s)).unwrap();
        }
        writeln!(f, "]}}").unwrap();
    }
}
