//! C10 (lazy get = parse + lookup), C14 (checked get never hands out malformed fragments),
//! C11 (get_many / get_by_schema), C12 (lazy iterators).
use std::borrow::Cow;

use sonic_rs::{JsonValueTrait, LazyValue, OwnedLazyValue, PointerTree, Value};

use crate::{
    dump,
    entry::{guarded, to_pointer},
    gen::{self, Cfg, PathElem, G},
    out::{hex, Out},
    rng::Rng,
};

/// offset span of `sub` inside `base`, or None when it does not lie inside
fn span_in(base: &[u8], sub: &[u8]) -> Option<(usize, usize)> {
    let b = base.as_ptr() as usize;
    let s = sub.as_ptr() as usize;
    if s >= b && s + sub.len() <= b + base.len() {
        Some((s - b, s - b + sub.len()))
    } else {
        None
    }
}

fn res_span(base: &[u8], r: Result<Result<LazyValue<'_>, sonic_rs::Error>, String>) -> String {
    match r {
        Err(p) => format!("panic:{}", p.replace(['\t', '\n'], " ")),
        Ok(Err(_)) => "err".into(),
        Ok(Ok(lv)) => match span_in(base, lv.as_raw_str().as_bytes()) {
            Some((a, b)) => format!("ok:{a},{b}"),
            None => format!("ok:outside:{}", hex(lv.as_raw_str().as_bytes())),
        },
    }
}

/// all single-path get variants on a well-formed document; the model op is `get`
pub fn get_variants(out: &mut Out, doc: &[u8], path: &[PathElem], wellformed: bool) {
    let p = to_pointer(path);
    let pa = gen::path_arg(path);
    let h = hex(doc);
    let op = if wellformed { "get" } else { "refget" };
    let conv = |s: String| -> String {
        if wellformed {
            s
        } else {
            // refget prints "a,b" | "none"
            if let Some(r) = s.strip_prefix("ok:") {
                r.to_string()
            } else if s == "err" {
                "none".into()
            } else {
                s
            }
        }
    };
    let nt = !path.is_empty();
    let mut emit = |name: &str, r: String, out: &mut Out| {
        out.count(&format!("{op}:{}", if r.starts_with("ok") { "found" } else { "notfound" }));
        if let Some(text) = r.strip_prefix("ok:outside:") {
            // short results of owning carriers are inline copies: compare the text instead of the offsets
            out.count("span-not-observable(inline copy)");
            let t = format!("ok:{text}");
            out.case(if wellformed { "gettext" } else { "refgettext" }, &[&pa, &h, name], &t, nt);
        } else {
            out.case(op, &[&pa, &h, name], &conv(r), nt);
        }
    };
    emit("get_from_slice", res_span(doc, guarded(|| sonic_rs::get_from_slice(doc, p.iter()))), out);
    emit("get", res_span(doc, guarded(|| sonic_rs::get(doc, p.iter()))), out);
    if let Ok(s) = std::str::from_utf8(doc) {
        emit("get_from_str", res_span(doc, guarded(|| sonic_rs::get_from_str(s, p.iter()))), out);
        let owned = s.to_string();
        emit("get(&String)", res_span(owned.as_bytes(), guarded(|| sonic_rs::get(&owned, p.iter()))), out);
        let fs = faststr::FastStr::new(s);
        emit("get_from_faststr", res_span(fs.as_bytes(), guarded(|| sonic_rs::get_from_faststr(&fs, p.iter()))), out);
    }
    let b = bytes::Bytes::copy_from_slice(doc);
    emit("get_from_bytes", res_span(&b, guarded(|| sonic_rs::get_from_bytes(&b, p.iter()))), out);
    if wellformed {
        // unchecked variants agree on well-formed input
        emit("get_unchecked", res_span(doc, guarded(|| unsafe { sonic_rs::get_unchecked(doc, p.iter()) })), out);
        emit("get_from_slice_unchecked", res_span(doc, guarded(|| unsafe { sonic_rs::get_from_slice_unchecked(doc, p.iter()) })), out);
        emit("get_from_bytes_unchecked", res_span(&b, guarded(|| unsafe { sonic_rs::get_from_bytes_unchecked(&b, p.iter()) })), out);
        if let Ok(s) = std::str::from_utf8(doc) {
            emit("get_from_str_unchecked", res_span(doc, guarded(|| unsafe { sonic_rs::get_from_str_unchecked(s, p.iter()) })), out);
            let fs = faststr::FastStr::new(s);
            emit("get_from_faststr_unchecked", res_span(fs.as_bytes(), guarded(|| unsafe { sonic_rs::get_from_faststr_unchecked(&fs, p.iter()) })), out);
        }
        // "parses to the same value": the returned lazy value converted by its OWN accessors (escape
        // status included), not by re-parsing its raw text
        for (name, unchecked) in [("Value::try_from(get)", false), ("Value::try_from(get_unchecked)", true)] {
            let r = guarded(|| {
                let got = if unchecked { unsafe { sonic_rs::get_unchecked(doc, p.iter()) } } else { sonic_rs::get(doc, p.iter()) };
                Ok::<_, String>(match got {
                    // a string is read through as_str(), which trusts the escape status the skipper recorded
                    Ok(lv) if lv.is_str() => match lv.as_str() {
                        Some(s) => format!("ok:{}", dump::dump(&Value::from(s))),
                        None => "as_str-none".to_string(),
                    },
                    Ok(lv) => match Value::try_from(lv) {
                        Ok(v) => format!("ok:{}", dump::dump(&v)),
                        Err(_) => "convert-error".to_string(),
                    },
                    Err(_) => "none".into(),
                })
            });
            out.case("getdump", &[&pa, &h, name], &r.map(|x| x.unwrap_or_else(|e| e)).unwrap_or_else(|p| format!("panic:{p}")), nt);
        }
        // pointer on lazy / owned-lazy / DOM values
        let r = guarded(|| {
            let root: LazyValue = sonic_rs::from_slice(doc).map_err(|_| "rootparse".to_string())?;
            Ok::<_, String>(match root.pointer(p.iter()) {
                Some(lv) => match span_in(doc, lv.as_raw_str().as_bytes()) {
                    Some((a, b)) => format!("ok:{a},{b}"),
                    None => format!("ok:outside:{}", hex(lv.as_raw_str().as_bytes())),
                },
                None => "err".into(),
            })
        });
        emit("LazyValue::pointer", r.map(|x| x.unwrap_or_else(|e| e)).unwrap_or_else(|p| format!("panic:{p}")), out);
        let r = guarded(|| {
            let root: OwnedLazyValue = sonic_rs::from_slice(doc).map_err(|_| "rootparse".to_string())?;
            Ok::<_, String>(match root.pointer(p.iter()) {
                Some(lv) => format!("ok:{}", hex(sonic_rs::to_string(lv).unwrap_or_default().as_bytes())),
                None => "none".into(),
            })
        });
        out.case("gettext", &[&pa, &h, "OwnedLazyValue::pointer"], &r.map(|x| x.unwrap_or_else(|e| e)).unwrap_or_else(|p| format!("panic:{p}")), nt);
        let r = guarded(|| {
            let root: Value = sonic_rs::from_slice(doc).map_err(|_| "rootparse".to_string())?;
            Ok::<_, String>(match root.pointer(p.iter()) {
                Some(v) => format!("ok:{}", dump::dump(v)),
                None => "none".into(),
            })
        });
        out.case("getdump", &[&pa, &h, "Value::pointer"], &r.map(|x| x.unwrap_or_else(|e| e)).unwrap_or_else(|p| format!("panic:{p}")), nt);
        // Value::get / index chain
        let r = guarded(|| {
            let root: Value = sonic_rs::from_slice(doc).map_err(|_| "rootparse".to_string())?;
            let mut cur: Option<&Value> = Some(&root);
            for e in path {
                cur = match (cur, e) {
                    (Some(v), PathElem::Key(k)) => v.get(k.as_str()),
                    (Some(v), PathElem::Idx(i)) => v.get(*i),
                    (None, _) => None,
                };
            }
            Ok::<_, String>(match cur {
                Some(v) => format!("ok:{}", dump::dump(v)),
                None => "none".into(),
            })
        });
        out.case("getdump", &[&pa, &h, "Value::get chain"], &r.map(|x| x.unwrap_or_else(|e| e)).unwrap_or_else(|p| format!("panic:{p}")), nt);
    }
}

fn docs_cfg() -> Cfg {
    Cfg { max_depth: 4, max_width: 5, dup_free: true, ..Cfg::default() }
}

pub fn run_c10(out: &mut Out, tier: &str, seed: u64) {
    let mut rng = Rng::new(seed);
    let ndocs = if tier == "thorough" { 6000 } else { 700 };
    let cfg = docs_cfg();
    for _ in 0..ndocs {
        let g = gen::gen_doc(&mut rng, &cfg);
        let doc = gen::render_doc(&g, &mut rng, &cfg);
        let mut paths = Vec::new();
        gen::all_paths(&g, &mut Vec::new(), &mut paths);
        // a bounded sample of the valid paths, plus perturbed ones
        let take = paths.len().min(6);
        for _ in 0..take {
            let p = paths[rng.below(paths.len())].clone();
            get_variants(out, &doc, &p, true);
            if rng.chance(1, 2) {
                let q = gen::perturb_path(&p, &mut rng);
                get_variants(out, &doc, &q, true);
            }
        }
    }
    // documents that repeat member names: every lookup variant answers with the first occurrence
    let cfgd = Cfg { dup_free: false, ..docs_cfg() };
    for i in 0..ndocs / 3 {
        let g = gen::gen_doc(&mut rng, &cfgd);
        let g = if i % 2 == 0 { repeat_members(&g, &mut rng) } else { g };
        let doc = gen::render_doc(&g, &mut rng, &cfgd);
        let mut paths = Vec::new();
        gen::all_paths(&g, &mut Vec::new(), &mut paths);
        out.count("get:repeated-names");
        for _ in 0..paths.len().min(6) {
            let p = paths[rng.below(paths.len())].clone();
            get_variants(out, &doc, &p, true);
        }
    }
    // strings full of structural bytes / quotes / backslashes straddling the 64-byte blocks of the
    // bitmap skipper (skip_container) - reached through the unchecked variants
    block_edge_docs(out, &mut rng, if tier == "thorough" { 3000 } else { 400 });
}

/// documents of the shape [ <filler>, {"k": "<string with escapes and brackets>" , ...}, target ]
fn block_edge_docs(out: &mut Out, rng: &mut Rng, n: usize) {
    for _ in 0..n {
        let pad = rng.below(70);
        let mut s = String::new();
        for _ in 0..pad {
            s.push(' ');
        }
        s.push('[');
        let inner_len = rng.range(40, 150);
        let mut body = String::from("{\"k\":\"");
        while body.len() < inner_len {
            match rng.below(9) {
                0 => body.push_str("\\\""),
                1 => body.push_str("\\\\"),
                2 => body.push_str("}"),
                3 => body.push_str("]"),
                4 => body.push_str("{["),
                5 => body.push_str("\\\\\\\""),
                6 => body.push_str(","),
                7 => body.push_str("\\\\\\\\"),
                _ => body.push('x'),
            }
        }
        body.push_str("\",\"a\":[1,{\"b\":[]}],\"c\":{}}");
        s.push_str(&body);
        s.push_str(",[[],{}],");
        let target = rng.below(100000).to_string();
        s.push_str(&target);
        s.push(']');
        let doc = s.as_bytes();
        out.count("blockedge");
        for p in [vec![PathElem::Idx(2)], vec![PathElem::Idx(0), PathElem::Key("c".into())], vec![PathElem::Idx(0), PathElem::Key("a".into()), PathElem::Idx(1), PathElem::Key("b".into())], vec![PathElem::Idx(1), PathElem::Idx(1)], vec![PathElem::Idx(3)]] {
            get_variants(out, doc, &p, true);
        }
    }
}

pub fn run_c14(out: &mut Out, tier: &str, seed: u64) {
    let mut rng = Rng::new(seed);
    let ndocs = if tier == "thorough" { 10000 } else { 1200 };
    let (cfg0, cfgd) = (docs_cfg(), Cfg { dup_free: false, ..docs_cfg() });
    for i in 0..ndocs {
        // one document in three may repeat member names
        let cfg = if i % 3 == 2 { &cfgd } else { &cfg0 };
        let g = gen::gen_doc(&mut rng, cfg);
        let doc = gen::render_doc(&g, &mut rng, cfg);
        let (bad, label) = gen::mutate(&doc, &mut rng);
        out.count(&format!("mut:{label}"));
        let mut paths = Vec::new();
        gen::all_paths(&g, &mut Vec::new(), &mut paths);
        for _ in 0..paths.len().min(5) {
            let p = paths[rng.below(paths.len())].clone();
            get_variants(out, &bad, &p, false);
        }
        // every prefix of small documents
        if doc.len() < 60 && rng.chance(1, 4) {
            let p = paths[rng.below(paths.len())].clone();
            for k in 0..doc.len() {
                get_variants(out, &doc[..k], &p, false);
            }
        }
        many_cases(out, &mut rng, &g, &bad, false);
        iter_cases(out, &bad, false);
    }
    // the enumerated number grammar (integer parts of every length that matters to the 32-byte chunks of the number
    // skipper x fraction / exponent shapes, well-formed and damaged) as the selected value and as a member in front of it
    {
        let toks = gen::number_grammar();
        let k = vec![PathElem::Key("k".into())];
        let step = if tier == "thorough" { 1 } else { 3 };
        for (i, t) in toks.iter().enumerate() {
            if i % step != 0 && !(t.len() >= 30 && t.matches('.').count() >= 2) {
                continue;
            }
            out.count("number-grammar");
            get_variants(out, format!("{{\"k\":{t}}}").as_bytes(), &k, false);
            get_variants(out, format!("{{\"p\":{t},\"k\":true}}").as_bytes(), &k, false);
            get_variants(out, format!("[{t} ,[7]]").as_bytes(), &[PathElem::Idx(1)], false);
            if i % (4 * step) == 0 {
                iter_cases(out, format!("[1,{t},2]").as_bytes(), false);
                iter_cases(out, format!("{{\"a\":{t},\"b\":2}}").as_bytes(), false);
            }
        }
    }
    // well-formed documents that repeat member names x path sets: whatever get_many hands out is one well-formed
    // value inside the input (F37: a repeated name ended the walk early and cut the text of an enclosing path)
    for i in 0..ndocs / 3 {
        let g = gen::gen_doc(&mut rng, &cfgd);
        let g = if i % 2 == 0 { repeat_members(&g, &mut rng) } else { g };
        let doc = gen::render_doc(&g, &mut rng, &cfgd);
        out.count("many:repeated-names");
        many_cases(out, &mut rng, &g, &doc, false);
        many_cases(out, &mut rng, &g, &doc, false);
    }
}

// ---------------------------------------------------------------- C11

fn pathset(rng: &mut Rng, g: &G) -> Vec<Vec<PathElem>> {
    let mut paths = Vec::new();
    gen::all_paths(g, &mut Vec::new(), &mut paths);
    let n = rng.range(1, 6);
    let mut set: Vec<Vec<PathElem>> = Vec::new();
    for _ in 0..n {
        let mut p = paths[rng.below(paths.len())].clone();
        match rng.below(8) {
            0 => p = gen::perturb_path(&p, rng),
            1 => {
                if !set.is_empty() {
                    p = set[rng.below(set.len())].clone() // repeated path
                }
            }
            _ => {}
        }
        set.push(p);
    }
    set
}

pub fn has_repeated_names(g: &G) -> bool {
    match g {
        G::Obj(ms) => ms.iter().enumerate().any(|(i, m)| ms[..i].iter().any(|n| n.0 == m.0)) || ms.iter().any(|m| has_repeated_names(&m.2)),
        G::Arr(xs) => xs.iter().any(has_repeated_names),
        _ => false,
    }
}

/// shape consistency: no node of the path trie is used both with keys and with indices
fn shape_consistent(set: &[Vec<PathElem>]) -> bool {
    for a in set {
        for b in set {
            let n = a.len().min(b.len());
            for i in 0..n {
                match (&a[i], &b[i]) {
                    (PathElem::Key(_), PathElem::Idx(_)) | (PathElem::Idx(_), PathElem::Key(_)) => return false,
                    (x, y) if x != y => break,
                    _ => {}
                }
            }
        }
    }
    true
}

pub fn many_cases(out: &mut Out, rng: &mut Rng, g: &G, doc: &[u8], wellformed: bool) {
    let set = pathset(rng, g);
    if !shape_consistent(&set) {
        out.count("many:inconsistent-skipped");
        return;
    }
    let mut tree = PointerTree::new();
    for p in &set {
        tree.add_path(to_pointer(p).iter());
    }
    let pa: Vec<String> = set.iter().map(|p| gen::path_arg(p)).collect();
    let pa = pa.join(";");
    let h = hex(doc);
    let fmt = |base: &[u8], r: Result<Result<Vec<Option<LazyValue<'_>>>, sonic_rs::Error>, String>| -> String {
        match r {
            Err(p) => format!("panic:{}", p.replace(['\t', '\n'], " ")),
            Ok(Err(_)) => "err".into(),
            Ok(Ok(v)) => {
                let parts: Vec<String> = v
                    .iter()
                    .map(|o| match o {
                        None => "none".to_string(),
                        Some(lv) => match span_in(base, lv.as_raw_str().as_bytes()) {
                            Some((a, b)) => format!("{a},{b}"),
                            None => "outside".into(),
                        },
                    })
                    .collect();
                format!("ok:{}", parts.join(";"))
            }
        }
    };
    // verdict ops: the implementation's result is an argument, the model answers "ok" or why not.
    // C11 speaks about documents without repeated member names and C10's "first member wins" about get: on a
    // document that repeats names get_many is held to what C14 and C01 state - no panic, every filled slot the
    // span of one well-formed value inside the input (op manyfrag) - and, as a tie of the model to the code, to
    // the search model (op manyrec below)
    let dups = has_repeated_names(g);
    let op = if dups { "manyfrag" } else if wellformed { "manyok" } else { "manysound" };
    out.count(op);
    let r = fmt(doc, guarded(|| sonic_rs::get_many(doc, &tree)));
    out.count(&format!("{op}:{}", if r.starts_with("ok") { "Ok" } else { "Err" }));
    // (C11's own run leaves the API-level verdict on repeated names to C14 and keeps the model tie)
    let api = !(dups && wellformed);
    if api {
        out.case(op, &[&pa, &h, &r, "get_many"], "ok", set.len() > 1);
    }
    // the search model itself (Model/ManySeen.rec2 with its counter, early exits and list of walked nodes, over the
    // tree Model/ManyBuild.build makes of the paths) must return the very slot vector, or fail where the code fails
    let keys_only = set.iter().all(|p| p.iter().all(|e| matches!(e, PathElem::Key(_))));
    if wellformed && keys_only {
        out.count("manyrec");
        out.case("manyrec", &[&pa, &h, &r, "get_many"], "same", set.len() > 1);
    }
    if wellformed {
        let r = fmt(doc, guarded(|| unsafe { sonic_rs::get_many_unchecked(doc, &tree) }));
        if api {
            out.case(op, &[&pa, &h, &r, "get_many_unchecked"], "ok", set.len() > 1);
        }
        if keys_only {
            out.case("manyrec", &[&pa, &h, &r, "get_many_unchecked"], "same", set.len() > 1);
        }
    }
}

fn schema_of(rng: &mut Rng, g: &G, depth: usize) -> Value {
    // a schema is an object whose keys are a sample of the document's keys (plus absent ones) with
    // default values; non-empty object defaults recurse
    let mut obj = sonic_rs::Object::new();
    if let G::Obj(ms) = g {
        for (k, _, v) in ms {
            if rng.chance(2, 3) {
                let def: Value = match (v, rng.below(4)) {
                    (G::Obj(_), 0 | 1) if depth < 3 => schema_of(rng, v, depth + 1),
                    (_, 2) => Value::from("default"),
                    (_, 3) => sonic_rs::json!([]),
                    _ => sonic_rs::json!({}),
                };
                obj.insert(&k.as_str(), def);
            }
        }
    }
    if rng.chance(1, 2) {
        obj.insert(&"absent_key", Value::from(7));
    }
    Value::from(obj)
}

pub fn schema_cases(out: &mut Out, rng: &mut Rng, g: &G, doc: &[u8]) {
    if !matches!(g, G::Obj(_)) {
        return;
    }
    let schema = schema_of(rng, g, 0);
    let sch_text = sonic_rs::to_string(&schema).unwrap();
    let r = guarded(|| sonic_rs::get_by_schema(doc, schema.clone()));
    let res = match r {
        Err(p) => format!("panic:{}", p.replace(['\t', '\n'], " ")),
        Ok(Err(_)) => "err".into(),
        Ok(Ok(v)) => format!("ok:{}", sorted_dump(&v)),
    };
    out.count("schema");
    out.case("schema", &[&hex(sch_text.as_bytes()), &hex(doc)], &res, true);
}

/// dump with object members sorted by key (owned objects iterate in hash order)
pub fn sorted_dump(v: &Value) -> String {
    use sonic_rs::{JsonContainerTrait, ValueRef};
    match v.as_ref() {
        ValueRef::Array(a) => format!("[{}]", a.iter().map(sorted_dump).collect::<Vec<_>>().join(",")),
        ValueRef::Object(o) => {
            let mut ms: Vec<(String, String)> = o.iter().map(|(k, x)| (hex(k.as_bytes()), sorted_dump(x))).collect();
            ms.sort();
            format!("{{{}}}", ms.iter().map(|(k, x)| format!("{k}:{x}")).collect::<Vec<_>>().join(","))
        }
        _ => dump::dump(v),
    }
}

pub fn run_c11(out: &mut Out, tier: &str, seed: u64) {
    let mut rng = Rng::new(seed);
    let ndocs = if tier == "thorough" { 15000 } else { 2000 };
    let cfg = docs_cfg();
    for _ in 0..ndocs {
        let g = gen::gen_doc(&mut rng, &cfg);
        let doc = gen::render_doc(&g, &mut rng, &cfg);
        many_cases(out, &mut rng, &g, &doc, true);
        many_cases(out, &mut rng, &g, &doc, true);
        schema_cases(out, &mut rng, &g, &doc);
    }
    // documents that repeat member names: every path of the set is answered as single-path get answers it (the
    // first occurrence), a repeated name neither ends the walk early nor shortens what an enclosing path returns
    let cfgd = Cfg { dup_free: false, ..docs_cfg() };
    for i in 0..ndocs / 2 {
        let g = gen::gen_doc(&mut rng, &cfgd);
        let g = if i % 2 == 0 { repeat_members(&g, &mut rng) } else { g };
        let doc = gen::render_doc(&g, &mut rng, &cfgd);
        out.count("many:repeated-names");
        many_cases(out, &mut rng, &g, &doc, true);
        many_cases(out, &mut rng, &g, &doc, true);
    }
}

/// the same tree with some members of its objects written a second time (same name, another value)
pub fn repeat_members(g: &G, rng: &mut Rng) -> G {
    match g {
        G::Obj(ms) => {
            let mut out: Vec<_> = Vec::new();
            for (k, raw, v) in ms {
                out.push((k.clone(), raw.clone(), repeat_members(v, rng)));
            }
            let n = out.len();
            if n > 0 {
                for _ in 0..rng.range(1, 2) {
                    let (k, raw, _) = out[rng.below(n)].clone();
                    let other = out[rng.below(n)].2.clone();
                    let at = rng.below(out.len() + 1);
                    out.insert(at, (k, raw, other));
                }
            }
            G::Obj(out)
        }
        G::Arr(xs) => G::Arr(xs.iter().map(|x| repeat_members(x, rng)).collect()),
        other => other.clone(),
    }
}

// ---------------------------------------------------------------- C12

fn spantext(base: &[u8], sub: &[u8], text: bool) -> String {
    if text {
        return format!("={}", hex(sub));
    }
    match span_in(base, sub) {
        Some((a, b)) => format!("{a},{b}"),
        None => "outside".into(),
    }
}

fn iter_transcript_arr<'a>(base: &[u8], text: bool, mut it: impl Iterator<Item = sonic_rs::Result<LazyValue<'a>>>) -> String {
    let mut parts = Vec::new();
    let mut extra = 0;
    loop {
        let r = it.next();
        let s = match &r {
            None => "end".to_string(),
            Some(Err(_)) => "err".to_string(),
            Some(Ok(lv)) => spantext(base, lv.as_raw_str().as_bytes(), text),
        };
        let terminal = s == "end" || s == "err";
        parts.push(s);
        if terminal || extra > 0 {
            extra += 1;
        }
        if extra > 3 || parts.len() > 3000 {
            break;
        }
    }
    parts.join(";")
}

fn iter_transcript_obj<'a>(base: &[u8], text: bool, mut it: impl Iterator<Item = sonic_rs::Result<(Cow<'a, str>, LazyValue<'a>)>>) -> String {
    let mut parts = Vec::new();
    let mut extra = 0;
    loop {
        let r = it.next();
        let s = match &r {
            None => "end".to_string(),
            Some(Err(_)) => "err".to_string(),
            Some(Ok((k, lv))) => format!("{}:{}", hex(k.as_bytes()), spantext(base, lv.as_raw_str().as_bytes(), text)),
        };
        let terminal = s == "end" || s == "err";
        parts.push(s);
        if terminal || extra > 0 {
            extra += 1;
        }
        if extra > 3 || parts.len() > 3000 {
            break;
        }
    }
    parts.join(";")
}

pub fn iter_cases(out: &mut Out, doc: &[u8], wellformed: bool) {
    let h = hex(doc);
    let g = |r: Result<String, String>| r.unwrap_or_else(|p| format!("panic:{}", p.replace(['\t', '\n'], " ")));
    out.count("iter");
    out.case("iterarr", &[&h, "to_array_iter"], &g(guarded(|| iter_transcript_arr(doc, false, sonic_rs::to_array_iter(doc)))), doc.len() > 4);
    out.case("iterobj", &[&h, "to_object_iter"], &g(guarded(|| iter_transcript_obj(doc, false, sonic_rs::to_object_iter(doc)))), doc.len() > 4);
    if let Ok(s) = std::str::from_utf8(doc) {
        let fs = faststr::FastStr::new(s);
        out.case("iterarr_text", &[&h, "to_array_iter(&FastStr)"], &g(guarded(|| iter_transcript_arr(fs.as_bytes(), true, sonic_rs::to_array_iter(&fs)))), doc.len() > 4);
        out.case("iterobj_text", &[&h, "to_object_iter(&FastStr)"], &g(guarded(|| iter_transcript_obj(fs.as_bytes(), true, sonic_rs::to_object_iter(&fs)))), doc.len() > 4);
    }
    let b = bytes::Bytes::copy_from_slice(doc);
    out.case("iterarr_text", &[&h, "to_array_iter(&Bytes)"], &g(guarded(|| iter_transcript_arr(&b, true, sonic_rs::to_array_iter(&b)))), doc.len() > 4);
    if wellformed {
        // unchecked iterators and LazyValue::into_*_iter agree with the checked ones on well-formed input
        out.case("iterarr", &[&h, "to_array_iter_unchecked"], &g(guarded(|| iter_transcript_arr(doc, false, unsafe { sonic_rs::to_array_iter_unchecked(doc) }))), doc.len() > 4);
        out.case("iterobj", &[&h, "to_object_iter_unchecked"], &g(guarded(|| iter_transcript_obj(doc, false, unsafe { sonic_rs::to_object_iter_unchecked(doc) }))), doc.len() > 4);
        let r = guarded(|| {
            let lv: LazyValue = sonic_rs::from_slice(doc).map_err(|_| ())?;
            Ok::<_, ()>(match lv.into_array_iter() {
                Some(it) => iter_transcript_arr(doc, true, it),
                None => "notarray".into(),
            })
        });
        if let Ok(Ok(t)) = r {
            if t != "notarray" {
                out.case("iterarr_text", &[&h, "LazyValue::into_array_iter"], &t, doc.len() > 4);
            }
        }
        let r = guarded(|| {
            let lv: LazyValue = sonic_rs::from_slice(doc).map_err(|_| ())?;
            Ok::<_, ()>(match lv.into_object_iter() {
                Some(it) => iter_transcript_obj(doc, true, it),
                None => "notobject".into(),
            })
        });
        if let Ok(Ok(t)) = r {
            if t != "notobject" {
                out.case("iterobj_text", &[&h, "LazyValue::into_object_iter"], &t, doc.len() > 4);
            }
        }
    }
}

pub fn run_c12(out: &mut Out, tier: &str, seed: u64) {
    let mut rng = Rng::new(seed);
    // exhaustive token sequences after the opening bracket: the first/separator state machine
    {
        const T: &[&[u8]] = &[b"[", b"]", b"{", b"}", b",", b":", b"1", b"\"a\"", b" "];
        let maxlen = if tier == "thorough" { 6 } else { 4 };
        for open in [&b"["[..], b"{"] {
            for len in 0..=maxlen {
                let total = T.len().pow(len as u32);
                for mut k in 0..total {
                    let mut d: Vec<u8> = open.to_vec();
                    for _ in 0..len {
                        d.extend_from_slice(T[k % T.len()]);
                        k /= T.len();
                    }
                    out.count("tokens");
                    let h = hex(&d);
                    let g = |r: Result<String, String>| r.unwrap_or_else(|p| format!("panic:{}", p.replace(['\t', '\n'], " ")));
                    if open == b"[" {
                        out.case("iterarr", &[&h, "to_array_iter"], &g(guarded(|| iter_transcript_arr(&d, false, sonic_rs::to_array_iter(&d[..])))), true);
                    } else {
                        out.case("iterobj", &[&h, "to_object_iter"], &g(guarded(|| iter_transcript_obj(&d, false, sonic_rs::to_object_iter(&d[..])))), true);
                    }
                }
            }
        }
    }
    // an escape at every offset of an item against the 32- and 64-byte blocks of the string skippers (a backslash as
    // the last byte of a block carries into the next one), with enough input behind it for the vector loops: as
    // array element, member value and member name, behind 0..3 blanks
    {
        let ks: Vec<usize> = if tier == "thorough" { (0..=200).collect() } else { (0..=70).chain(92..=98).chain(124..=130).collect() };
        for &k in &ks {
            for esc in ["\\\"", "\\\\", "\\\\\\\"", "\\n", "\\u00e9"] {
                let item = format!("\"{}{esc}{}\"", "a".repeat(k), "b,]}\\\\ c".repeat(5));
                for pad in 0..(if tier == "thorough" { 4 } else { 2 }) {
                    let sp = " ".repeat(pad);
                    out.count("escape-at-every-offset");
                    iter_cases(out, format!("[{sp}{item},{item} , 1]").as_bytes(), true);
                    iter_cases(out, format!("{{{sp}\"x\":{item},{item}:{item}}}").as_bytes(), true);
                }
            }
        }
    }
    let ndocs = if tier == "thorough" { 15000 } else { 2000 };
    let cfg = Cfg { max_depth: 3, max_width: 6, dup_free: false, ..Cfg::default() };
    for i in 0..ndocs {
        let g = gen::gen_doc(&mut rng, &cfg);
        let mut doc = gen::render_doc(&g, &mut rng, &cfg);
        if rng.chance(1, 5) {
            // trailing bytes after the container are not looked at
            doc.extend_from_slice(*rng.pick(&[&b" x"[..], b"]", b",1", b"\"", b" {"]));
            iter_cases(out, &doc, false);
        } else if i % 3 == 0 {
            let (bad, label) = gen::mutate(&doc, &mut rng);
            out.count(&format!("mut:{label}"));
            iter_cases(out, &bad, false);
        } else {
            iter_cases(out, &doc, true);
        }
    }
}
