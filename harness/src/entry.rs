//! The safe public entry points of sonic-rs, each reduced to a canonical text result.
use std::{collections::HashMap, panic::AssertUnwindSafe};

use serde::de::IgnoredAny;
use sonic_rs::{JsonValueTrait, LazyValue, OwnedLazyValue, PointerNode, Value};

use crate::gen::PathElem;

pub fn silence_panics() {
    std::panic::set_hook(Box::new(|_| {}));
}

pub fn guarded<T>(f: impl FnOnce() -> T) -> Result<T, String> {
    std::panic::catch_unwind(AssertUnwindSafe(f)).map_err(|e| {
        if let Some(s) = e.downcast_ref::<&str>() {
            s.to_string()
        } else if let Some(s) = e.downcast_ref::<String>() {
            s.clone()
        } else {
            "panic".to_string()
        }
    })
}

#[derive(Debug, Clone)]
pub struct ErrInfo {
    pub offset: usize,
    pub line: usize,
    pub column: usize,
    pub category: &'static str,
    pub not_found: bool,
    pub display_len: usize,
    pub msg: String,
}

pub fn err_info(e: &sonic_rs::Error) -> ErrInfo {
    let cat = match e.classify() {
        sonic_rs::error::Category::Io => "io",
        sonic_rs::error::Category::Syntax => "syntax",
        sonic_rs::error::Category::TypeUnmatched => "type",
        sonic_rs::error::Category::NotFound => "notfound",
        sonic_rs::error::Category::Eof => "eof",
        _ => "other",
    };
    let msg = format!("{e}");
    let dbg = format!("{e:?}");
    ErrInfo {
        offset: e.offset(),
        line: e.line(),
        column: e.column(),
        category: cat,
        not_found: e.is_not_found(),
        display_len: msg.len() + dbg.len(),
        msg: msg.lines().next().unwrap_or("").to_string(),
    }
}

pub fn to_pointer(p: &[PathElem]) -> Vec<PointerNode> {
    use faststr::FastStr;
    p.iter()
        .map(|e| match e {
            PathElem::Key(k) => PointerNode::Key(FastStr::new(k.as_str())),
            PathElem::Idx(i) => PointerNode::Index(*i),
        })
        .collect()
}

#[derive(serde::Deserialize, Debug)]
#[allow(dead_code)]
pub struct Embedded {
    #[serde(default)]
    pub a: Value,
    #[serde(default)]
    pub b: Option<String>,
    #[serde(default)]
    pub c: Option<f64>,
}

#[derive(serde::Deserialize, Debug)]
#[allow(dead_code)]
pub enum TEnum {
    A(u8),
    B,
    C { x: bool },
    D(i8, i8),
}
#[derive(serde::Deserialize, Debug)]
#[allow(dead_code)]
pub struct TNew(pub Vec<i64>);
#[derive(serde::Deserialize, Debug)]
#[allow(dead_code)]
#[serde(deny_unknown_fields)]
pub struct TStrict {
    pub a: u8,
    pub e: Option<TEnum>,
}

/// every parse-type entry point (no path) applied to `input`; `Ok(())` or the error
pub fn parse_entries(input: &[u8]) -> Vec<(&'static str, Result<Result<(), ErrInfo>, String>)> {
    let mut out: Vec<(&'static str, Result<Result<(), ErrInfo>, String>)> = Vec::new();
    macro_rules! ent {
        ($name:expr, $e:expr) => {
            out.push(($name, guarded(|| $e.map(|_| ()).map_err(|e| err_info(&e)))));
        };
    }
    ent!("slice:Value", sonic_rs::from_slice::<Value>(input));
    ent!("slice:serde_json", sonic_rs::from_slice::<serde_json::Value>(input));
    ent!("slice:Lazy", sonic_rs::from_slice::<LazyValue>(input));
    ent!("slice:OwnedLazy", sonic_rs::from_slice::<OwnedLazyValue>(input));
    ent!("slice:Ignored", sonic_rs::from_slice::<IgnoredAny>(input));
    ent!("slice:String", sonic_rs::from_slice::<String>(input));
    ent!("slice:f64", sonic_rs::from_slice::<f64>(input));
    ent!("slice:u64", sonic_rs::from_slice::<u64>(input));
    ent!("slice:VecValue", sonic_rs::from_slice::<Vec<Value>>(input));
    ent!("slice:MapValue", sonic_rs::from_slice::<HashMap<String, Value>>(input));
    ent!("slice:Embedded", sonic_rs::from_slice::<Embedded>(input));
    ent!("slice:VecString", sonic_rs::from_slice::<Vec<String>>(input));
    ent!("slice:Bool", sonic_rs::from_slice::<bool>(input));
    // typed targets whose errors are raised by serde visitors (invalid type / unknown variant / missing field ...)
    ent!("slice:Enum", sonic_rs::from_slice::<TEnum>(input));
    ent!("slice:VecEnum", sonic_rs::from_slice::<Vec<TEnum>>(input));
    ent!("slice:MapI32", sonic_rs::from_slice::<HashMap<String, i32>>(input));
    ent!("slice:BTreeU8", sonic_rs::from_slice::<std::collections::BTreeMap<u8, bool>>(input));
    ent!("slice:Tuple", sonic_rs::from_slice::<(u8, String)>(input));
    ent!("slice:OptVecU8", sonic_rs::from_slice::<Option<Vec<u8>>>(input));
    ent!("slice:Newtype", sonic_rs::from_slice::<TNew>(input));
    ent!("slice:Strict", sonic_rs::from_slice::<TStrict>(input));
    ent!("slice:unit", sonic_rs::from_slice::<()>(input));
    ent!("slice:char", sonic_rs::from_slice::<char>(input));
    if let Ok(s) = std::str::from_utf8(input) {
        ent!("str:Value", sonic_rs::from_str::<Value>(s));
        ent!("str:Lazy", sonic_rs::from_str::<LazyValue>(s));
        ent!("str:OwnedLazy", sonic_rs::from_str::<OwnedLazyValue>(s));
        ent!("str:serde_json", sonic_rs::from_str::<serde_json::Value>(s));
    }
    ent!("reader:Value", sonic_rs::from_reader::<_, Value>(std::io::Cursor::new(input)));
    {
        let b = bytes::Bytes::copy_from_slice(input);
        ent!("bytes:Value", {
            let mut de = sonic_rs::Deserializer::from_json(&b);
            de.deserialize::<Value>()
        });
    }
    ent!("de:Value", {
        let mut de = sonic_rs::Deserializer::from_slice(input);
        de.deserialize::<Value>()
    });
    out
}

/// lookup entry points with a path
pub fn get_entries(input: &[u8], path: &[PathElem]) -> Vec<(&'static str, Result<Result<(), ErrInfo>, String>)> {
    let mut out: Vec<(&'static str, Result<Result<(), ErrInfo>, String>)> = Vec::new();
    let ptr = to_pointer(path);
    out.push(("get:slice", guarded(|| sonic_rs::get_from_slice(input, ptr.iter()).map(|_| ()).map_err(|e| err_info(&e)))));
    out.push(("get:generic", guarded(|| sonic_rs::get(input, ptr.iter()).map(|_| ()).map_err(|e| err_info(&e)))));
    if let Ok(s) = std::str::from_utf8(input) {
        out.push(("get:str", guarded(|| sonic_rs::get_from_str(s, ptr.iter()).map(|_| ()).map_err(|e| err_info(&e)))));
    }
    let mut tree = sonic_rs::PointerTree::new();
    tree.add_path(ptr.iter());
    out.push(("get_many", guarded(|| sonic_rs::get_many(input, &tree).map(|_| ()).map_err(|e| err_info(&e)))));
    // get_by_schema: the schema follows the keys of the path (null leaf: replaced by the document's value, which is
    // parsed on its own), and the whole document (empty object schema)
    let schema_of = |path: &[PathElem]| -> Value {
        let mut v = Value::new();
        for p in path.iter().rev() {
            match p {
                PathElem::Key(k) => {
                    let mut o = sonic_rs::Object::new();
                    o.insert(k, v);
                    v = o.into_value();
                }
                PathElem::Idx(_) => v = Value::new(),
            }
        }
        v
    };
    out.push(("get_by_schema:path", guarded(|| sonic_rs::get_by_schema(input, schema_of(path)).map(|_| ()).map_err(|e| err_info(&e)))));
    out.push(("get_by_schema:whole", guarded(|| sonic_rs::get_by_schema(input, sonic_rs::json!({})).map(|_| ()).map_err(|e| err_info(&e)))));
    out
}

pub fn is_num_target(v: &Value) -> bool {
    v.is_number()
}
