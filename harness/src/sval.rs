//! A runtime value of serde's data model that drives every `serialize_*` method of a serializer,
//! its generator, and its text encoding for the model runner.
use serde::ser::{Serialize, SerializeMap, SerializeSeq, SerializeStruct, SerializeStructVariant, SerializeTuple, SerializeTupleStruct, SerializeTupleVariant, Serializer};

use crate::{out::hex, rng::Rng};

pub const NAMES: &[&str] = &["a", "b", "c", "key", "x\"y", "\u{e9}", "long_field_name_number_seven", "", "z\n"];
pub const VARIANTS: &[&str] = &["A", "B", "Variant", "v\"q", "Z9"];

#[derive(Clone, Debug)]
pub enum SVal {
    Bool(bool),
    U(u128, u8), // value, width
    I(i128, u8),
    F32(f32),
    F64(f64),
    Char(char),
    Str(String),
    Bytes(Vec<u8>),
    Unit,
    UnitStruct,
    None,
    Some(Box<SVal>),
    Newtype(Box<SVal>),
    Seq(Vec<SVal>),
    Tuple(Vec<SVal>),
    TupleStruct(Vec<SVal>),
    Map(Vec<(SVal, SVal)>),
    Struct(Vec<(usize, SVal)>),             // field name index
    UnitVariant(usize),                     // variant name index
    NewtypeVariant(usize, Box<SVal>),
    TupleVariant(usize, Vec<SVal>),
    StructVariant(usize, Vec<(usize, SVal)>),
}

impl Serialize for SVal {
    fn serialize<S: Serializer>(&self, s: S) -> Result<S::Ok, S::Error> {
        match self {
            SVal::Bool(b) => s.serialize_bool(*b),
            SVal::U(v, 8) => s.serialize_u8(*v as u8),
            SVal::U(v, 16) => s.serialize_u16(*v as u16),
            SVal::U(v, 32) => s.serialize_u32(*v as u32),
            SVal::U(v, 64) => s.serialize_u64(*v as u64),
            SVal::U(v, _) => s.serialize_u128(*v),
            SVal::I(v, 8) => s.serialize_i8(*v as i8),
            SVal::I(v, 16) => s.serialize_i16(*v as i16),
            SVal::I(v, 32) => s.serialize_i32(*v as i32),
            SVal::I(v, 64) => s.serialize_i64(*v as i64),
            SVal::I(v, _) => s.serialize_i128(*v),
            SVal::F32(f) => s.serialize_f32(*f),
            SVal::F64(f) => s.serialize_f64(*f),
            SVal::Char(c) => s.serialize_char(*c),
            SVal::Str(x) => s.serialize_str(x),
            SVal::Bytes(b) => s.serialize_bytes(b),
            SVal::Unit => s.serialize_unit(),
            SVal::UnitStruct => s.serialize_unit_struct("U"),
            SVal::None => s.serialize_none(),
            SVal::Some(x) => s.serialize_some(&**x),
            SVal::Newtype(x) => s.serialize_newtype_struct("N", &**x),
            SVal::Seq(xs) => {
                let mut q = s.serialize_seq(Some(xs.len()))?;
                for x in xs {
                    q.serialize_element(x)?;
                }
                q.end()
            }
            SVal::Tuple(xs) => {
                let mut q = s.serialize_tuple(xs.len())?;
                for x in xs {
                    q.serialize_element(x)?;
                }
                q.end()
            }
            SVal::TupleStruct(xs) => {
                let mut q = s.serialize_tuple_struct("T", xs.len())?;
                for x in xs {
                    q.serialize_field(x)?;
                }
                q.end()
            }
            SVal::Map(ms) => {
                let mut q = s.serialize_map(Some(ms.len()))?;
                for (k, v) in ms {
                    q.serialize_entry(k, v)?;
                }
                q.end()
            }
            SVal::Struct(fs) => {
                let mut q = s.serialize_struct("S", fs.len())?;
                for (n, v) in fs {
                    q.serialize_field(NAMES[*n], v)?;
                }
                q.end()
            }
            SVal::UnitVariant(i) => s.serialize_unit_variant("E", *i as u32, VARIANTS[*i]),
            SVal::NewtypeVariant(i, x) => s.serialize_newtype_variant("E", *i as u32, VARIANTS[*i], &**x),
            SVal::TupleVariant(i, xs) => {
                let mut q = s.serialize_tuple_variant("E", *i as u32, VARIANTS[*i], xs.len())?;
                for x in xs {
                    q.serialize_field(x)?;
                }
                q.end()
            }
            SVal::StructVariant(i, fs) => {
                let mut q = s.serialize_struct_variant("E", *i as u32, VARIANTS[*i], fs.len())?;
                for (n, v) in fs {
                    q.serialize_field(NAMES[*n], v)?;
                }
                q.end()
            }
        }
    }
}

/// text encoding understood by the model runner (ocaml/ops_ser.ml)
pub fn encode(v: &SVal, out: &mut String) {
    fn list(xs: &[SVal], out: &mut String) {
        out.push('[');
        for (i, x) in xs.iter().enumerate() {
            if i > 0 {
                out.push(',');
            }
            encode(x, out);
        }
        out.push(']');
    }
    fn fields(fs: &[(usize, SVal)], out: &mut String) {
        out.push('{');
        for (i, (n, x)) in fs.iter().enumerate() {
            if i > 0 {
                out.push(',');
            }
            out.push_str(&hex(NAMES[*n].as_bytes()));
            out.push('=');
            encode(x, out);
        }
        out.push('}');
    }
    match v {
        SVal::Bool(b) => out.push_str(if *b { "b1" } else { "b0" }),
        SVal::U(x, _) => out.push_str(&format!("i{x:x}")),
        SVal::I(x, _) => {
            if *x < 0 {
                out.push_str(&format!("i-{:x}", x.unsigned_abs()))
            } else {
                out.push_str(&format!("i{x:x}"))
            }
        }
        SVal::F32(f) => out.push_str(&format!("g{:x}", f.to_bits())),
        SVal::F64(f) => out.push_str(&format!("f{:x}", f.to_bits())),
        SVal::Char(c) => {
            let mut b = [0u8; 4];
            out.push('s');
            out.push_str(&hex(c.encode_utf8(&mut b).as_bytes()));
        }
        SVal::Str(s) => {
            out.push('s');
            out.push_str(&hex(s.as_bytes()));
        }
        SVal::Bytes(b) => {
            out.push('[');
            for (i, x) in b.iter().enumerate() {
                if i > 0 {
                    out.push(',');
                }
                out.push_str(&format!("i{x:x}"));
            }
            out.push(']');
        }
        SVal::Unit | SVal::UnitStruct | SVal::None => out.push('n'),
        SVal::Some(x) | SVal::Newtype(x) => encode(x, out),
        SVal::Seq(xs) | SVal::Tuple(xs) | SVal::TupleStruct(xs) => list(xs, out),
        SVal::Map(ms) => {
            out.push('<');
            for (i, (k, x)) in ms.iter().enumerate() {
                if i > 0 {
                    out.push(',');
                }
                encode(k, out);
                out.push('=');
                encode(x, out);
            }
            out.push('>');
        }
        SVal::Struct(fs) => fields(fs, out),
        SVal::UnitVariant(i) => {
            out.push('V');
            out.push_str(&hex(VARIANTS[*i].as_bytes()));
            out.push(';');
        }
        SVal::NewtypeVariant(i, x) => {
            out.push('W');
            out.push_str(&hex(VARIANTS[*i].as_bytes()));
            out.push('(');
            encode(x, out);
            out.push(')');
        }
        SVal::TupleVariant(i, xs) => {
            out.push('W');
            out.push_str(&hex(VARIANTS[*i].as_bytes()));
            out.push('(');
            list(xs, out);
            out.push(')');
        }
        SVal::StructVariant(i, fs) => {
            out.push('W');
            out.push_str(&hex(VARIANTS[*i].as_bytes()));
            out.push('(');
            fields(fs, out);
            out.push(')');
        }
    }
}

pub fn gen_str(rng: &mut Rng) -> String {
    // arbitrary Unicode text: every length class, controls, quotes, backslashes, multi-byte
    let n = match rng.below(8) {
        0 => 0,
        1..=3 => rng.below(10),
        4 | 5 => rng.range(10, 40),
        6 => rng.range(28, 70),
        _ => rng.range(60, 210),
    };
    let mut s = String::new();
    for _ in 0..n {
        let c = match rng.below(14) {
            0 => '"',
            1 => '\\',
            2 => char::from_u32(rng.below(0x20) as u32).unwrap(),
            3 => *rng.pick(&['\n', '\t', '\r', '\u{8}', '\u{c}', '\u{1f}', '\u{0}', '\u{7f}']),
            4 => *rng.pick(&['\u{e9}', '\u{4e2d}', '\u{1F600}', '\u{fffd}', '\u{80}', '\u{7ff}', '\u{800}', '\u{ffff}', '\u{10000}', '\u{10ffff}', '\u{2028}']),
            5 => '/',
            _ => *rng.pick(b"abcdefghijklmnopqrstuvwxyz 0123456789{}[]:,") as char,
        };
        s.push(c);
    }
    s
}

pub fn gen_f64(rng: &mut Rng) -> f64 {
    match rng.below(8) {
        0 => *rng.pick(&[0.0, -0.0, 1.0, -1.5, 0.1, 1e21, 1e-7, f64::MAX, f64::MIN_POSITIVE, 5e-324, f64::NAN, f64::INFINITY, f64::NEG_INFINITY, 1e23, 123456789.125]),
        1 => (rng.next() as i64 >> rng.below(60)) as f64,
        2 => f64::from_bits(rng.next() & 0x000f_ffff_ffff_ffff), // subnormal
        _ => f64::from_bits(rng.next()),
    }
}

pub fn gen_scalar(rng: &mut Rng) -> SVal {
    match rng.below(14) {
        0 => SVal::Bool(rng.chance(1, 2)),
        1 if rng.chance(1, 3) => {
            // boundaries of every width, as 128-bit values
            let w = *rng.pick(&[64u8, 128]);
            let v = *rng.pick(&[0u128, 255, 256, 65535, 65536, u32::MAX as u128, 1 << 32, (1 << 63) - 1, 1 << 63, (1 << 63) + 1, u64::MAX as u128, 1 << 64]);
            if w == 64 && v > u64::MAX as u128 { SVal::U(v, 128) } else { SVal::U(v, w) }
        }
        2 if rng.chance(1, 3) => {
            let v = *rng.pick(&[0i128, -1, 127, -128, 128, -129, i32::MAX as i128, i32::MIN as i128, i64::MAX as i128, i64::MIN as i128, i64::MAX as i128 + 1, i64::MIN as i128 - 1, u64::MAX as i128, u64::MAX as i128 + 1, (1i128 << 63) + 12345]);
            SVal::I(v, 128)
        }
        1 => {
            let w = *rng.pick(&[8u8, 16, 32, 64, 128]);
            let v = if w == 128 { ((rng.next() as u128) << 64 | rng.next() as u128) >> rng.below(128) } else { (rng.next() >> rng.below(64)) as u128 & ((1u128 << w) - 1) };
            SVal::U(v, w)
        }
        2 => {
            let w = *rng.pick(&[8u8, 16, 32, 64, 128]);
            let raw = ((rng.next() as u128) << 64 | rng.next() as u128) as i128 >> rng.below(128);
            let v = match w {
                8 => raw as i8 as i128,
                16 => raw as i16 as i128,
                32 => raw as i32 as i128,
                64 => raw as i64 as i128,
                _ => raw,
            };
            SVal::I(v, w)
        }
        3 => SVal::F32(match rng.below(4) {
            0 => *rng.pick(&[0.0f32, -0.0, 0.1, 1e-45, f32::MAX, f32::NAN, f32::INFINITY, 16777217.0, 0.3]),
            _ => f32::from_bits(rng.next() as u32),
        }),
        4 | 5 => SVal::F64(gen_f64(rng)),
        6 => SVal::Char(gen_char(rng)),
        7..=9 => SVal::Str(gen_str(rng)),
        10 => SVal::Unit,
        11 => SVal::None,
        12 => SVal::UnitVariant(rng.below(VARIANTS.len())),
        _ => SVal::UnitStruct,
    }
}

/// a char of every class the writers treat differently: each control character, the two characters with a
/// short escape, DEL, and one to four bytes of UTF-8 - the same classes for values and for map keys
pub fn gen_char(rng: &mut Rng) -> char {
    match rng.below(4) {
        0 => char::from_u32(rng.below(0x20) as u32).unwrap(),
        1 => *rng.pick(&['"', '\\', '/', '\u{7f}', '\u{8}', '\u{c}', '\n', '\r', '\t']),
        2 => *rng.pick(&['a', 'k', ' ', '\u{e9}', '\u{80}', '\u{7ff}', '\u{800}', '\u{4e2d}', '\u{ffff}', '\u{10000}', '\u{1F600}', '\u{10ffff}', '\u{2028}', '\u{feff}']),
        _ => loop {
            if let Some(c) = char::from_u32(rng.below(0x11_0000) as u32) {
                break c;
            }
        },
    }
}

pub fn gen_key(rng: &mut Rng) -> SVal {
    match rng.below(10) {
        0..=4 => SVal::Str(gen_str(rng)),
        5 => SVal::Char(gen_char(rng)),
        6 => SVal::Bool(rng.chance(1, 2)),
        7 => {
            let w = *rng.pick(&[8u8, 16, 32, 64]);
            let raw = (rng.next() as i64 >> rng.below(64)) as i128;
            SVal::I(match w { 8 => raw as i8 as i128, 16 => raw as i16 as i128, 32 => raw as i32 as i128, _ => raw }, w)
        }
        8 => {
            let w = *rng.pick(&[8u8, 16, 32, 64]);
            SVal::U(((rng.next() >> rng.below(64)) as u128) & ((1u128 << w) - 1), w)
        }
        _ => SVal::UnitVariant(rng.below(VARIANTS.len())),
    }
}

/// keys a serializer must reject
pub fn gen_bad_key(rng: &mut Rng) -> SVal {
    match rng.below(5) {
        0 => SVal::Seq(vec![SVal::Bool(true)]),
        1 => SVal::Map(vec![]),
        2 => SVal::Unit,
        3 => SVal::None,
        _ => SVal::Struct(vec![(0, SVal::Bool(false))]),
    }
}

pub fn gen_sval(rng: &mut Rng, depth: usize) -> SVal {
    if depth >= 4 || rng.chance(2, 5) {
        return gen_scalar(rng);
    }
    let n = if rng.chance(1, 6) { 0 } else { rng.range(1, 4) };
    let mut kids = |rng: &mut Rng| -> Vec<SVal> { (0..n).map(|_| gen_sval(rng, depth + 1)).collect() };
    match rng.below(13) {
        0 | 1 => SVal::Seq(kids(rng)),
        2 => SVal::Tuple(kids(rng)),
        3 => SVal::TupleStruct(kids(rng)),
        4 | 5 => SVal::Map((0..n).map(|_| (gen_key(rng), gen_sval(rng, depth + 1))).collect()),
        6 | 7 => SVal::Struct((0..n).map(|i| (i % NAMES.len(), gen_sval(rng, depth + 1))).collect()),
        8 => SVal::Some(Box::new(gen_sval(rng, depth + 1))),
        9 => SVal::Newtype(Box::new(gen_sval(rng, depth + 1))),
        10 => SVal::NewtypeVariant(rng.below(VARIANTS.len()), Box::new(gen_sval(rng, depth + 1))),
        11 => SVal::TupleVariant(rng.below(VARIANTS.len()), kids(rng)),
        _ => {
            if rng.chance(1, 3) {
                SVal::Bytes((0..rng.below(40)).map(|_| rng.next() as u8).collect())
            } else {
                SVal::StructVariant(rng.below(VARIANTS.len()), (0..n).map(|i| (i % NAMES.len(), gen_sval(rng, depth + 1))).collect())
            }
        }
    }
}
