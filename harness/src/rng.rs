//! One seeded PRNG (splitmix64) from which every random choice derives.
#[derive(Clone)]
pub struct Rng(pub u64);

impl Rng {
    pub fn new(seed: u64) -> Self {
        Rng(seed ^ 0x9E37_79B9_7F4A_7C15)
    }
    pub fn next(&mut self) -> u64 {
        self.0 = self.0.wrapping_add(0x9E37_79B9_7F4A_7C15);
        let mut z = self.0;
        z = (z ^ (z >> 30)).wrapping_mul(0xBF58_476D_1CE4_E5B9);
        z = (z ^ (z >> 27)).wrapping_mul(0x94D0_49BB_1331_11EB);
        z ^ (z >> 31)
    }
    pub fn below(&mut self, n: usize) -> usize {
        if n == 0 {
            0
        } else {
            (self.next() % n as u64) as usize
        }
    }
    pub fn range(&mut self, lo: usize, hi: usize) -> usize {
        lo + self.below(hi - lo + 1)
    }
    pub fn chance(&mut self, num: usize, den: usize) -> bool {
        self.below(den) < num
    }
    pub fn pick<'a, T>(&mut self, xs: &'a [T]) -> &'a T {
        &xs[self.below(xs.len())]
    }
    pub fn fork(&mut self) -> Rng {
        Rng(self.next())
    }
}
