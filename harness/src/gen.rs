//! Generators: structured mostly-valid documents, a malformed stream, and deterministic sweeps.
use crate::rng::Rng;

#[derive(Clone, Debug)]
pub enum G {
    Null,
    Bool(bool),
    Num(String),
    Str { dec: String, lit: String },
    Arr(Vec<G>),
    Obj(Vec<(String, String, G)>), // decoded key, key literal (with quotes), value
}

#[derive(Clone, Debug, PartialEq)]
pub enum PathElem {
    Key(String),
    Idx(usize),
}

#[derive(Clone)]
pub struct Cfg {
    pub max_depth: usize,
    pub max_width: usize,
    pub dup_free: bool,
    pub ws: bool,
    pub long_strings: bool,
    pub float_numbers: bool,
}

impl Default for Cfg {
    fn default() -> Self {
        Cfg { max_depth: 4, max_width: 5, dup_free: true, ws: true, long_strings: true, float_numbers: true }
    }
}

pub const NUM_POOL: &[&str] = &[
    "0", "-0", "1", "-1", "12", "123", "-17", "255", "256", "65535", "65536", "2147483647", "2147483648",
    "-2147483648", "-2147483649", "4294967295", "4294967296", "9223372036854775807", "9223372036854775808",
    "-9223372036854775808", "-9223372036854775809", "18446744073709551615", "18446744073709551616",
    "99999999999999999999", "123456789012345678901234567890", "0.0", "-0.0", "0.5", "1.5", "-2.25", "3.14159",
    "1e0", "1E5", "1e-5", "1e+5", "2.5e10", "-7.25E-3", "1e22", "1e23", "1e308", "1.7976931348623157e308",
    "4.9e-324", "2.2250738585072014e-308", "2.2250738585072011e-308", "1e-400", "0e0", "0.000", "-0e1", "0E-9",
    "9007199254740993", "9007199254740992.5", "0.1", "0.2", "0.30000000000000004", "123456.789e3",
    "1.0000000000000002", "1.00000000000000011102230246251565404236316680908203125", "100000000000000000000000",
    "8.5", "1234567890.0123456789", "5e-1", "0.0000001", "340282350000000000000000000000000000000",
];

/// Number-like tokens enumerated over the grammar: integer part of every length that matters to the
/// digit-count thresholds of the number parser (0, 1..=25 digits), every fraction / exponent shape,
/// well-formed and damaged, with and without a sign.
pub fn number_grammar() -> Vec<String> {
    const DIGITS: &str = "9876543210123456789012345";
    let mut ints: Vec<String> = vec!["0".into(), "00".into(), "01".into()];
    for n in 1..=25 {
        ints.push(DIGITS[..n].to_string());
    }
    // integer parts that end at, or one byte around, the 32-byte blocks of the number skippers
    for n in [30usize, 31, 32, 33, 34, 40, 62, 63, 64, 65, 66, 95, 96, 97] {
        ints.push((0..n).map(|i| (b'1' + (i % 9) as u8) as char).collect());
    }
    const TAILS: &[&str] = &[
        "", ".5", ".0", ".25e1", "e1", "E+2", "e-3", ".5E-2", ".12345678901234567890", ".00000000000000000001", "e0", "e00", ".", ".e1", ".E", "e", "E", "e+", "e-",
        ".5.", ".5e", ".5e+", "..5", ".-5", "-", "+", ".5.5", "e1.5", "e1e1", ".x", "x", "e+x", ".5e1x", " .5", ". 5",
    ];
    let mut out = Vec::new();
    for sign in ["", "-", "+", "--"] {
        for i in &ints {
            for t in TAILS {
                if (sign == "+" || sign == "--") && !(t.is_empty() || *t == ".5") {
                    continue;
                }
                out.push(format!("{sign}{i}{t}"));
            }
        }
    }
    out
}

/// RFC 8259 number grammar (used to select the well-formed members of `number_grammar`)
pub fn is_json_number(s: &str) -> bool {
    let b = s.as_bytes();
    let mut i = 0;
    if i < b.len() && b[i] == b'-' {
        i += 1;
    }
    if i >= b.len() {
        return false;
    }
    if b[i] == b'0' {
        i += 1;
    } else if b[i].is_ascii_digit() {
        while i < b.len() && b[i].is_ascii_digit() {
            i += 1;
        }
    } else {
        return false;
    }
    if i < b.len() && b[i] == b'.' {
        i += 1;
        let st = i;
        while i < b.len() && b[i].is_ascii_digit() {
            i += 1;
        }
        if i == st {
            return false;
        }
    }
    if i < b.len() && (b[i] == b'e' || b[i] == b'E') {
        i += 1;
        if i < b.len() && (b[i] == b'+' || b[i] == b'-') {
            i += 1;
        }
        let st = i;
        while i < b.len() && b[i].is_ascii_digit() {
            i += 1;
        }
        if i == st {
            return false;
        }
    }
    i == b.len()
}

pub fn gen_number(rng: &mut Rng, floats: bool) -> String {
    match rng.below(10) {
        0..=4 => {
            let mut s = rng.pick(NUM_POOL).to_string();
            if !floats && (s.contains('.') || s.contains('e') || s.contains('E') || s == "-0") {
                s = format!("{}", rng.below(100000));
            }
            s
        }
        5 => format!("{}", rng.next() as i64 >> rng.below(64)),
        6 => {
            if floats && rng.chance(1, 2) {
                loop {
                    let (s, valid) = long_number(rng);
                    if valid {
                        return s;
                    }
                }
            }
            format!("{}", rng.next() as i64 >> rng.below(64))
        }
        7 => format!("{}", rng.next() >> rng.below(64)),
        8 if floats && rng.chance(1, 2) => boundary_number(rng),
        _ => {
            if !floats {
                return format!("{}", rng.below(1000));
            }
            // grammar-directed
            let mut s = String::new();
            if rng.chance(1, 3) {
                s.push('-');
            }
            if rng.chance(1, 5) {
                s.push('0');
            } else {
                s.push((b'1' + rng.below(9) as u8) as char);
                let m = if rng.chance(1, 8) { 40 } else { 6 };
                for _ in 0..rng.below(m) {
                    s.push((b'0' + rng.below(10) as u8) as char);
                }
            }
            if rng.chance(1, 2) {
                s.push('.');
                let m = if rng.chance(1, 8) { 40 } else { 6 };
                for _ in 0..rng.range(1, m) {
                    s.push((b'0' + rng.below(10) as u8) as char);
                }
            }
            if rng.chance(1, 3) {
                s.push(*rng.pick(&['e', 'E']));
                match rng.below(3) {
                    0 => s.push('-'),
                    1 => s.push('+'),
                    _ => {}
                }
                for _ in 0..rng.range(1, 2) {
                    s.push((b'0' + rng.below(10) as u8) as char);
                }
            }
            s
        }
    }
}

/// Float literals at the edges of the fast paths: 15-17 digit significands around 2^53 with a small
/// exponent, and 17-19 digit significands with an exponent near the overflow / underflow limits.
pub fn boundary_number(rng: &mut Rng) -> String {
    let mut digs = |rng: &mut Rng, n: usize| -> String { (0..n).map(|_| (b'0' + rng.below(10) as u8) as char).collect() };
    let neg = if rng.chance(1, 4) { "-" } else { "" };
    if rng.chance(2, 3) {
        let n = 15 + rng.below(3);
        let lead = *rng.pick(&["9", "90", "9007199254740", "8", "1", "4"]);
        let m = format!("{}{}", lead, digs(rng, n - lead.len()));
        let k = 1 + rng.below(n - 1);
        match rng.below(3) {
            0 => format!("{neg}{}.{}", &m[..k], &m[k..]),
            1 => format!("{neg}{m}e{}", rng.below(62) as i64 - 24),
            _ => format!("{neg}0.{}{m}", "0".repeat(rng.below(6))),
        }
    } else {
        let n = 17 + rng.below(3);
        let lead = *rng.pick(&["17976931348623157", "17976931348623158", "18", "9", "2", "1"]);
        let m = format!("{}{}", lead, digs(rng, n - lead.len()));
        let e = if rng.chance(1, 2) { 308 - (n as i64 - 1) + rng.below(3) as i64 - 2 } else { -(300 + rng.below(30) as i64) - (n as i64 - 1) };
        let s = format!("{neg}{m}e{e}");
        // documents built from these literals must stay acceptable: keep only finite values here (the
        // literals beyond the overflow limit are exercised by the number suites themselves)
        if s.parse::<f64>().map(|x| x.is_finite()).unwrap_or(false) {
            s
        } else {
            format!("{neg}{m}e{}", e - 3)
        }
    }
}

const PLAIN: &[u8] = b"abcdefghijklmnopqrstuvwxyzABCDEFGHIJKLMNOPQRSTUVWXYZ0123456789 _-.:,[]{}/'";
const MULTI: &[&str] = &["\u{e9}", "\u{df}", "\u{4e2d}", "\u{6587}", "\u{20ac}", "\u{1F600}", "\u{10FFFF}", "\u{7ff}", "\u{800}", "\u{ffff}", "\u{10000}", "\u{fffd}"];

/// A string value: (decoded text, literal with quotes). `len_hint` steers the raw length so that
/// literals cross 32- and 64-byte block edges.
/// A string whose escape sequence straddles a 32-byte block boundary of the scanners: `pad` ordinary
/// bytes, an escape, then a tail long enough for another full block, with structural bytes in it so
/// that a scanner which loses the escape state across the boundary visibly mis-delimits the literal.
pub fn boundary_string(rng: &mut Rng) -> (String, String) {
    let pad = if rng.chance(1, 2) { 31 + 32 * rng.below(4) } else { rng.below(130) };
    let mut dec = String::new();
    let mut lit = String::from("\"");
    for _ in 0..pad {
        let c = *rng.pick(PLAIN) as char;
        dec.push(c);
        lit.push(c);
    }
    let reps = 1 + rng.below(2);
    for _ in 0..reps {
        let (e, d) = *rng.pick(&[("\\\"", "\""), ("\\\\", "\\"), ("\\\\\\\"", "\\\""), ("\\n", "\n"), ("\\u0022", "\""), ("\\u005c", "\\")]);
        dec.push_str(d);
        lit.push_str(e);
    }
    let tail = *rng.pick(&[",3,", "],[", "}:{", ": 1, ", ""]);
    dec.push_str(tail);
    lit.push_str(tail);
    let more = rng.range(30, 75);
    for _ in 0..more {
        let c = *rng.pick(PLAIN) as char;
        dec.push(c);
        lit.push(c);
    }
    lit.push('"');
    (dec, lit)
}

pub fn gen_string(rng: &mut Rng, long: bool) -> (String, String) {
    if long && rng.chance(1, 12) {
        return boundary_string(rng);
    }
    if rng.chance(1, 40) {
        // text that mimics the position suffix of an error message, with ASCII and non-ASCII numerals
        let d = *rng.pick(&[" at line 3 column 5", " at line \u{663}", "x at line 12 column \u{b2}", " at line \u{ff13} column 1", "line 1 column 2", " at line 99999999999999999999 column 1", " at line 1 column "]);
        return (d.to_string(), format!("\"{d}\""));
    }
    let target = match rng.below(12) {
        0 => 0,
        1..=5 => rng.below(8),
        6..=8 => rng.below(30),
        9 => {
            if long {
                rng.range(28, 70)
            } else {
                rng.below(12)
            }
        }
        10 => {
            if long {
                rng.range(60, 140)
            } else {
                rng.below(12)
            }
        }
        _ => {
            if long && rng.chance(1, 6) {
                rng.range(120, 300)
            } else {
                rng.below(20)
            }
        }
    };
    let flavour = rng.below(6); // 0,1: plain only; 2: escapes; 3: multibyte; 4,5: mixed
    let mut dec = String::new();
    let mut lit = String::from("\"");
    while lit.len() - 1 < target {
        let k = match flavour {
            0 | 1 => 0,
            2 => {
                if rng.chance(1, 4) {
                    1 + rng.below(3)
                } else {
                    0
                }
            }
            3 => {
                if rng.chance(1, 4) {
                    4
                } else {
                    0
                }
            }
            _ => {
                if rng.chance(1, 3) {
                    1 + rng.below(4)
                } else {
                    0
                }
            }
        };
        match k {
            0 => {
                let c = *rng.pick(PLAIN) as char;
                dec.push(c);
                lit.push(c);
            }
            1 => {
                // simple escape
                let (e, d) = *rng.pick(&[("\\\"", '"'), ("\\\\", '\\'), ("\\/", '/'), ("\\b", '\u{8}'), ("\\f", '\u{c}'), ("\\n", '\n'), ("\\r", '\r'), ("\\t", '\t')]);
                dec.push(d);
                lit.push_str(e);
            }
            2 => {
                // \uXXXX BMP (non-surrogate)
                let mut cp = match rng.below(6) {
                    0 => rng.below(0x20) as u32,
                    1 => rng.below(0x80) as u32,
                    2 => 0x80 + rng.below(0x780) as u32,
                    3 => 0x800 + rng.below(0xF800) as u32,
                    4 => *rng.pick(&[0u32, 0x7f, 0x80, 0x7ff, 0x800, 0xd7ff, 0xe000, 0xffff, 0x22, 0x5c]),
                    _ => rng.below(0x10000) as u32,
                };
                if (0xD800..0xE000).contains(&cp) {
                    cp = 0xE000 + (cp & 0xff);
                }
                dec.push(char::from_u32(cp).unwrap());
                if rng.chance(1, 2) {
                    lit.push_str(&format!("\\u{:04x}", cp));
                } else {
                    lit.push_str(&format!("\\u{:04X}", cp));
                }
            }
            3 => {
                // surrogate pair
                let cp = 0x10000 + rng.below(0x100000) as u32;
                let v = cp - 0x10000;
                dec.push(char::from_u32(cp).unwrap());
                lit.push_str(&format!("\\u{:04x}\\u{:04x}", 0xD800 + (v >> 10), 0xDC00 + (v & 0x3ff)));
            }
            _ => {
                let s = *rng.pick(MULTI);
                dec.push_str(s);
                lit.push_str(s);
            }
        }
    }
    lit.push('"');
    (dec, lit)
}

pub fn gen_key(rng: &mut Rng, used: &mut Vec<String>, dup_free: bool) -> (String, String) {
    for _ in 0..20 {
        let (dec, lit) = if rng.chance(2, 3) {
            let n = rng.range(0, 6);
            let mut s = String::new();
            for _ in 0..n {
                s.push(*rng.pick(b"abcdexyz_019") as char);
            }
            (s.clone(), format!("\"{s}\""))
        } else {
            { let l = rng.chance(1, 4); gen_string(rng, l) }
        };
        if !dup_free || !used.contains(&dec) {
            used.push(dec.clone());
            return (dec, lit);
        }
    }
    let dec = format!("k{}", used.len());
    used.push(dec.clone());
    let lit = format!("\"{dec}\"");
    (dec, lit)
}

pub fn gen_tree(rng: &mut Rng, depth: usize, cfg: &Cfg) -> G {
    let leaf = depth >= cfg.max_depth || rng.chance(2, 5);
    if leaf {
        match rng.below(8) {
            0 => G::Null,
            1 => G::Bool(rng.chance(1, 2)),
            2..=4 => G::Num(gen_number(rng, cfg.float_numbers)),
            _ => {
                let (dec, lit) = gen_string(rng, cfg.long_strings);
                G::Str { dec, lit }
            }
        }
    } else if rng.chance(1, 2) {
        let n = if rng.chance(1, 6) { 0 } else { rng.range(1, cfg.max_width) };
        G::Arr((0..n).map(|_| gen_tree(rng, depth + 1, cfg)).collect())
    } else {
        let n = if rng.chance(1, 6) { 0 } else { rng.range(1, cfg.max_width) };
        let mut used = Vec::new();
        G::Obj(
            (0..n)
                .map(|_| {
                    let (d, l) = gen_key(rng, &mut used, cfg.dup_free);
                    (d, l, gen_tree(rng, depth + 1, cfg))
                })
                .collect(),
        )
    }
}

/// a document whose root is a container most of the time
pub fn gen_doc(rng: &mut Rng, cfg: &Cfg) -> G {
    if rng.chance(1, 8) {
        gen_tree(rng, cfg.max_depth, cfg)
    } else {
        loop {
            let t = gen_tree(rng, 0, cfg);
            if matches!(t, G::Arr(_) | G::Obj(_)) {
                return t;
            }
        }
    }
}

fn put_ws(rng: &mut Rng, ws: bool, out: &mut Vec<u8>) {
    if ws && rng.chance(1, 4) {
        for _ in 0..rng.range(1, 3) {
            out.push(*rng.pick(b" \t\n\r  "));
        }
    }
}

pub fn render(g: &G, rng: &mut Rng, ws: bool, out: &mut Vec<u8>) {
    match g {
        G::Null => out.extend_from_slice(b"null"),
        G::Bool(true) => out.extend_from_slice(b"true"),
        G::Bool(false) => out.extend_from_slice(b"false"),
        G::Num(s) => out.extend_from_slice(s.as_bytes()),
        G::Str { lit, .. } => out.extend_from_slice(lit.as_bytes()),
        G::Arr(xs) => {
            out.push(b'[');
            put_ws(rng, ws, out);
            for (i, x) in xs.iter().enumerate() {
                if i > 0 {
                    out.push(b',');
                    put_ws(rng, ws, out);
                }
                render(x, rng, ws, out);
                put_ws(rng, ws, out);
            }
            out.push(b']');
        }
        G::Obj(ms) => {
            out.push(b'{');
            put_ws(rng, ws, out);
            for (i, (_, kl, x)) in ms.iter().enumerate() {
                if i > 0 {
                    out.push(b',');
                    put_ws(rng, ws, out);
                }
                out.extend_from_slice(kl.as_bytes());
                put_ws(rng, ws, out);
                out.push(b':');
                put_ws(rng, ws, out);
                render(x, rng, ws, out);
                put_ws(rng, ws, out);
            }
            out.push(b'}');
        }
    }
}

/// text of a document with optional leading/trailing whitespace that moves block boundaries
pub fn render_doc(g: &G, rng: &mut Rng, cfg: &Cfg) -> Vec<u8> {
    let mut out = Vec::new();
    if cfg.ws && rng.chance(1, 3) {
        for _ in 0..rng.below(70) {
            out.push(b' ');
        }
    }
    render(g, rng, cfg.ws, &mut out);
    if cfg.ws && rng.chance(1, 4) {
        for _ in 0..rng.below(5) {
            out.push(*rng.pick(b" \n\t\r"));
        }
    }
    out
}

pub fn all_paths(g: &G, cur: &mut Vec<PathElem>, out: &mut Vec<Vec<PathElem>>) {
    out.push(cur.clone());
    match g {
        G::Arr(xs) => {
            for (i, x) in xs.iter().enumerate() {
                cur.push(PathElem::Idx(i));
                all_paths(x, cur, out);
                cur.pop();
            }
        }
        G::Obj(ms) => {
            let mut seen: Vec<&str> = Vec::new();
            for (k, _, x) in ms {
                if seen.contains(&k.as_str()) {
                    continue;
                }
                seen.push(k);
                cur.push(PathElem::Key(k.clone()));
                all_paths(x, cur, out);
                cur.pop();
            }
        }
        _ => {}
    }
}

pub fn perturb_path(p: &[PathElem], rng: &mut Rng) -> Vec<PathElem> {
    let mut q = p.to_vec();
    match rng.below(6) {
        0 => q.push(PathElem::Key("nokey".into())),
        1 => q.push(PathElem::Idx(rng.below(4))),
        2 => {
            if let Some(l) = q.last_mut() {
                *l = match l {
                    PathElem::Key(_) => PathElem::Idx(0),
                    PathElem::Idx(i) => PathElem::Idx(*i + 1 + rng.below(3)),
                };
            } else {
                q.push(PathElem::Key(String::new()));
            }
        }
        3 => {
            if let Some(l) = q.last_mut() {
                *l = match l {
                    PathElem::Key(k) => PathElem::Key(format!("{k}x")),
                    PathElem::Idx(_) => PathElem::Key("0".into()),
                };
            } else {
                q.push(PathElem::Idx(0));
            }
        }
        4 => q.push(PathElem::Key(String::new())),
        _ => {
            if !q.is_empty() {
                let i = rng.below(q.len());
                q[i] = PathElem::Key("\u{e9}\"\\".into());
            } else {
                q.push(PathElem::Key("a".into()));
            }
        }
    }
    q
}

/// encode a path for the model runner: elements separated by '/', `k<hex>` or `i<n>`; "-" when empty
pub fn path_arg(p: &[PathElem]) -> String {
    if p.is_empty() {
        return "-".into();
    }
    p.iter()
        .map(|e| match e {
            PathElem::Key(k) => format!("k{}", crate::out::hex(k.as_bytes())),
            PathElem::Idx(i) => format!("i{i}"),
        })
        .collect::<Vec<_>>()
        .join("/")
}

const MUT_POOL: &[u8] = b"[]{},:\"\\u0123456789.eE+-tfn \n\x00\x01\x1f\x7f\x80\xbf\xc0\xc2\xe0\xed\xf0\xf4\xff/ab";

/// one mutation of a document (malformed stream); returns a label of what was done
pub fn mutate(doc: &[u8], rng: &mut Rng) -> (Vec<u8>, &'static str) {
    let mut d = doc.to_vec();
    let n = d.len();
    match rng.below(19) {
        11 | 12 => {
            // separator-level damage: trailing / leading / missing / swapped separators
            let opens: Vec<usize> = d.iter().enumerate().filter(|(_, c)| b"[{".contains(c)).map(|(i, _)| i).collect();
            let closes: Vec<usize> = d.iter().enumerate().filter(|(_, c)| b"]}".contains(c)).map(|(i, _)| i).collect();
            let seps: Vec<usize> = d.iter().enumerate().filter(|(_, c)| b",:".contains(c)).map(|(i, _)| i).collect();
            match rng.below(5) {
                0 if !closes.is_empty() => {
                    let i = closes[rng.below(closes.len())];
                    d.insert(i, b',');
                    if rng.chance(1, 3) {
                        d.insert(i + 1, b' ');
                    }
                    (d, "trailingcomma")
                }
                1 if !opens.is_empty() => {
                    let i = opens[rng.below(opens.len())];
                    d.insert(i + 1, b',');
                    (d, "leadingcomma")
                }
                2 if !seps.is_empty() => {
                    let i = seps[rng.below(seps.len())];
                    d.remove(i);
                    (d, "missingsep")
                }
                3 if !seps.is_empty() => {
                    let i = seps[rng.below(seps.len())];
                    d[i] = if d[i] == b',' { b':' } else { b',' };
                    (d, "swappedsep")
                }
                _ => {
                    if !closes.is_empty() {
                        let i = closes[rng.below(closes.len())];
                        d[i] = if d[i] == b']' { b'}' } else { b']' };
                    }
                    (d, "wrongclose")
                }
            }
        }
        13 | 14 => {
            // damage the tail of a number token
            let mut ends: Vec<usize> = Vec::new();
            for i in 0..n {
                if d[i].is_ascii_digit() && (i + 1 == n || !(d[i + 1].is_ascii_digit() || b".eE+-".contains(&d[i + 1]))) {
                    ends.push(i + 1);
                }
            }
            if !ends.is_empty() {
                let i = ends[rng.below(ends.len())];
                let tails: &[&[u8]] = &[b".", b"e", b"E", b"-", b".5.5", b"e+", b"E-", b".e1", b"e1.5", b"0", b"x", b".5e", b"e5e5", b"+1"];
                let t: &[u8] = tails[rng.below(tails.len())];
                for (k, b) in t.iter().enumerate() {
                    d.insert(i + k, *b);
                }
            }
            (d, "numbertail")
        }
        15 | 16 => {
            // a control character inside a string
            let mut inside: Vec<usize> = Vec::new();
            let mut instr = false;
            let mut esc = false;
            for (i, c) in d.iter().enumerate() {
                if instr {
                    if esc {
                        esc = false;
                    } else if *c == b'\\' {
                        esc = true;
                    } else if *c == b'"' {
                        instr = false;
                    } else {
                        inside.push(i);
                    }
                } else if *c == b'"' {
                    instr = true;
                }
            }
            if !inside.is_empty() {
                let i = inside[rng.below(inside.len())];
                d[i] = *rng.pick(&[0x1fu8, 0x1f, 0x00, 0x0a, 0x09, 0x0d, 0x1e, 0x01, 0x10, 0x08]);
            }
            (d, "controlinstring")
        }
        17 | 18 => {
            // replace a number by a long one whose '.', 'e' fall at chosen places of the 32-byte blocks
            let (num, _) = long_number(rng);
            let mut starts: Vec<usize> = Vec::new();
            for i in 0..n {
                if (d[i].is_ascii_digit() || d[i] == b'-') && (i == 0 || b"[,: \n\t\r".contains(&d[i - 1])) {
                    starts.push(i);
                }
            }
            if !starts.is_empty() {
                let i = starts[rng.below(starts.len())];
                let mut j = i;
                while j < d.len() && (d[j].is_ascii_digit() || b".eE+-".contains(&d[j])) {
                    j += 1;
                }
                d.splice(i..j, num.into_bytes());
            } else {
                d = format!("[{num} ,1]").into_bytes();
            }
            (d, "longnumber")
        }
        0 | 1 => {
            // truncation
            let k = rng.below(n + 1);
            d.truncate(k);
            (d, "truncate")
        }
        2 | 3 => {
            if n > 0 {
                let i = rng.below(n);
                d[i] = *rng.pick(MUT_POOL);
            }
            (d, "substitute")
        }
        4 => {
            let i = rng.below(n + 1);
            d.insert(i, *rng.pick(MUT_POOL));
            (d, "insert")
        }
        5 => {
            if n > 0 {
                let i = rng.below(n);
                d.remove(i);
            }
            (d, "delete")
        }
        6 => {
            // invalid utf-8 injection
            let i = rng.below(n + 1);
            let seqs: &[&[u8]] = &[b"\xff", b"\xc0\x80", b"\xe0\x80\x80", b"\xed\xa0\x80", b"\xf4\x90\x80\x80", b"\xc3", b"\xe4\xb8", b"\xf0\x9f\x98", b"\x80"];
            let s: &[u8] = seqs[rng.below(seqs.len())];
            for (k, b) in s.iter().enumerate() {
                d.insert(i + k, *b);
            }
            (d, "badutf8")
        }
        7 => {
            // bad escape inserted into a string if there is one
            let quotes: Vec<usize> = d.iter().enumerate().filter(|(_, c)| **c == b'"').map(|(i, _)| i).collect();
            if !quotes.is_empty() {
                let i = quotes[rng.below(quotes.len())] + 1;
                let esc: &[&[u8]] = &[b"\\x", b"\\u12", b"\\uZZZZ", b"\\ud800", b"\\udc00", b"\\ud800\\u0041", b"\\u12G4", b"\\", b"\\a", b"\x0a", b"\\ud83d\\ud83d"];
                let s: &[u8] = esc[rng.below(esc.len())];
                for (k, b) in s.iter().enumerate() {
                    d.insert((i + k).min(d.len()), *b);
                }
            }
            (d, "badescape")
        }
        8 => {
            // duplicate a structural byte
            let idx: Vec<usize> = d.iter().enumerate().filter(|(_, c)| b"[]{},:".contains(c)).map(|(i, _)| i).collect();
            if !idx.is_empty() {
                let i = idx[rng.below(idx.len())];
                let c = d[i];
                d.insert(i, c);
            }
            (d, "dupstruct")
        }
        9 => {
            // trailing garbage
            let tails: &[&[u8]] = &[b"x", b" ,", b"]", b"}", b" 1", b"\"", b"\x00", b" null", b"\n\n]"];
            let t: &[u8] = tails[rng.below(tails.len())];
            d.extend_from_slice(t);
            (d, "trailing")
        }
        _ => {
            // swap two bytes
            if n > 1 {
                let i = rng.below(n - 1);
                d.swap(i, i + 1);
            }
            (d, "swap")
        }
    }
}

/// multi-line variant: replace some spaces by newlines so that line/column are exercised
pub fn add_newlines(doc: &mut Vec<u8>, rng: &mut Rng) {
    for b in doc.iter_mut() {
        if *b == b' ' && rng.chance(1, 3) {
            *b = b'\n';
        }
    }
}

/// a long number literal: (text, grammatically valid?) with '.', exponent and possible damage
/// (second fraction, missing digits) at positions that vary relative to 32-byte blocks
pub fn long_number(rng: &mut Rng) -> (String, bool) {
    let mut s = String::new();
    let mut valid = true;
    if rng.chance(1, 4) {
        s.push('-');
    }
    let n1 = rng.range(1, 45);
    for i in 0..n1 {
        let dgt = if i == 0 { b'1' + rng.below(9) as u8 } else { b'0' + rng.below(10) as u8 };
        s.push(dgt as char);
    }
    if rng.chance(3, 4) {
        s.push('.');
        let n2 = rng.below(45);
        if n2 == 0 {
            valid = false;
        }
        for _ in 0..n2 {
            s.push((b'0' + rng.below(10) as u8) as char);
        }
        if rng.chance(1, 6) {
            s.push('.');
            s.push((b'0' + rng.below(10) as u8) as char);
            valid = false;
        }
    }
    if rng.chance(1, 2) {
        s.push(*rng.pick(&['e', 'E']));
        match rng.below(3) {
            0 => s.push('-'),
            1 => s.push('+'),
            _ => {}
        }
        let n3 = if rng.chance(1, 8) { 0 } else { rng.range(1, 2) };
        if n3 == 0 {
            valid = false;
        }
        for _ in 0..n3 {
            s.push((b'0' + rng.below(10) as u8) as char);
        }
        if rng.chance(1, 8) {
            s.push_str(*rng.pick(&[".5", "e1", "E"]));
            valid = false;
        }
    }
    (s, valid)
}
