//! C04 (typed deserialization agrees with serde_json) and C19 (converting through the DOM commutes
//! with converting through text; DOM equality laws).
use std::{collections::BTreeMap, fmt::Debug};

use serde::{de::DeserializeOwned, Deserialize, Serialize};
use sonic_rs::{JsonContainerTrait, JsonValueMutTrait, JsonValueTrait, Value};

use crate::{
    dump,
    entry::guarded,
    gen::{self, Cfg, G},
    out::{hex, Out},
    p_get::sorted_dump,
    rng::Rng,
    sval::{self, SVal},
    types::*,
};

fn canon<T: Debug, E>(r: Result<Result<T, E>, String>) -> String {
    match r {
        Err(p) => format!("panic:{}", p.replace(['\t', '\n'], " ")),
        Ok(Err(_)) => "err".into(),
        Ok(Ok(v)) => format!("ok:{}", format!("{v:?}").replace(['\t', '\n'], " ")),
    }
}

/// sonic-rs against serde_json on the same text and the same target type
fn cmp<'a, T: Deserialize<'a> + PartialEq + Debug>(out: &mut Out, name: &str, text: &'a str) {
    let a = canon(guarded(|| sonic_rs::from_str::<T>(text)));
    let b = canon(guarded(|| serde_json::from_str::<T>(text)));
    out.count(&format!("{}:{}", name, if b.starts_with("ok") { "ok" } else { "err" }));
    // the model op "same" returns its third argument: serde_json's result is the reference
    out.case("same", &[name, &hex(text.as_bytes()), &b], &a, text.len() > 2);
    let a2 = canon(guarded(|| sonic_rs::from_slice::<T>(text.as_bytes())));
    if a2 != a {
        out.case("same", &[name, &hex(text.as_bytes()), &a, "from_slice vs from_str"], &a2, true);
    }
}

/// IgnoredAny with the traits the comparison needs
#[derive(Debug, PartialEq)]
struct Ign;
impl<'de> Deserialize<'de> for Ign {
    fn deserialize<D: serde::Deserializer<'de>>(d: D) -> Result<Self, D::Error> {
        serde::de::IgnoredAny::deserialize(d).map(|_| Ign)
    }
}

/// the same comparison through from_slice on bytes that need not be UTF-8
fn cmp_bytes<'a, T: Deserialize<'a> + PartialEq + Debug>(out: &mut Out, name: &str, input: &'a [u8]) {
    let a = canon(guarded(|| sonic_rs::from_slice::<T>(input)));
    let b = canon(guarded(|| serde_json::from_slice::<T>(input)));
    out.count(&format!("{}:{}", name, if b.starts_with("ok") { "ok" } else { "err" }));
    out.case("same", &[name, &hex(input), &b], &a, input.len() > 2);
}

macro_rules! family {
    ($m:ident) => {
        $m!("bool", bool, Shape::Bool);
        $m!("u8", u8, Shape::Int { signed: false, bits: 8 });
        $m!("i8", i8, Shape::Int { signed: true, bits: 8 });
        $m!("u16", u16, Shape::Int { signed: false, bits: 16 });
        $m!("i16", i16, Shape::Int { signed: true, bits: 16 });
        $m!("u32", u32, Shape::Int { signed: false, bits: 32 });
        $m!("i32", i32, Shape::Int { signed: true, bits: 32 });
        $m!("u64", u64, Shape::Int { signed: false, bits: 64 });
        $m!("i64", i64, Shape::Int { signed: true, bits: 64 });
        $m!("u128", u128, Shape::Int { signed: false, bits: 128 });
        $m!("i128", i128, Shape::Int { signed: true, bits: 128 });
        $m!("f64", f64, Shape::F64);
        $m!("char", char, Shape::Char);
        $m!("String", String, Shape::Str);
        $m!("unit", (), Shape::Unit);
        $m!("Option<i32>", Option<i32>, Shape::Opt(Box::new(Shape::Int { signed: true, bits: 32 })));
        $m!("Option<String>", Option<String>, Shape::Opt(Box::new(Shape::Str)));
        $m!("Vec<i64>", Vec<i64>, Shape::Seq(Box::new(Shape::Int { signed: true, bits: 64 })));
        $m!("Vec<String>", Vec<String>, Shape::Seq(Box::new(Shape::Str)));
        $m!("Vec<Option<bool>>", Vec<Option<bool>>, Shape::Seq(Box::new(Shape::Opt(Box::new(Shape::Bool)))));
        $m!("(i32,String,bool)", (i32, String, bool), Shape::Tuple(vec![Shape::Int { signed: true, bits: 32 }, Shape::Str, Shape::Bool]));
        $m!("[u8;3]", [u8; 3], Shape::Tuple(vec![Shape::Int { signed: false, bits: 8 }, Shape::Int { signed: false, bits: 8 }, Shape::Int { signed: false, bits: 8 }]));
        $m!("HashMap<String,i32>", MapSI, Shape::Map(Box::new(Shape::Str), Box::new(Shape::Int { signed: true, bits: 32 })));
        $m!("BTreeMap<i32,String>", MapIS, Shape::Map(Box::new(Shape::Int { signed: true, bits: 32 }), Box::new(Shape::Str)));
        $m!("BTreeMap<bool,i8>", MapBI, Shape::Map(Box::new(Shape::Bool), Box::new(Shape::Int { signed: true, bits: 8 })));
        $m!("BTreeMap<Kind,i8>", MapKI, Shape::Map(Box::new(kind_shape()), Box::new(Shape::Int { signed: true, bits: 8 })));
        $m!("BTreeMap<u64,bool>", MapU64, Shape::Map(Box::new(Shape::Int { signed: false, bits: 64 }), Box::new(Shape::Bool)));
        $m!("BTreeMap<char,String>", MapCS, Shape::Map(Box::new(Shape::Char), Box::new(Shape::Str)));
        $m!("BTreeMap<i8,char>", MapI8C, Shape::Map(Box::new(Shape::Int { signed: true, bits: 8 }), Box::new(Shape::Char)));
        $m!("BTreeMap<i64,Vec<char>>", MapI64VC, Shape::Map(Box::new(Shape::Int { signed: true, bits: 64 }), Box::new(Shape::Seq(Box::new(Shape::Char)))));
        $m!("Plain", Plain, plain_shape());
        $m!("Defaults", Defaults, defaults_shape());
        $m!("Strict", Strict, Shape::Struct(vec![("p", Shape::Int { signed: false, bits: 16 }, false), ("q", Shape::Opt(Box::new(Shape::Str)), true)]));
        $m!("Nested", Nested, Shape::Struct(vec![("inner", plain_shape(), false), ("list", Shape::Seq(Box::new(plain_shape())), false), ("map", Shape::Map(Box::new(Shape::Str), Box::new(defaults_shape())), false)]));
        $m!("Newtype", Newtype, Shape::Int { signed: true, bits: 64 });
        $m!("TupleS", TupleS, Shape::Tuple(vec![Shape::Int { signed: false, bits: 8 }, Shape::Str, Shape::F64]));
        $m!("UnitS", UnitS, Shape::Unit);
        $m!("Kind", Kind, kind_shape());
        $m!("Ext", Ext, Shape::Enum(vec![("Unit", None), ("New", Some(Shape::Int { signed: true, bits: 32 })), ("Tup", Some(Shape::Tuple(vec![Shape::Int { signed: false, bits: 8 }, Shape::Str]))), ("Rec", Some(Shape::Struct(vec![("a", Shape::Bool, false), ("b", Shape::Opt(Box::new(Shape::Int { signed: true, bits: 8 })), true)])))]));
        $m!("Internal", Internal, Shape::Struct(vec![("t", Shape::Enum(vec![("A", None), ("B", None), ("C", None)]), false), ("x", Shape::Int { signed: true, bits: 32 }, true), ("y", Shape::Str, true)]));
        $m!("Adjacent", Adjacent, Shape::Struct(vec![("t", Shape::Enum(vec![("A", None), ("B", None), ("C", None)]), false), ("c", Shape::Any, true)]));
        $m!("Untagged", Untagged, Shape::Any);
        $m!("Flat", Flat, Shape::Struct(vec![("id", Shape::Int { signed: false, bits: 32 }, false), ("a", Shape::Int { signed: true, bits: 32 }, false), ("b", Shape::Str, false), ("c", Shape::Opt(Box::new(Shape::Bool)), true)]));
        $m!("ByteBuf", serde_bytes::ByteBuf, Shape::Bytes);
        $m!("serde_json::Value", serde_json::Value, Shape::Any);
    };
}

pub fn run_c04(out: &mut Out, tier: &str, seed: u64) {
    let mut rng = Rng::new(seed);
    let per = if tier == "thorough" { 1500 } else { 150 };
    macro_rules! one {
        ($name:expr, $t:ty, $shape:expr) => {{
            let shape: Shape = $shape;
            for i in 0..per {
                let mode = (i % 3) as u8;
                let mut text = gen_text(&shape, &mut rng, mode, 0);
                if mode == 2 && rng.chance(1, 3) {
                    text = String::from_utf8_lossy(&gen::mutate(text.as_bytes(), &mut rng).0).to_string();
                }
                if rng.chance(1, 6) {
                    text = format!(" {text}\n");
                }
                cmp::<$t>(out, $name, &text);
            }
        }};
    }
    family!(one);
    // f32 apart: overflow to infinity is the documented "f32 via f64" difference
    for _ in 0..per {
        let text = gen_text(&Shape::F32, &mut rng, 0, 0);
        cmp::<f32>(out, "f32", &text);
    }
    // borrowed fields
    let bshape = Shape::Struct(vec![("s", Shape::Str, false), ("c", Shape::Str, false)]);
    for i in 0..per {
        let text = gen_text(&bshape, &mut rng, (i % 3) as u8, 0);
        cmp::<Borrowed>(out, "Borrowed", &text);
    }
    // the enumerated number grammar (well-formed and damaged literals) through the numeric targets, bare and in containers
    for (k, lit) in gen::number_grammar().into_iter().enumerate() {
        if tier != "thorough" && k % 2 == 1 {
            continue;
        }
        cmp::<i128>(out, "i128", &lit);
        cmp::<u128>(out, "u128", &lit);
        cmp::<i64>(out, "i64", &lit);
        cmp::<u64>(out, "u64", &lit);
        cmp::<f64>(out, "f64", &lit);
        cmp::<i8>(out, "i8", &lit);
        let w = format!("[{lit}]");
        cmp::<Vec<i128>>(out, "Vec<i128>", &w);
        cmp::<(u128,)>(out, "(u128,)", &w);
        cmp::<Option<Option<i64>>>(out, "Option<Option<i64>>", &lit);
        let m = format!("{{\"{lit}\":1}}");
        cmp::<BTreeMap<i128, u8>>(out, "BTreeMap<i128,u8>", &m);
        cmp::<BTreeMap<u64, u8>>(out, "BTreeMap<u64,u8>", &m);
        let e = format!("{{\"New\":{lit}}}");
        cmp::<Ext>(out, "Ext", &e);
    }
    // discarded parts of the input are validated too: an unknown member whose value is (or contains) something
    // malformed - member names with bad escapes or raw controls, damaged literals, separators - must be rejected
    {
        let junk = ["{\"\\q\":1}", "{\"\\u12\":1}", "{\"\\u00g1\":1}", "{\"a\x01\":1}", "{\"k\":\"\\x\"}", "[{\"\\q\":[]}]", "{\"a\":{\"b\\\":1}}", "{\"a\":tru}", "[1 2]", "{\"a\" 1}", "{\"a\":1,}", "[\"\\ud800\"]", "{\"\\ud800\":1}", "{\"ok\":[1,2,{\"fine\":null}]}", "\"\\q\"", "01", "{\"x\":\"\x1f\"}"];
        for j in junk {
            for pos in 0..2 {
                let plain = if pos == 0 { format!("{{\"zz\":{j},\"a\":7,\"b\":\"s\"}}") } else { format!("{{\"a\":7,\"b\":\"s\",\"zz\":{j}}}") };
                cmp::<Plain>(out, "Plain", &plain);
                cmp::<Ign>(out, "IgnoredAny", &plain);
                let flat = format!("{{\"id\":1,\"a\":7,\"zz\":{j},\"b\":\"s\"}}");
                cmp::<Flat>(out, "Flat", &flat);
                let inner = format!("{{\"t\":\"A\",\"zz\":{j},\"x\":3}}");
                cmp::<Internal>(out, "Internal", &inner);
                let ext = format!("{{\"Rec\":{{\"a\":true,\"zz\":{j}}}}}");
                cmp::<Ext>(out, "Ext", &ext);
                let tup = format!("[1,{j}]");
                cmp::<(u8, Ign)>(out, "(u8,IgnoredAny)", &tup);
            }
        }
    }
    // byte-like targets (and their neighbours) fed through from_slice with strings that are not UTF-8: once, twice,
    // with a str parsed in between (a member name or a String element)
    {
        use serde_bytes::ByteBuf;
        #[derive(Deserialize, PartialEq, Debug)]
        struct TwoBufs {
            a: ByteBuf,
            b: ByteBuf,
        }
        #[derive(Deserialize, PartialEq, Debug)]
        struct BufStr {
            a: ByteBuf,
            s: String,
            #[serde(default)]
            c: Option<ByteBuf>,
        }
        let pieces: [&[u8]; 8] = [b"\"\xff\"", b"\"ok\"", b"\"\xfe\xfe\"", b"\"a\xc3\"", b"\"\xe4\xb8\xad\"", b"\"\\n\xff\"", b"\"\"", b"\"x\xf0\x9f\""];
        for i in 0..(if tier == "thorough" { 1200 } else { 200 }) {
            let (p1, p2, p3) = (*rng.pick(&pieces), *rng.pick(&pieces), *rng.pick(&pieces));
            let mut t: Vec<u8> = Vec::new();
            t.push(b'[');
            t.extend_from_slice(p1); t.push(b','); t.extend_from_slice(p2); t.push(b','); t.extend_from_slice(p3);
            t.push(b']');
            cmp_bytes::<(ByteBuf, String, ByteBuf)>(out, "(ByteBuf,String,ByteBuf)", &t);
            cmp_bytes::<Vec<ByteBuf>>(out, "Vec<ByteBuf>", &t);
            cmp_bytes::<(ByteBuf, ByteBuf, ByteBuf)>(out, "(ByteBuf,ByteBuf,ByteBuf)", &t);
            cmp_bytes::<Vec<String>>(out, "Vec<String>", &t);
            let mut o: Vec<u8> = b"{\"a\":".to_vec();
            o.extend_from_slice(p1); o.extend_from_slice(b",\"b\":"); o.extend_from_slice(p3); o.push(b'}');
            cmp_bytes::<TwoBufs>(out, "TwoBufs", &o);
            let mut o: Vec<u8> = b"{\"a\":".to_vec();
            o.extend_from_slice(p1); o.extend_from_slice(b",\"s\":"); o.extend_from_slice(p2);
            if i % 2 == 0 { o.extend_from_slice(b",\"c\":"); o.extend_from_slice(p3); }
            o.push(b'}');
            cmp_bytes::<BufStr>(out, "BufStr", &o);
            cmp_bytes::<ByteBuf>(out, "ByteBuf", p1);
            cmp_bytes::<String>(out, "String", p1);
        }
    }
    // borrowed strings behind serde's buffering containers
    let tag = |vs: &[&'static str]| Shape::Enum(vs.iter().map(|v| (*v, None)).collect());
    let ub = Shape::Any;
    let ib = Shape::Struct(vec![("t", tag(&["A", "B"]), false), ("x", Shape::Str, true), ("y", Shape::Int { signed: true, bits: 32 }, true)]);
    let ab = Shape::Struct(vec![("t", tag(&["A", "B"]), false), ("c", Shape::Str, true)]);
    let ab2 = Shape::Struct(vec![("c", Shape::Str, true), ("t", tag(&["A", "B"]), false)]);
    let fb = Shape::Struct(vec![("id", Shape::Int { signed: false, bits: 32 }, false), ("s", Shape::Str, false), ("n", Shape::Opt(Box::new(Shape::Int { signed: true, bits: 8 })), true)]);
    let rb = Shape::Struct(vec![("a", Shape::Str, false)]);
    for i in 0..per {
        let mode = (i % 3) as u8;
        let text = gen_text(if i % 2 == 0 { &Shape::Str } else { &ub }, &mut rng, mode, 0);
        cmp::<UntaggedB>(out, "UntaggedB", &text);
        let text = gen_text(&rb, &mut rng, mode, 0);
        cmp::<UntaggedB>(out, "UntaggedB", &text);
        let text = gen_text(&ib, &mut rng, mode, 0);
        cmp::<InternalB>(out, "InternalB", &text);
        let text = gen_text(if i % 2 == 0 { &ab } else { &ab2 }, &mut rng, mode, 0);
        cmp::<AdjacentB>(out, "AdjacentB", &text);
        let text = gen_text(&fb, &mut rng, mode, 0);
        cmp::<FlatB>(out, "FlatB", &text);
    }
    // every kind of payload behind the buffering containers, on every kind of JSON value
    {
        const VALS: &[&str] = &["null", "true", "false", "0", "1", "-1", "255", "256", "1.5", "-0.0", "1e2", "18446744073709551615", "-9223372036854775808", "18446744073709551616",
            "\"\"", "\"a\"", "\"ab\"", "\"Alpha\"", "\"Unit\"", "\"\\n\"", "\"\\u00e9\"", "[]", "[1]", "[1,\"x\"]", "[null]", "[1,\"x\",2.5]", "{}", "{\"a\":1}", "{\"New\":3}",
            "{\"a\":7,\"b\":\"s\"}", "{\"a\":7,\"b\":\"s\",\"c\":null}", "{\"Rec\":{\"a\":true,\"b\":null}}", "{\"Tup\":[1,\"x\"]}"];
        macro_rules! payload {
            ($name:expr, $p:ty) => {{
                for (i, v) in VALS.iter().enumerate() {
                    if per < 100 && (i + $name.len()) % 2 == 1 && *v != "null" {
                        continue;
                    }
                    cmp::<UntaggedP<$p>>(out, concat!("UntaggedP<", $name, ">"), v);
                    cmp::<Vec<UntaggedP<$p>>>(out, concat!("Vec<UntaggedP<", $name, ">>"), &format!("[{v},{v}]"));
                    for t in [format!("{{\"t\":\"A\",\"m\":{v}}}"), format!("{{\"m\":{v},\"t\":\"A\"}}"), format!("{{\"t\":\"C\",\"m\":{v},\"k\":3}}"), format!("{{\"t\":\"C\"}}"),
                        format!("{{\"t\":\"B\"}}"), if v.starts_with('{') && v.len() > 2 { format!("{{\"t\":\"B\",{}", &v[1..]) } else { format!("{{\"t\":\"B\",\"m\":{v}}}") }] {
                        cmp::<InternalP<$p>>(out, concat!("InternalP<", $name, ">"), &t);
                    }
                    for t in [format!("{{\"t\":\"A\",\"c\":{v}}}"), format!("{{\"c\":{v},\"t\":\"A\"}}"), format!("{{\"t\":\"B\",\"c\":{{\"m\":{v}}}}}"), format!("{{\"c\":{{\"m\":{v}}},\"t\":\"B\"}}"),
                        format!("{{\"c\":[{v},9],\"t\":\"C\"}}"), format!("{{\"t\":\"C\",\"c\":[{v},9]}}"), format!("{{\"t\":\"A\"}}"), format!("{{\"c\":{v}}}")] {
                        cmp::<AdjacentP<$p>>(out, concat!("AdjacentP<", $name, ">"), &t);
                    }
                    for t in [format!("{{\"id\":1,\"m\":{v}}}"), format!("{{\"m\":{v},\"k\":null,\"id\":2}}"), format!("{{\"id\":3}}"), format!("{{\"id\":4,\"m\":{v},\"z\":{v}}}")] {
                        cmp::<FlatP<$p>>(out, concat!("FlatP<", $name, ">"), &t);
                    }
                }
            }};
        }
        payload!("()", ());
        payload!("UnitS", UnitS);
        payload!("PhantomData<u8>", std::marker::PhantomData<u8>);
        payload!("Option<i32>", Option<i32>);
        payload!("Option<()>", Option<()>);
        payload!("Option<Option<bool>>", Option<Option<bool>>);
        payload!("Newtype", Newtype);
        payload!("bool", bool);
        payload!("u8", u8);
        payload!("i64", i64);
        payload!("u64", u64);
        payload!("i128", i128);
        payload!("f32", f32);
        payload!("f64", f64);
        payload!("char", char);
        payload!("String", String);
        payload!("(u8,String)", (u8, String));
        payload!("Vec<i32>", Vec<i32>);
        payload!("Vec<()>", Vec<()>);
        payload!("BTreeMap<String,i32>", BTreeMap<String, i32>);
        payload!("Kind", Kind);
        payload!("Ext", Ext);
        payload!("Plain", Plain);
        payload!("Box<TupleS>", Box<TupleS>);
        payload!("ByteBuf", serde_bytes::ByteBuf);
    }
}

// ---------------------------------------------------------------- C19

fn via_dom<T: Serialize + DeserializeOwned + PartialEq + Debug>(out: &mut Out, name: &str, text: &str) {
    // x: a value of T obtained from matching text through the reference library
    let Ok(x) = serde_json::from_str::<T>(text) else { return };
    out.count(&format!("value:{name}"));
    let r = guarded(|| -> Result<String, String> {
        let s = sonic_rs::to_string(&x).map_err(|e| format!("to_string: {e}"))?;
        let v = match sonic_rs::to_value(&x) {
            Ok(v) => v,
            // documented counterpart: integers beyond 64 bits are printed in full but have no DOM representation
            Err(_) if (name == "u128" || name == "i128") && s.trim_start_matches('-').len() >= 19 => return Ok("true".into()),
            Err(e) => return Err(format!("to_value: {e}")),
        };
        let parsed: Value = sonic_rs::from_str(&s).map_err(|e| format!("reparse: {e}"))?;
        if sorted_dump(&v) != sorted_dump(&parsed) {
            return Ok(format!("to_value differs from the DOM of to_string: {} vs {}", sorted_dump(&v), sorted_dump(&parsed)));
        }
        let back: T = sonic_rs::from_value(&v).map_err(|e| format!("from_value: {e}"))?;
        if back != x {
            return Ok(format!("from_value(to_value(x)) = {back:?}"));
        }
        let back2: T = sonic_rs::from_str(&s).map_err(|e| format!("from_str: {e}"))?;
        if back2 != x {
            return Ok(format!("from_str(to_string(x)) = {back2:?}"));
        }
        if v != parsed || parsed != v {
            return Ok("DOM equality disagrees with the dumps".into());
        }
        Ok("true".into())
    });
    let verdict = match r {
        Ok(Ok(s)) => s,
        Ok(Err(e)) => format!("error:{e}"),
        Err(p) => format!("panic:{p}"),
    };
    out.case("expect", &["to_value/from_value commute with to_string/from_str", name, &hex(text.as_bytes())], &verdict, true);
}

/// structural equality of two dumps with object members compared as sets (reference for Value == Value)
pub fn run_c19(out: &mut Out, tier: &str, seed: u64) {
    let mut rng = Rng::new(seed);
    let per = if tier == "thorough" { 600 } else { 60 };
    macro_rules! one {
        ($name:expr, $t:ty, $shape:expr) => {{
            let shape: Shape = $shape;
            for _ in 0..per {
                let text = gen_text(&shape, &mut rng, 0, 0);
                via_dom::<$t>(out, $name, &text);
            }
        }};
    }
    family!(one);
    // enum payloads that are written as null / unit, bare and inside containers
    {
        let singles = ["{\"N\":null}", "{\"N\":5}", "{\"U\":null}", "{\"S\":null}", "\"Z\"", "{\"T\":null}", "{\"T\":true}", "{\"W\":-3}", "{\"R\":{\"a\":null}}", "{\"R\":{}}", "{\"Z\":null}"];
        for t in singles {
            via_dom::<NullPay>(out, "NullPay", t);
            via_dom::<Vec<NullPay>>(out, "Vec<NullPay>", &format!("[{t},\"Z\",{t}]"));
            via_dom::<Option<NullPay>>(out, "Option<NullPay>", t);
            via_dom::<BTreeMap<String, NullPay>>(out, "BTreeMap<String,NullPay>", &format!("{{\"k\":{t}}}"));
            for u in singles {
                via_dom::<HoldsNullPay>(out, "HoldsNullPay", &format!("{{\"e\":{t},\"v\":[{u}],\"o\":{}}}", if t.len() % 2 == 0 { "null" } else { u }));
            }
        }
    }
    // the whole serde data model through to_value: the DOM must denote the value (model: SerVal.expect)
    for _ in 0..(if tier == "thorough" { 20000 } else { 2500 }) {
        let v = sval::gen_sval(&mut rng, 0);
        let mut enc = String::new();
        sval::encode(&v, &mut enc);
        let r = guarded(|| sonic_rs::to_value(&v));
        let text_route = guarded(|| sonic_rs::to_string(&v));
        match (r, text_route) {
            (Ok(Ok(dom)), Ok(Ok(text))) => {
                out.count("to_value:ok");
                out.case("tovalue", &[&enc, &sorted_dump(&dom)], "ok", true);
                // and it equals the DOM of the text, except where an f32 is involved (F24)
                let parsed: Option<Value> = sonic_rs::from_str(&text).ok();
                let same = parsed.as_ref().map(|p| sorted_dump(p) == sorted_dump(&dom)).unwrap_or(false);
                if has_dup_map_keys(&v) {
                    // a map with the same key twice is printed twice but is one member in the DOM
                    out.count("to_value:dup-keys-not-compared-with-text");
                } else {
                    out.case("tovalue_text", &[&enc, if contains_f32(&v) { "f32" } else { "nof32" }], if same { "same" } else { "differs" }, true);
                }
            }
            (Ok(Err(_)), Ok(Err(_))) => out.count("to_value:both-fail"),
            (Ok(Err(_)), Ok(Ok(text))) => {
                // documented counterparts: 128-bit integers beyond 64 bits are not representable in the DOM
                out.count("to_value:fails-text-ok");
                out.case("tovalue_fail", &[&enc, &hex(text.as_bytes())], "dom-rejects", true);
            }
            (Ok(Ok(dom)), Ok(Err(_))) => out.case("tovalue_fail", &[&enc, &dump::dump(&dom)], "text-rejects-dom-accepts", true),
            (Err(p), _) | (_, Err(p)) => out.case("tovalue", &[&enc, ""], &format!("panic:{p}"), true),
        }
    }
    // recorded witness of known finding F7 (Object equality is asymmetric with duplicate names)
    {
        let a: Value = sonic_rs::from_str(r#"{"a":1,"a":2}"#).unwrap();
        let b: Value = sonic_rs::from_str(r#"{"a":1,"b":2}"#).unwrap();
        out.case("expect", &["F7 witness: {a:1,a:2}=={a:1,b:2} is symmetric"], if (a == b) == (b == a) { "true" } else { "false" }, true);
    }
    // reflexivity does not depend on member names being distinct: documents with repeated names compare equal to
    // themselves, to their clone, to a second parse of the same text, also when nested in another container
    {
        let cfgd = Cfg { dup_free: false, max_depth: 3, ..Cfg::default() };
        let mut texts: Vec<Vec<u8>> = [r#"{"a":1,"a":2}"#, r#"[0,{"id":7,"tags":["x"],"id":8}]"#, r#"{"k":{"x":null,"x":false},"k":[]}"#, r#"{"a":1,"b":2,"a":1}"#]
            .iter().map(|t| t.as_bytes().to_vec()).collect();
        for _ in 0..(if tier == "thorough" { 6000 } else { 800 }) {
            let g = gen::gen_doc(&mut rng, &cfgd);
            texts.push(gen::render_doc(&g, &mut rng, &cfgd));
        }
        for doc in texts {
            let Ok(a) = sonic_rs::from_slice::<Value>(&doc) else { continue };
            let Ok(a2) = sonic_rs::from_slice::<Value>(&doc) else { continue };
            let cl = a.clone();
            let (na, na2): (Value, Value) = (Value::from(vec![a.clone(), Value::from(1u64)]), Value::from(vec![a2.clone(), Value::from(1u64)]));
            let r = (a == a, a == cl, cl == a, a == a2, a2 == a, na == na2);
            out.count("eqreflexive");
            out.case("expect", &["equality is reflexive (repeated member names allowed)", &hex(&doc)], &if r == (true, true, true, true, true, true) { "true".to_string() } else { format!("{r:?}") }, true);
        }
    }
    // `==` on parsed documents is exactly the model's comparison (Model/ObjEq.obj_eq at every object, operands
    // exchanged where the code exchanges them): both directions, repeated member names included - the model that
    // carries the symmetry theorem and its refutation (F7) is run against the code (op valeq)
    {
        fn shuffle(g: &G, rng: &mut Rng) -> G {
            match g {
                G::Obj(ms) => {
                    let mut v: Vec<_> = ms.iter().map(|(k, r, x)| (k.clone(), r.clone(), shuffle(x, rng))).collect();
                    for i in (1..v.len()).rev() {
                        let j = rng.below(i + 1);
                        v.swap(i, j);
                    }
                    G::Obj(v)
                }
                G::Arr(xs) => G::Arr(xs.iter().map(|x| shuffle(x, rng)).collect()),
                o => o.clone(),
            }
        }
        fn damage(g: &G, rng: &mut Rng) -> G {
            match g {
                G::Obj(ms) if !ms.is_empty() => {
                    let mut v = ms.clone();
                    let i = rng.below(v.len());
                    match rng.below(3) {
                        0 => {
                            v.remove(i);
                        }
                        1 => v[i].2 = damage(&v[i].2, rng),
                        _ => {
                            let j = rng.below(v.len());
                            let x = v[j].2.clone();
                            v[i].2 = x;
                        }
                    }
                    G::Obj(v)
                }
                G::Arr(xs) if !xs.is_empty() => {
                    let mut v = xs.clone();
                    let i = rng.below(v.len());
                    v[i] = damage(&v[i], rng);
                    G::Arr(v)
                }
                G::Null => G::Bool(false),
                G::Num(_) => G::Num(rng.pick(&["0", "-0", "0.0", "-0.0", "1", "1.0", "1e0", "18446744073709551615", "-1"]).to_string()),
                _ => G::Null,
            }
        }
        // the second occurrence of a repeated name gets a name of its own (the shape of the F7 witness)
        fn rename_dup(g: &G) -> G {
            match g {
                G::Obj(ms) => {
                    let mut v: Vec<_> = ms.iter().map(|(k, r, x)| (k.clone(), r.clone(), rename_dup(x))).collect();
                    for j in 1..v.len() {
                        if v[..j].iter().any(|m| m.0 == v[j].0) {
                            v[j].0 = "fresh\u{1}name".into();
                            v[j].1 = "\"fresh\\u0001name\"".into();
                            break;
                        }
                    }
                    G::Obj(v)
                }
                G::Arr(xs) => G::Arr(xs.iter().map(rename_dup).collect()),
                o => o.clone(),
            }
        }
        let tf = |b: bool| if b { 't' } else { 'f' };
        let mut valeq = |out: &mut Out, t1: &[u8], t2: &[u8]| {
            let r = guarded(|| -> Result<String, String> {
                let a: Result<Value, _> = sonic_rs::from_slice(t1);
                let b: Result<Value, _> = sonic_rs::from_slice(t2);
                Ok(match (a, b) {
                    (Ok(a), Ok(b)) => format!("{}{}", tf(a == b), tf(b == a)),
                    _ => "parse-error".into(),
                })
            });
            out.count("valeq");
            out.case("valeq", &[&hex(t1), &hex(t2)], &match r { Ok(Ok(s)) => s, Ok(Err(e)) => e, Err(p) => format!("panic:{p}") }, true);
        };
        for (a, b) in [("{\"a\":1,\"a\":2}", "{\"a\":1,\"b\":2}"), ("{\"a\":1,\"a\":2}", "{\"a\":2,\"a\":1}"), ("{\"a\":1,\"a\":2}", "{\"a\":1,\"a\":3}"), ("[{\"a\":1,\"a\":2}]", "[{\"a\":1,\"b\":2}]"),
            ("{\"k\":{\"a\":1,\"a\":2}}", "{\"k\":{\"a\":1,\"b\":2}}"), ("0.0", "-0.0"), ("0", "-0"), ("1", "1.0"), ("[1,2]", "[1,2.0]"), ("\"a\"", "\"\\u0061\""), ("{}", "[]"), ("[[{\"x\":null,\"x\":1}]]", "[[{\"x\":null,\"y\":1}]]")] {
            valeq(out, a.as_bytes(), b.as_bytes());
        }
        let cfgd = Cfg { dup_free: false, max_depth: 3, ..Cfg::default() };
        for i in 0..(if tier == "thorough" { 12000 } else { 1500 }) {
            let g = gen::gen_doc(&mut rng, &cfgd);
            let g1 = if i % 3 != 1 { crate::p_get::repeat_members(&g, &mut rng) } else { g.clone() };
            let g2 = match rng.below(8) {
                6 | 7 => rename_dup(&g1),
                0 => g1.clone(),
                1 => shuffle(&g1, &mut rng),
                2 => crate::p_get::repeat_members(&g, &mut rng),
                3 => shuffle(&crate::p_get::repeat_members(&g, &mut rng), &mut rng),
                4 => damage(&g1, &mut rng),
                _ => shuffle(&damage(&g1, &mut rng), &mut rng),
            };
            let t1 = gen::render_doc(&g1, &mut rng, &cfgd);
            let t2 = gen::render_doc(&g2, &mut rng, &cfgd);
            valeq(out, &t1, &t2);
        }
    }
    // integers compare by value, whatever class they are stored in and however they were built
    {
        let mut pool: Vec<i128> = vec![0, 1, -1, i64::MIN as i128, i64::MAX as i128, i64::MAX as i128 + 1, u64::MAX as i128, u64::MAX as i128 - 1, (1i128 << 63) + 1, -(1i128 << 62), 1 << 32, -(1i128 << 32), 255, -255];
        for _ in 0..(if tier == "thorough" { 60 } else { 16 }) {
            let v = rng.next();
            pool.push(v as i128);
            pool.push((v as i64) as i128);
            pool.push(((v >> rng.below(64)) as i64 as i128).wrapping_neg());
        }
        let build = |x: i128, how: usize| -> Value {
            match how {
                0 if x >= 0 => Value::from(x as u64),
                0 | 1 if x >= i64::MIN as i128 && x <= i64::MAX as i128 => Value::from(x as i64),
                _ => sonic_rs::from_str::<Value>(&x.to_string()).unwrap(),
            }
        };
        for (i, &a) in pool.iter().enumerate() {
            for (j, &b) in pool.iter().enumerate() {
                let (va, vb) = (build(a, i % 3), build(b, j % 3));
                let (x, y) = (va == vb, vb == va);
                let nested = Value::from(vec![va.clone()]) == Value::from(vec![vb.clone()]);
                let want = a == b;
                let verdict = if x == want && y == want && nested == want { "true".to_string() } else { format!("{a} == {b}: {x} / {y} / nested {nested}, integers say {want}") };
                out.case("expect", &["integer equality by value", &format!("{a} {b} {} {}", i % 3, j % 3)], &verdict, a != b);
            }
        }
        out.count("eq integer pairs");
    }
    // equality laws on pairs of DOM values built in different ways
    let cfg = Cfg { dup_free: true, max_depth: 3, ..Cfg::default() };
    for _ in 0..(if tier == "thorough" { 10000 } else { 1500 }) {
        let g = gen::gen_doc(&mut rng, &cfg);
        let doc = gen::render_doc(&g, &mut rng, &cfg);
        let Ok(a) = sonic_rs::from_slice::<Value>(&doc) else { continue };
        // b: the same tree with members shuffled and rebuilt as owned containers
        let b = rebuild(&a, &mut rng, true);
        // c: a slightly different tree
        let mut c = rebuild(&a, &mut rng, false);
        perturb(&mut c, &mut rng);
        // a2 / c2: objects of equal size whose only difference is the name of a null member
        if let Some(o) = a.as_object() {
            if let Some((k0, _)) = o.iter().next() {
                let mut a2 = rebuild(&a, &mut rng, false);
                let mut c2 = rebuild(&a, &mut rng, false);
                let k0 = k0.to_string();
                a2.as_object_mut().unwrap().insert(&k0, Value::new());
                let co = c2.as_object_mut().unwrap();
                co.remove(&k0);
                co.insert(&format!("{k0}?"), Value::new());
                let same = sorted_dump(&a2) == sorted_dump(&c2);
                let (x, y) = (a2 == c2, c2 == a2);
                let verdict = if x != y { format!("asymmetric: {x} / {y}") } else if x != same { format!("== is {x} but the trees are {}", if same { "the same" } else { "different" }) } else { "true".into() };
                out.case("expect", &["equality: renamed null member", &hex(&doc)], &verdict, true);
            }
        }
        let ab = (a == b, b == a, a == a.clone(), b == b.clone());
        let same_c = sorted_dump(&a) == sorted_dump(&c);
        let ac = (a == c, c == a);
        let verdict = if !(ab.0 && ab.1 && ab.2 && ab.3) {
            format!("equal trees compare unequal: {:?}", ab)
        } else if ac.0 != ac.1 {
            format!("asymmetric: a==c {} c==a {}", ac.0, ac.1)
        } else if ac.0 != same_c {
            format!("a==c is {} but the trees are {}", ac.0, if same_c { "the same" } else { "different" })
        } else {
            "true".into()
        };
        out.count("eqpair");
        out.case("expect", &["equality laws", &hex(&doc)], &verdict, true);
        // comparison with primitives
        if let Some(s) = a.as_str() {
            let ok = a == s && a == s.to_string();
            out.case("expect", &["eq primitive str", &hex(&doc)], if ok { "true" } else { "false" }, true);
        }
        if let Some(u) = a.as_u64() {
            let ok = a == u;
            out.case("expect", &["eq primitive u64", &hex(&doc)], if ok { "true" } else { "false" }, true);
        }
    }
}

fn key_text(k: &SVal) -> String {
    // the string a key is written as
    sonic_rs::to_string(&SVal::Map(vec![(k.clone(), SVal::Unit)])).unwrap_or_default()
}

fn has_dup_map_keys(v: &SVal) -> bool {
    match v {
        SVal::Some(x) | SVal::Newtype(x) | SVal::NewtypeVariant(_, x) => has_dup_map_keys(x),
        SVal::Seq(xs) | SVal::Tuple(xs) | SVal::TupleStruct(xs) | SVal::TupleVariant(_, xs) => xs.iter().any(has_dup_map_keys),
        SVal::Map(ms) => {
            let mut seen = std::collections::HashSet::new();
            ms.iter().any(|(k, x)| !seen.insert(key_text(k)) || has_dup_map_keys(x))
        }
        SVal::Struct(fs) | SVal::StructVariant(_, fs) => fs.iter().any(|(_, x)| has_dup_map_keys(x)),
        _ => false,
    }
}

fn contains_f32(v: &SVal) -> bool {
    match v {
        SVal::F32(_) => true,
        SVal::Some(x) | SVal::Newtype(x) | SVal::NewtypeVariant(_, x) => contains_f32(x),
        SVal::Seq(xs) | SVal::Tuple(xs) | SVal::TupleStruct(xs) | SVal::TupleVariant(_, xs) => xs.iter().any(contains_f32),
        SVal::Map(ms) => ms.iter().any(|(k, x)| contains_f32(k) || contains_f32(x)),
        SVal::Struct(fs) | SVal::StructVariant(_, fs) => fs.iter().any(|(_, x)| contains_f32(x)),
        _ => false,
    }
}

/// the same tree rebuilt through the mutation API (owned containers), members inserted in a shuffled order
fn rebuild(v: &Value, rng: &mut Rng, shuffle: bool) -> Value {
    if let Some(a) = v.as_array() {
        let mut out = sonic_rs::Array::new();
        for x in a.iter() {
            out.push(rebuild(x, rng, shuffle));
        }
        out.into_value()
    } else if let Some(o) = v.as_object() {
        let mut ms: Vec<(String, Value)> = o.iter().map(|(k, x)| (k.to_string(), rebuild(x, rng, shuffle))).collect();
        if shuffle {
            for i in (1..ms.len()).rev() {
                ms.swap(i, rng.below(i + 1));
            }
        }
        let mut out = sonic_rs::Object::new();
        for (k, x) in ms {
            out.insert(&k, x);
        }
        out.into_value()
    } else {
        v.clone()
    }
}

fn perturb(v: &mut Value, rng: &mut Rng) {
    if rng.chance(1, 3) {
        return; // leave equal
    }
    if let Some(a) = v.as_array_mut() {
        if !a.is_empty() && rng.chance(1, 2) {
            let i = rng.below(a.len());
            perturb(&mut a[i], rng);
        } else {
            a.push(Value::from(1u64));
        }
    } else if let Some(o) = v.as_object_mut() {
        match rng.below(5) {
            0 => {
                o.insert(&"extra_member", Value::new());
            }
            1 | 2 => {
                // same number of members, one key renamed (its value kept, or null on both sides)
                let keys: Vec<String> = o.iter().map(|(k, _)| k.to_string()).collect();
                if keys.is_empty() {
                    o.insert(&"k", Value::new());
                } else {
                    let k = keys[rng.below(keys.len())].clone();
                    let old = o.remove(&k).unwrap_or_default();
                    let nk = format!("{k}_renamed");
                    o.insert(&nk, if rng.chance(1, 2) { Value::new() } else { old });
                }
            }
            _ => {
                let keys: Vec<String> = o.iter().map(|(k, _)| k.to_string()).collect();
                if keys.is_empty() {
                    o.insert(&"k", Value::from(true));
                } else {
                    let k = &keys[rng.below(keys.len())];
                    if rng.chance(1, 2) {
                        o.remove(k);
                    } else if let Some(x) = o.get_mut(k) {
                        perturb(x, rng);
                    }
                }
            }
        }
    } else {
        *v = Value::from("changed");
    }
    let _: BTreeMap<u8, u8> = BTreeMap::new();
}
