mod entry;
mod gen;
mod out;
mod p_c01;
mod p_c02;
mod p_c09;
mod p_c20;
mod p_cas;
mod p_dom;
mod p_get;
mod p_hist;
mod p_num;
mod p_ser;
mod p_simd;
mod p_t2;
mod p_typed;
mod types;
mod sval;
mod dump;
mod rng;
mod tables;
mod witness;

#[global_allocator]
static ALLOC: p_cas::Counting = p_cas::Counting;

fn main() {
    let args: Vec<String> = std::env::args().collect();
    if args.len() < 2 {
        eprintln!("usage: vharness run <prop> <tier> <seed> <outdir> | tables <file>");
        std::process::exit(2);
    }
    if std::env::var("VERIF_TRACE").is_err() {
        entry::silence_panics();
    }
    match args[1].as_str() {
        "run" => {
            let (prop, tier, seed, dir) = (&args[2], &args[3], args[4].parse::<u64>().unwrap(), &args[5]);
            let mut out = out::Out::new(dir);
            match prop.as_str() {
                "C02" => p_c02::run(&mut out, tier, seed),
                "C09" => {
                    p_c09::run(&mut out, tier, seed);
                    p_t2::strs(&mut out, tier, seed);
                }
                "C20" => {
                    p_c20::run(&mut out, tier, seed);
                    p_t2::pos(&mut out, tier, seed);
                }
                "C01" => {
                    p_c01::run(&mut out, tier, seed);
                    // deep nesting in a child process with an ordinary 8 MiB stack: an abort there is the replay
                    let me = std::env::current_exe().unwrap();
                    let st = std::process::Command::new(me).arg("deep-child").output();
                    let verdict = match st {
                        Ok(o) if o.status.success() && String::from_utf8_lossy(&o.stdout).contains("deep-ok") => "true".to_string(),
                        Ok(o) => format!("child died: {:?} {}", o.status, String::from_utf8_lossy(&o.stderr).lines().last().unwrap_or("")),
                        Err(e) => format!("spawn failed: {e}"),
                    };
                    out.case("expect", &["nesting of 200000 levels is an error, not a stack overflow (child process)"], &verdict, true);
                }
                "C18" => p_cas::run(&mut out, tier, seed),
                "C17" => {
                    p_simd::run(&mut out, tier, seed);
                    p_t2::simd(&mut out, tier, seed);
                }
                "C04" => p_typed::run_c04(&mut out, tier, seed),
                "C19" => p_typed::run_c19(&mut out, tier, seed),
                "C15" => p_hist::run_c15(&mut out, tier, seed),
                "C16" => p_hist::run_c16(&mut out, tier, seed),
                "C05" => p_ser::run(&mut out, tier, seed),
                "C07" => {
                    p_num::run_c07(&mut out, tier, seed);
                    p_t2::num(&mut out, tier, seed);
                }
                "C08" => p_num::run_c08(&mut out, tier, seed),
                "C03" => {
                    p_dom::run_c03(&mut out, tier, seed);
                    p_t2::dom(&mut out, tier, seed);
                }
                "C06" => p_dom::run_c06(&mut out, tier, seed),
                "C13" => p_dom::run_c13(&mut out, tier, seed),
                "C10" => p_get::run_c10(&mut out, tier, seed),
                "C11" => p_get::run_c11(&mut out, tier, seed),
                "C12" => p_get::run_c12(&mut out, tier, seed),
                "C14" => p_get::run_c14(&mut out, tier, seed),
                _ => {
                    eprintln!("unknown property {prop}");
                    std::process::exit(2);
                }
            }
            // the guard zones behind every heap block of this run (p_cas::Counting) were intact when the blocks were freed
            let over = p_cas::take_overruns();
            out.case("expect", &["no write past the end of a heap block during the whole run"], &over.map(|o| format!("heap overrun: {o}")).unwrap_or("true".into()), true);
            out.finish();
        }
        "tables" => tables::dump(&args[2]),
        "deep-child" => std::process::exit(p_c01::deep_child()),
        "f32all" => {
            let (shard, shards) = (args[2].parse().unwrap(), args[3].parse().unwrap());
            let bad = p_num::f32_all(shard, shards);
            println!("bad={bad}");
            std::process::exit(if bad == 0 { 0 } else { 1 });
        }
        "witness" => witness::run(args.get(2).map(|s| s == "deep").unwrap_or(false)),
        _ => {
            eprintln!("unknown command");
            std::process::exit(2);
        }
    }
}
