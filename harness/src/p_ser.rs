//! C05: serialization always emits well-formed JSON that denotes the serialized value.
use std::{
    io::{self, Write},
    mem::MaybeUninit,
};

use sonic_rs::writer::BufferedWriter;

use crate::{
    entry::guarded,
    out::{hex, Out},
    rng::Rng,
    sval::{self, SVal},
};

/// accepts `limit` bytes, then fails
pub struct FailWriter {
    pub limit: usize,
    pub got: Vec<u8>,
}

impl Write for FailWriter {
    fn write(&mut self, buf: &[u8]) -> io::Result<usize> {
        if self.got.len() >= self.limit {
            return Err(io::Error::new(io::ErrorKind::Other, "sink full"));
        }
        let n = buf.len().min(self.limit - self.got.len());
        self.got.extend_from_slice(&buf[..n]);
        Ok(n)
    }
    fn flush(&mut self) -> io::Result<()> {
        Ok(())
    }
}

/// a copy of `s` that ends exactly at the end of a page whose successor is not accessible
pub struct Guarded {
    base: *mut u8,
    len: usize,
    pub ptr: *const u8,
    pub n: usize,
}

impl Guarded {
    pub fn new(s: &[u8]) -> Option<Guarded> {
        unsafe {
            let page = 4096usize;
            let pages = s.len() / page + 2;
            let len = pages * page;
            let base = libc::mmap(std::ptr::null_mut(), len, libc::PROT_READ | libc::PROT_WRITE, libc::MAP_PRIVATE | libc::MAP_ANONYMOUS, -1, 0);
            if base == libc::MAP_FAILED {
                return None;
            }
            let base = base as *mut u8;
            // the last page is the guard
            if libc::mprotect(base.add(len - page) as *mut _, page, libc::PROT_NONE) != 0 {
                libc::munmap(base as *mut _, len);
                return None;
            }
            let start = base.add(len - page - s.len());
            std::ptr::copy_nonoverlapping(s.as_ptr(), start, s.len());
            Some(Guarded { base, len, ptr: start, n: s.len() })
        }
    }
    pub fn as_str(&self) -> &str {
        unsafe { std::str::from_utf8_unchecked(std::slice::from_raw_parts(self.ptr, self.n)) }
    }
}

impl Drop for Guarded {
    fn drop(&mut self) {
        unsafe {
            libc::munmap(self.base as *mut _, self.len);
        }
    }
}

/// the hook format_string on `s`: (output bytes, high-water mark of the window it touched)
fn run_format_string(s: &str, need_quote: bool) -> Result<(Vec<u8>, usize), String> {
    let cap = s.len() * 6 + 32 + 3 + 64;
    let mut dst: Vec<MaybeUninit<u8>> = vec![MaybeUninit::new(0xA5); cap];
    let n = guarded(|| sonic_rs::verif_hooks::format_string(s, &mut dst[..cap - 64], need_quote))?;
    let bytes: Vec<u8> = dst.iter().map(|b| unsafe { b.assume_init() }).collect();
    // the 64 bytes behind the reserved window must be untouched
    let hw = if bytes[cap - 64..].iter().all(|b| *b == 0xA5) { 0 } else { 1 };
    Ok((bytes[..n].to_vec(), hw))
}

pub fn string_unit(out: &mut Out, s: &str) {
    let h = hex(s.as_bytes());
    match run_format_string(s, true) {
        Ok((o, hw)) => out.case("fmtstr", &[&h, "quoted"], &format!("{}{}", hex(&o), if hw == 0 { "" } else { ";wrote-outside-window" }), s.len() > 1),
        Err(p) => out.case("fmtstr", &[&h, "quoted"], &format!("panic:{p}"), true),
    }
    // the same string placed so that it ends on a page boundary followed by an inaccessible page
    if let Some(g) = Guarded::new(s.as_bytes()) {
        match run_format_string(g.as_str(), true) {
            Ok((o, _)) => out.case("fmtstr", &[&h, "quoted, source ends at a page boundary"], &hex(&o), s.len() > 1),
            Err(p) => out.case("fmtstr", &[&h, "page"], &format!("panic:{p}"), true),
        }
    }
}

pub fn value_cases(out: &mut Out, v: &SVal, rng: &mut Rng) {
    let mut enc = String::new();
    sval::encode(v, &mut enc);
    let full = guarded(|| sonic_rs::to_string(v));
    let text = match full {
        Err(p) => {
            out.case("sercheck2", &[&enc, "", "compact"], &format!("panic:{p}"), true);
            return;
        }
        Ok(Err(_)) => {
            out.count("ser:error");
            out.case("sercheck2", &[&enc, "", "compact"], "error", true);
            return;
        }
        Ok(Ok(s)) => s,
    };
    out.count("ser:ok");
    out.case("sercheck2", &[&enc, &hex(text.as_bytes()), "compact"], "ok", true);
    if let Ok(Ok(p)) = guarded(|| sonic_rs::to_string_pretty(v)) {
        out.case("sercheck2", &[&enc, &hex(p.as_bytes()), "pretty"], "ok", true);
        out.case("prettyof", &[&hex(text.as_bytes()), &hex(p.as_bytes())], "ok", true);
    }
    // every writer produces the same bytes
    let mut same = true;
    let mut why = String::new();
    let mut check = |name: &str, r: Result<Vec<u8>, String>| match r {
        Ok(b) if b == text.as_bytes() => {}
        Ok(b) => {
            same = false;
            why = format!("{name} wrote {}", hex(&b));
        }
        Err(e) => {
            same = false;
            why = format!("{name}: {e}");
        }
    };
    check("to_vec", guarded(|| sonic_rs::to_vec(v).map_err(|e| e.to_string())).and_then(|x| x));
    check("to_writer(Vec)", guarded(|| {
        let mut w = Vec::new();
        sonic_rs::to_writer(&mut w, v).map(|_| w).map_err(|e| e.to_string())
    }).and_then(|x| x));
    check("to_writer(BufferedWriter)", guarded(|| {
        let mut sink = Vec::new();
        sonic_rs::to_writer(BufferedWriter::new(&mut sink), v).map_err(|e| e.to_string())?;
        Ok(sink)
    }).and_then(|x| x));
    check("to_writer(io::BufWriter<Vec>)", guarded(|| {
        let mut sink = Vec::new();
        {
            let w = io::BufWriter::new(&mut sink);
            sonic_rs::to_writer(w, v).map_err(|e| e.to_string())?;
        }
        Ok(sink)
    }).and_then(|x| x));
    check("to_writer(BytesMut writer)", guarded(|| {
        use bytes::BufMut;
        let w = bytes::BytesMut::new().writer();
        let mut w = w;
        sonic_rs::to_writer(&mut w, v).map_err(|e| e.to_string())?;
        Ok(w.into_inner().to_vec())
    }).and_then(|x| x));
    out.case("expect", &["all writers agree", &enc], if same { "true" } else { &why }, true);
    // a sink failing after n bytes: Err iff the output is longer than n, delivered bytes are a prefix
    for _ in 0..2 {
        let n = rng.below(text.len() + 2);
        let r = guarded(|| {
            let mut fw = FailWriter { limit: n, got: Vec::new() };
            let res = sonic_rs::to_writer(BufferedWriter::new(&mut fw), v).is_ok();
            (res, fw.got)
        });
        let verdict = match r {
            Err(p) => format!("panic:{p}"),
            Ok((ok, got)) => {
                let prefix = text.as_bytes().starts_with(&got);
                let want_ok = text.len() <= n;
                if !prefix {
                    format!("delivered bytes are not a prefix: {}", hex(&got))
                } else if ok != want_ok {
                    format!("result Ok={ok} with limit {n} and output length {}", text.len())
                } else if ok && got.len() != text.len() {
                    "Ok but output incomplete".to_string()
                } else {
                    "true".to_string()
                }
            }
        };
        out.case("expect", &["failing sink", &enc, &n.to_string()], &verdict, true);
    }
}

pub fn run(out: &mut Out, tier: &str, seed: u64) {
    let mut rng = Rng::new(seed);
    let thorough = tier == "thorough";
    // unit: the escaper on every length 0..200 with an interesting character at every position class
    let specials: &[&str] = &["\"", "\\", "\n", "\u{0}", "\u{1f}", "\u{7f}", "\u{e9}", "\u{4e2d}", "\u{1F600}", "\t", "\u{8}", "\u{c}", "\r", "\u{1e}", "/", "\u{10}"];
    for l in 0..=(if thorough { 200 } else { 100 }) {
        let positions: Vec<usize> = if thorough { (0..=l).collect() } else { vec![0, 1, l / 2, l.saturating_sub(1), l, 31.min(l), 32.min(l), 33.min(l), 63.min(l), 64.min(l)] };
        for p in positions {
            let sp = *rng.pick(specials);
            let mut s = String::new();
            for i in 0..l {
                if i == p {
                    s.push_str(sp);
                }
                s.push((b'a' + (i % 26) as u8) as char);
            }
            if p >= l {
                s.push_str(sp);
            }
            // sometimes a second special right after or far after
            if rng.chance(1, 3) {
                let sp2: &str = specials[rng.below(specials.len())];
                s.push_str(sp2);
            }
            out.count("fmtstr");
            string_unit(out, &s);
        }
    }
    for _ in 0..(if thorough { 20000 } else { 2000 }) {
        let s = sval::gen_str(&mut rng);
        string_unit(out, &s);
    }
    // values of the serde data model through every writer
    for _ in 0..(if thorough { 20000 } else { 2500 }) {
        let v = sval::gen_sval(&mut rng, 0);
        value_cases(out, &v, &mut rng);
    }
    // maps with keys that are not scalars must be rejected, not written
    for _ in 0..200 {
        let v = SVal::Map(vec![(sval::gen_key(&mut rng), sval::gen_scalar(&mut rng)), (sval::gen_bad_key(&mut rng), SVal::Bool(true))]);
        value_cases(out, &v, &mut rng);
    }
}
