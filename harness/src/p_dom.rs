//! C03 (a parsed document equals the reference data model), C06 (parse/serialize round trip and
//! fixpoint), C13 (lazy values are faithful views).
use std::collections::HashMap;

use sonic_rs::{JsonContainerTrait, JsonValueMutTrait, JsonValueTrait, LazyValue, OwnedLazyValue, Value};

use crate::{
    dump,
    entry::{guarded, to_pointer},
    gen::{self, Cfg, PathElem},
    out::{hex, Out},
    rng::Rng,
};

fn g(r: Result<Result<String, sonic_rs::Error>, String>) -> String {
    match r {
        Ok(Ok(s)) => s,
        Ok(Err(_)) => "reject".into(),
        Err(p) => format!("panic:{}", p.replace(['\t', '\n'], " ")),
    }
}

/// parse from a scratch copy of the input, then overwrite and free the copy before the value is read:
/// a returned Value owns everything it needs
fn scratch<T>(input: &[u8], f: impl FnOnce(&[u8]) -> Result<T, sonic_rs::Error>) -> Result<T, sonic_rs::Error> {
    let mut buf = input.to_vec();
    let r = f(&buf);
    for b in buf.iter_mut() {
        *b = b'7';
    }
    drop(buf);
    r
}

pub fn dom_drivers(out: &mut Out, doc: &[u8], mutated: bool) {
    let h = hex(doc);
    let nt = doc.len() > 4;
    out.case("dump", &[&h, "from_slice (in place)"], &g(guarded(|| scratch(doc, |b| sonic_rs::from_slice::<Value>(b)).map(|v| dump::dump(&v)))), nt);
    if let Ok(s) = std::str::from_utf8(doc) {
        out.case("dump", &[&h, "from_str (in place)"], &g(guarded(|| sonic_rs::from_str::<Value>(s).map(|v| dump::dump(&v)))), nt);
    }
    // embedded: the copying parser at a start offset > 0
    let mut w = b"[ 1,".to_vec();
    w.extend_from_slice(doc);
    w.push(b']');
    out.case("dump", &[&h, "element of Vec<Value> (copying)"], &g(guarded(|| scratch(&w, |b| sonic_rs::from_slice::<Vec<Value>>(b)).map(|v| dump::dump(&v[1])))), nt);
    let mut w = b"{\"a\":".to_vec();
    w.extend_from_slice(doc);
    w.push(b'}');
    out.case("dump", &[&h, "field of a struct (copying)"], &g(guarded(|| scratch(&w, |b| sonic_rs::from_slice::<crate::entry::Embedded>(b)).map(|e| dump::dump(&e.a)))), nt);
    out.case("dump", &[&h, "value of HashMap<String,Value>"], &g(guarded(|| scratch(&w, |b| sonic_rs::from_slice::<HashMap<String, Value>>(b)).map(|m| dump::dump(&m["a"])))), nt);
    if mutated {
        // the remaining drivers read the first value of their input: nothing is required of what follows
        return;
    }
    // a later document of a stream
    let mut w = b"true ".to_vec();
    w.extend_from_slice(doc);
    out.case("dump", &[&h, "second document of a stream"], &g(guarded(|| {
        scratch(&w, |b| {
            let mut st = sonic_rs::Deserializer::from_slice(b).into_stream::<Value>();
            let _ = st.next();
            match st.next() {
                Some(r) => r.map(Some),
                None => Ok(None),
            }
        })
        .map(|v| v.map(|v| dump::dump(&v)).unwrap_or("end".into()))
    })), nt);
    let b = bytes::Bytes::copy_from_slice(doc);
    out.case("dump", &[&h, "Deserializer::from_json(&Bytes)"], &g(guarded(|| sonic_rs::Deserializer::from_json(&b).deserialize::<Value>().map(|v| dump::dump(&v)))), nt);
    // configurations
    out.case("dumpraw", &[&h, "use_rawnumber"], &g(guarded(|| scratch(doc, |b| sonic_rs::Deserializer::from_slice(b).use_rawnumber().deserialize::<Value>()).map(|v| dump::dump(&v)))), nt);
    let mut w2 = b"[ 1,".to_vec();
    w2.extend_from_slice(doc);
    w2.push(b']');
    out.case("dumpraw", &[&h, "use_rawnumber, element of Vec<Value> (copying)"], &g(guarded(|| scratch(&w2, |b| sonic_rs::Deserializer::from_slice(b).use_rawnumber().deserialize::<Vec<Value>>()).map(|v| dump::dump(&v[1])))), nt);
    let mut w3 = b"null ".to_vec();
    w3.extend_from_slice(doc);
    out.case("dumpraw", &[&h, "use_rawnumber, second document of a stream"], &g(guarded(|| {
        scratch(&w3, |b| {
            let mut st = sonic_rs::Deserializer::from_slice(b).use_rawnumber().into_stream::<Value>();
            let _ = st.next();
            match st.next() {
                Some(r) => r.map(Some),
                None => Ok(None),
            }
        })
        .map(|v| v.map(|v| dump::dump(&v)).unwrap_or("end".into()))
    })), nt);
    out.case("dump", &[&h, "utf8_lossy on valid text"], &g(guarded(|| scratch(doc, |b| sonic_rs::Deserializer::from_slice(b).utf8_lossy().deserialize::<Value>()).map(|v| dump::dump(&v)))), nt);
    // a clone and a subtree clone denote the same tree
    out.case("dump", &[&h, "clone of the parsed value"], &g(guarded(|| sonic_rs::from_slice::<Value>(doc).map(|v| dump::dump(&v.clone())))), nt);
}

pub fn run_c03(out: &mut Out, tier: &str, seed: u64) {
    let mut rng = Rng::new(seed);
    let ndocs = if tier == "thorough" { 20000 } else { 2500 };
    let cfg = Cfg { dup_free: false, ..Cfg::default() };
    for i in 0..ndocs {
        let g = gen::gen_doc(&mut rng, &cfg);
        let doc = gen::render_doc(&g, &mut rng, &cfg);
        out.count("doc");
        if i % 10 == 9 {
            // rejected inputs must be rejected by every driver too (the dump says "reject")
            let (bad, _) = gen::mutate(&doc, &mut rng);
            out.count("mutated");
            dom_drivers(out, &bad, true);
        } else {
            dom_drivers(out, &doc, false);
            // the seam between the parsers and the visitor theorem: the event stream both DOM parsers hand to their
            // visitor is the event list of the reference tree (Model/Visitor.events, the premise of visitor_builds_the_tree)
            for (label, copying) in [("in-place parse_dom", false), ("copying parse_dom2", true)] {
                let r = guarded(|| sonic_rs::verif_hooks::parser::dom_events(&doc, copying));
                let ev = match r {
                    Ok(Ok(v)) => v.join(" "),
                    Ok(Err(_)) => "reject".into(),
                    Err(p) => format!("panic:{p}"),
                };
                out.case("domevents", &[&hex(&doc), label], &ev, doc.len() > 2);
            }
            out.count("event streams");
        }
    }
    // alignment sweep: the same document behind 0..130 spaces
    let g = gen::gen_doc(&mut rng, &cfg);
    let base = gen::render_doc(&g, &mut rng, &Cfg { ws: false, ..cfg.clone() });
    for pad in 0..(if tier == "thorough" { 130 } else { 70 }) {
        let mut d = vec![b' '; pad];
        d.extend_from_slice(&base);
        out.count("alignment");
        dom_drivers(out, &d, false);
    }
    // hook: Meta packing round trip
    for _ in 0..2000 {
        let kind = *rng.pick(&[sonic_rs::verif_hooks::node::ARR_NODE, sonic_rs::verif_hooks::node::OBJ_NODE, sonic_rs::verif_hooks::node::STR_NODE, sonic_rs::verif_hooks::node::RAWNUM_NODE]);
        let idx = match rng.below(4) {
            0 => rng.below(1 << 10) as u32,
            1 => (1u32 << 29) - 1 - rng.below(4) as u32,
            _ => (rng.next() as u32) & ((1 << 29) - 1),
        };
        let len = rng.next() as u32 >> rng.below(32);
        let (word, i2, l2) = sonic_rs::verif_hooks::node::meta_pack_unpack(kind, idx, len);
        out.case("metapack", &[&kind.to_string(), &idx.to_string(), &len.to_string()], &format!("{word:x},{i2},{l2}"), true);
    }
}

pub fn run_c06(out: &mut Out, tier: &str, seed: u64) {
    let mut rng = Rng::new(seed);
    let ndocs = if tier == "thorough" { 20000 } else { 1200 };
    let cfg = Cfg { dup_free: false, ..Cfg::default() };
    for _ in 0..ndocs {
        let gt = gen::gen_doc(&mut rng, &cfg);
        let doc = gen::render_doc(&gt, &mut rng, &cfg);
        let h = hex(&doc);
        out.count("doc");
        let r = guarded(|| -> Result<(String, String, String, String, String, String), sonic_rs::Error> {
            let v: Value = sonic_rs::from_slice(&doc)?;
            let s1 = sonic_rs::to_string(&v)?;
            let v2: Value = sonic_rs::from_str(&s1)?;
            let s2 = sonic_rs::to_string(&v2)?;
            let disp = format!("{v}");
            let vecs = String::from_utf8_lossy(&sonic_rs::to_vec(&v)?).to_string();
            let pretty = sonic_rs::to_string_pretty(&v)?;
            let vp: Value = sonic_rs::from_str(&pretty)?;
            let pretty2 = sonic_rs::to_string_pretty(&vp)?;
            let _ = pretty2;
            Ok((s1, s2, disp, vecs, pretty, dump::dump(&v2)))
        });
        match r {
            Err(p) => out.case("sercheck", &[&h, "", "compact"], &format!("panic:{p}"), true),
            Ok(Err(e)) => out.case("sercheck", &[&h, "", "compact"], &format!("error:{}", e.to_string().lines().next().unwrap_or("")), true),
            Ok(Ok((s1, s2, disp, vecs, pretty, d2))) => {
                // the serialized text denotes the same tree and is exactly the canonical compact form
                // feature builds: sort_keys -> members sorted (stable), nothing else changes;
                // arbitrary_precision -> every number literal verbatim
                let (mc, mp) = if cfg!(feature = "sort_keys") {
                    ("compact-sorted", "pretty-sorted")
                } else if cfg!(feature = "arbitrary_precision") {
                    ("compactraw", "prettyraw")
                } else {
                    ("compact", "pretty")
                };
                out.case("sercheck", &[&h, &hex(s1.as_bytes()), mc], "ok", true);
                out.case("sercheck", &[&h, &hex(pretty.as_bytes()), mp], "ok", true);
                // re-parsed value equals the reference tree of the source
                if !cfg!(feature = "sort_keys") {
                    out.case(if cfg!(feature = "arbitrary_precision") { "dumpraw" } else { "dump" }, &[&h, "reparse of to_string"], &d2, true);
                }
                // fixpoint and agreement of Display / to_string / to_vec (compared inside the implementation)
                let same = s1 == s2 && s1 == disp && s1 == vecs;
                out.case("expect", &["fixpoint+display+to_vec", &h], if same { "true" } else { "false" }, true);
                // ... and every writer route gives the same bytes, also through sinks that accept a few bytes per call
                let routes = guarded(|| -> Result<bool, String> {
                    let v: Value = sonic_rs::from_slice(&doc).map_err(|e| e.to_string())?;
                    struct Chunky(Vec<u8>, usize);
                    impl std::io::Write for Chunky {
                        fn write(&mut self, b: &[u8]) -> std::io::Result<usize> {
                            let n = b.len().min(self.1).max(usize::from(!b.is_empty()));
                            self.0.extend_from_slice(&b[..n]);
                            Ok(n)
                        }
                        fn flush(&mut self) -> std::io::Result<()> {
                            Ok(())
                        }
                    }
                    let mut all = true;
                    for chunk in [1usize, 3, 7, 64] {
                        let mut sink = Chunky(Vec::new(), chunk);
                        sonic_rs::to_writer(sonic_rs::writer::BufferedWriter::new(&mut sink), &v).map_err(|e| e.to_string())?;
                        all &= sink.0 == s1.as_bytes();
                        let mut sink = Chunky(Vec::new(), chunk);
                        {
                            let w = std::io::BufWriter::with_capacity(5, &mut sink);
                            sonic_rs::to_writer(sonic_rs::writer::BufferedWriter::new(w), &v).map_err(|e| e.to_string())?;
                        }
                        all &= sink.0 == s1.as_bytes();
                        let mut sink = Chunky(Vec::new(), chunk);
                        sonic_rs::to_writer_pretty(sonic_rs::writer::BufferedWriter::new(&mut sink), &v).map_err(|e| e.to_string())?;
                        all &= sink.0 == pretty.as_bytes();
                    }
                    let mut bm = bytes::BytesMut::new();
                    sonic_rs::to_writer(bytes::BufMut::writer(&mut bm), &v).map_err(|e| e.to_string())?;
                    all &= &bm[..] == s1.as_bytes();
                    Ok(all)
                });
                out.case("expect", &["to_writer through every sink gives the bytes of to_string", &h], &match routes {
                    Ok(Ok(true)) => "true".to_string(),
                    Ok(Ok(false)) => "false".to_string(),
                    Ok(Err(e)) => format!("error:{e}"),
                    Err(p) => format!("panic:{p}"),
                }, true);
            }
        }
        // raw-number mode: every number literal is reproduced verbatim
        let r = guarded(|| -> Result<String, sonic_rs::Error> {
            let v: Value = sonic_rs::Deserializer::from_slice(&doc).use_rawnumber().deserialize()?;
            sonic_rs::to_string(&v)
        });
        match r {
            Ok(Ok(s)) => {
                if !cfg!(feature = "sort_keys") {
                    out.case("sercheck", &[&h, &hex(s.as_bytes()), "compactraw"], "ok", true)
                }
            }
            Ok(Err(_)) => out.case("sercheck", &[&h, "", "compactraw"], "error", true),
            Err(p) => out.case("sercheck", &[&h, "", "compactraw"], &format!("panic:{p}"), true),
        }
    }
}

// ---------------------------------------------------------------- C13

fn type_name(t: sonic_rs::JsonType) -> &'static str {
    match t {
        sonic_rs::JsonType::Null => "null",
        sonic_rs::JsonType::Boolean => "bool",
        sonic_rs::JsonType::Number => "number",
        sonic_rs::JsonType::String => "string",
        sonic_rs::JsonType::Object => "object",
        sonic_rs::JsonType::Array => "array",
    }
}

fn accessors<T: JsonValueTrait>(v: &T) -> String {
    let mut s = format!("type={}", type_name(v.get_type()));
    s.push_str(&format!(";bool={}", v.as_bool().map(|b| b.to_string()).unwrap_or("-".into())));
    s.push_str(";num=");
    match v.as_number() {
        Some(n) => dump::dump_number(&n, &mut s),
        None => s.push('-'),
    }
    s.push_str(&format!(";str={}", v.as_str().map(|x| hex(x.as_bytes())).unwrap_or("-".into())));
    s.push_str(&format!(";raw={}", v.as_raw_number().map(|x| hex(x.as_str().as_bytes())).unwrap_or("-".into())));
    s.push_str(&format!(";is={}{}{}{}{}{}", v.is_null() as u8, v.is_boolean() as u8, v.is_number() as u8, v.is_str() as u8, v.is_array() as u8, v.is_object() as u8));
    s
}

pub fn lazy_cases(out: &mut Out, doc: &[u8], path: &[PathElem], rng: &mut Rng) {
    let p = to_pointer(path);
    // the raw text of the sub-value the path leads to
    let Ok(lv) = sonic_rs::get_from_slice(doc, p.iter()) else { return };
    let raw = lv.as_raw_str().as_bytes().to_vec();
    let h = hex(&raw);
    let nt = raw.len() > 1;
    let pg = |r: Result<String, String>| r.unwrap_or_else(|p| format!("panic:{}", p.replace(['\t', '\n'], " ")));
    out.count("subvalue");
    out.case("lazyacc", &[&h, "LazyValue from get"], &pg(guarded(|| accessors(&lv))), nt);
    out.case("lazyacc", &[&h, "LazyValue from serde"], &pg(guarded(|| sonic_rs::from_slice::<LazyValue>(&raw).map(|l| accessors(&l)).unwrap_or("reject".into()))), nt);
    out.case("lazyacc", &[&h, "LazyValue clone"], &pg(guarded(|| accessors(&lv.clone()))), nt);
    out.case("lazyacc", &[&h, "OwnedLazyValue from LazyValue"], &pg(guarded(|| accessors(&OwnedLazyValue::from(lv.clone())))), nt);
    out.case("lazyacc", &[&h, "OwnedLazyValue from serde"], &pg(guarded(|| sonic_rs::from_slice::<OwnedLazyValue>(&raw).map(|l| accessors(&l)).unwrap_or("reject".into()))), nt);
    out.case("lazyacc", &[&h, "OwnedLazyValue clone"], &pg(guarded(|| sonic_rs::from_slice::<OwnedLazyValue>(&raw).map(|l| accessors(&l.clone())).unwrap_or("reject".into()))), nt);
    out.case("lazyacc", &[&h, "to_lazyvalue of the DOM"], &pg(guarded(|| {
        let v: Value = sonic_rs::from_slice(&raw).map_err(|_| ()).unwrap();
        let o = sonic_rs::to_lazyvalue(&v).unwrap();
        // re-serialization may reformat numbers: compare through the DOM accessors of its text
        let v2: Value = sonic_rs::from_str(&sonic_rs::to_string(&o).unwrap()).unwrap();
        if v2 == v { accessors(&sonic_rs::from_slice::<OwnedLazyValue>(&raw).unwrap()) } else { "to_lazyvalue changed the value".into() }
    })), nt);
    // ... and the owned lazy value it returns is a view of the text it holds
    if let Ok(v) = sonic_rs::from_slice::<Value>(&raw) {
        if let Ok(text) = sonic_rs::to_string(&v) {
            out.case("lazyacc", &[&hex(text.as_bytes()), "the value returned by to_lazyvalue"], &pg(guarded(|| accessors(&sonic_rs::to_lazyvalue(&v).unwrap()))), nt);
        }
    }
    // the unchecked routes
    if let Ok(lu) = unsafe { sonic_rs::get_unchecked(doc, p.iter()) } {
        let hu = hex(lu.as_raw_str().as_bytes());
        out.case("lazyacc", &[&hu, "LazyValue from get_unchecked"], &pg(guarded(|| accessors(&lu))), nt);
        out.case("lazyacc", &[&hu, "OwnedLazyValue from LazyValue (get_unchecked)"], &pg(guarded(|| accessors(&OwnedLazyValue::from(lu.clone())))), nt);
    }
    // children handed out by the iterators (checked, unchecked, into_*_iter): each is a lazy value of its own raw text
    {
        let mut kids: Vec<(String, LazyValue)> = Vec::new();
        if lv.is_array() {
            for x in sonic_rs::to_array_iter(&raw[..]).flatten() {
                kids.push(("to_array_iter".into(), x));
            }
            for x in unsafe { sonic_rs::to_array_iter_unchecked(&raw[..]) }.flatten() {
                kids.push(("to_array_iter_unchecked".into(), x));
            }
            if let Some(it) = lv.clone().into_array_iter() {
                for x in it.flatten() {
                    kids.push(("into_array_iter".into(), x));
                }
            }
        } else if lv.is_object() {
            for (_, x) in sonic_rs::to_object_iter(&raw[..]).flatten() {
                kids.push(("to_object_iter".into(), x));
            }
            for (_, x) in unsafe { sonic_rs::to_object_iter_unchecked(&raw[..]) }.flatten() {
                kids.push(("to_object_iter_unchecked".into(), x));
            }
            if let Some(it) = lv.clone().into_object_iter() {
                for (_, x) in it.flatten() {
                    kids.push(("into_object_iter".into(), x));
                }
            }
        }
        for (route, k) in kids.into_iter().take(24) {
            let hk = hex(k.as_raw_str().as_bytes());
            out.case("lazyacc", &[&hk, "child LazyValue", &route], &pg(guarded(|| accessors(&k))), true);
            out.case("lazyacc", &[&hk, "child OwnedLazyValue::from", &route], &pg(guarded(|| accessors(&OwnedLazyValue::from(k.clone())))), true);
        }
    }
    // verbatim serialization
    out.case("echo", &[&h, "to_string(LazyValue)"], &pg(guarded(|| hex(sonic_rs::to_string(&lv).unwrap_or_default().as_bytes()))), nt);
    out.case("echo", &[&h, "to_string(OwnedLazyValue raw)"], &pg(guarded(|| hex(sonic_rs::to_string(&sonic_rs::from_slice::<OwnedLazyValue>(&raw).unwrap()).unwrap_or_default().as_bytes()))), nt);
    out.case("echo", &[&h, "to_string(OwnedLazyValue from LazyValue)"], &pg(guarded(|| hex(sonic_rs::to_string(&OwnedLazyValue::from(lv.clone())).unwrap_or_default().as_bytes()))), nt);
    // deserialize-then-serialize of a lazy value reproduces the trimmed input
    let mut padded = b" \n".to_vec();
    padded.extend_from_slice(&raw);
    padded.extend_from_slice(b"\t ");
    out.case("echo", &[&h, "de+ser of padded LazyValue"], &pg(guarded(|| hex(sonic_rs::to_string(&sonic_rs::from_slice::<LazyValue>(&padded).unwrap()).unwrap_or_default().as_bytes()))), nt);
    // the DOM of the lazy value equals the DOM of its raw text
    out.case("dump", &[&h, "Value::try_from(LazyValue)"], &pg(guarded(|| Value::try_from(lv.clone()).map(|v| dump::dump(&v)).unwrap_or("reject".into()))), nt);
    // children through the owned-lazy views
    out.case("dump", &[&h, "OwnedLazyValue walked through as_array/as_object"], &pg(guarded(|| {
        let o: OwnedLazyValue = sonic_rs::from_slice(&raw).unwrap();
        let mut s = String::new();
        walk_owned(&o, &mut s);
        s
    })), nt);
    // mutation of an owned-lazy container: push/replace one element, everything else unchanged
    let o: Option<OwnedLazyValue> = sonic_rs::from_slice(&raw).ok();
    if let Some(mut o) = o {
        if o.is_array() {
            let k = rng.below(3);
            let r = guarded(|| {
                let before = o.clone();
                let arr = o.as_array_mut().unwrap();
                let n = arr.len();
                let newv: OwnedLazyValue = sonic_rs::from_str("{\"new\":[1,\"x\"]}").unwrap();
                let opname;
                if k == 0 || n == 0 {
                    arr.push(newv);
                    opname = format!("push");
                } else if k == 1 {
                    let i = n - 1;
                    arr[i] = newv;
                    opname = format!("replace{i}");
                } else {
                    let i = 0;
                    let _old = arr[i].take();
                    opname = format!("take{i}");
                }
                let text = sonic_rs::to_string(&o).unwrap();
                // the clone taken before the mutation still serializes to the original text
                let before_text = sonic_rs::to_string(&before).unwrap();
                (opname, text, before_text)
            });
            match r {
                Ok((opname, text, before_text)) => {
                    out.case("lazymut", &[&h, &opname, &hex(text.as_bytes())], "ok", true);
                    out.case("echo", &[&h, "clone taken before the mutation"], &hex(before_text.as_bytes()), true);
                }
                Err(p) => out.case("lazymut", &[&h, "?", ""], &format!("panic:{p}"), true),
            }
        }
    }
}

/// write through get_mut(key) on an owned-lazy object; duplicates allowed: the first member is addressed
pub fn lazy_object_mutation(out: &mut Out, raw: &[u8], key: &str) {
    let h = hex(raw);
    let r = guarded(|| -> Option<(String, Option<String>)> {
        let mut o: OwnedLazyValue = sonic_rs::from_slice(raw).ok()?;
        if !o.is_object() {
            return None;
        }
        let newv: OwnedLazyValue = sonic_rs::from_str("{\"new\":[1,\"x\"]}").unwrap();
        let before_get = o.get(key).map(|v| sonic_rs::to_string(v).unwrap_or_default());
        match o.get_mut(key) {
            Some(slot) => *slot = newv,
            None => return Some(("absent".into(), before_get)),
        }
        Some((sonic_rs::to_string(&o).unwrap_or_default(), before_get))
    });
    match r {
        Ok(Some((text, _))) => out.case("lazymutobj", &[&h, &hex(key.as_bytes()), &hex(text.as_bytes())], "ok", true),
        Ok(None) => {}
        Err(p) => out.case("lazymutobj", &[&h, &hex(key.as_bytes()), ""], &format!("panic:{p}"), true),
    }
}

fn walk_owned(o: &OwnedLazyValue, s: &mut String) {
    if let Some(a) = o.as_array() {
        s.push('[');
        for (i, x) in a.iter().enumerate() {
            if i > 0 {
                s.push(',');
            }
            walk_owned(x, s);
        }
        s.push(']');
    } else if let Some(ob) = o.as_object() {
        s.push('{');
        for (i, (k, x)) in ob.iter().enumerate() {
            if i > 0 {
                s.push(',');
            }
            s.push_str(&hex(k.as_bytes()));
            s.push(':');
            walk_owned(x, s);
        }
        s.push('}');
    } else if o.is_null() {
        s.push('n');
    } else if let Some(b) = o.as_bool() {
        s.push(if b { 't' } else { 'f' });
    } else if let Some(n) = o.as_number() {
        dump::dump_number(&n, s);
    } else if let Some(x) = o.as_str() {
        s.push('s');
        s.push_str(&hex(x.as_bytes()));
    } else {
        s.push('?');
    }
}

pub fn run_c13(out: &mut Out, tier: &str, seed: u64) {
    let mut rng = Rng::new(seed);
    let ndocs = if tier == "thorough" { 10000 } else { 1200 };
    let (cfg0, cfgd) = (Cfg { dup_free: true, ..Cfg::default() }, Cfg { dup_free: false, ..Cfg::default() });
    for i in 0..ndocs {
        // one document in three may repeat member names (get answers with the first occurrence)
        let cfg = if i % 3 == 2 { &cfgd } else { &cfg0 };
        let gt = gen::gen_doc(&mut rng, cfg);
        let doc = gen::render_doc(&gt, &mut rng, cfg);
        let mut paths = Vec::new();
        gen::all_paths(&gt, &mut Vec::new(), &mut paths);
        for _ in 0..paths.len().min(5) {
            let p = paths[rng.below(paths.len())].clone();
            lazy_cases(out, &doc, &p, &mut rng);
        }
    }
    // objects with duplicate names: get and get_mut address the first member
    let dcfg = Cfg { dup_free: false, max_depth: 2, ..Cfg::default() };
    for _ in 0..(ndocs / 2) {
        let gt = gen::gen_doc(&mut rng, &dcfg);
        if let gen::G::Obj(ms) = &gt {
            let doc = gen::render_doc(&gt, &mut rng, &dcfg);
            let mut ms2 = ms.clone();
            // force a duplicate in half of the cases
            let mut doc = doc;
            if !ms2.is_empty() && rng.chance(1, 2) {
                let dup = ms2[rng.below(ms2.len())].clone();
                ms2.push((dup.0.clone(), dup.1.clone(), gen::G::Num("424242".into())));
                doc = gen::render_doc(&gen::G::Obj(ms2.clone()), &mut rng, &dcfg);
            }
            let key = if ms2.is_empty() || rng.chance(1, 6) { "absent".to_string() } else { ms2[rng.below(ms2.len())].0.clone() };
            out.count("objmutation");
            lazy_object_mutation(out, &doc, &key);
        }
    }
    // every scalar literal directly
    for lit in ["true", "false", "null", "0", "-0", "1.5", "\"\"", "\"a\\nb\"", "[]", "{}", "[true]", "{\"a\":null}"] {
        lazy_cases(out, lit.as_bytes(), &[], &mut rng);
    }
}
