//! Replays the recorded witness of every finding of DESIGN.md section 7 against the real code.
//! One line per finding: `Fnn FAIL|ok <what was observed>`; FAIL = the property is violated.
use std::io::Write;

use sonic_rs::{JsonContainerTrait, JsonValueMutTrait, JsonValueTrait, LazyValue, OwnedLazyValue, Value};

use crate::entry::guarded;

fn line(id: &str, fail: bool, what: String) {
    println!("{id} {} {}", if fail { "FAIL" } else { "ok" }, what.replace('\n', " "));
}

pub fn run(deep: bool) {
    // F2: skip path does not check \u hex digits
    {
        let a = sonic_rs::from_str::<LazyValue>("\"\\uZZZZ\"").is_ok();
        let b = sonic_rs::get_from_str(r#"{"a":"\uZZZZ","b":1}"#, &["b"]).is_ok();
        line("F2", a || b, format!("LazyValue accepts \\uZZZZ: {a}; get skips over it: {b}"));
    }
    // F3: checked get skips garbage before the first key
    {
        let a = sonic_rs::get_from_str("{ xyz \"a\": 1}", &["a"]).map(|v| v.as_raw_str().to_string());
        line("F3", a.is_ok(), format!("get(\"{{ xyz \\\"a\\\": 1}}\", [a]) = {a:?}"));
    }
    // F4: OwnedLazyValue::as_array on a raw value
    {
        let r = guarded(|| sonic_rs::from_str::<OwnedLazyValue>("[1,2]").unwrap().as_array().map(|a| a.len()));
        line("F4", r.is_err(), format!("as_array().len() on raw owned lazy value: {r:?}"));
    }
    // F5: unchecked iterator spans include trailing whitespace
    {
        let v: Vec<String> = unsafe { sonic_rs::to_array_iter_unchecked("[1 , 2 ]") }.map(|x| x.map(|l| l.as_raw_str().to_string()).unwrap_or_default()).collect();
        line("F5", v != vec!["1", "2"], format!("to_array_iter_unchecked(\"[1 , 2 ]\") spans = {v:?}"));
    }
    // F6: duplicate names: first-wins before promotion, last-wins after
    {
        let mut v: Value = sonic_rs::from_str(r#"{"a":1,"a":2}"#).unwrap();
        let before = v.get("a").and_then(|x| x.as_u64());
        v.as_object_mut().unwrap().insert(&"b", 0);
        let after = v.get("a").and_then(|x| x.as_u64());
        line("F6", before != after, format!("get(a) before insert = {before:?}, after = {after:?}"));
    }
    // F7: Object equality asymmetric with duplicate names
    {
        let a: Value = sonic_rs::from_str(r#"{"a":1,"a":2}"#).unwrap();
        let b: Value = sonic_rs::from_str(r#"{"a":1,"b":2}"#).unwrap();
        line("F7", (a == b) != (b == a), format!("a==b: {}, b==a: {}", a == b, b == a));
    }
    // F8: lossy copying decoder eats six bytes after a lone high surrogate
    {
        let mut de = sonic_rs::Deserializer::from_str("[\"\\ud800\",\"abc\"]").utf8_lossy();
        let r: Result<Vec<String>, _> = de.deserialize();
        let bad = !matches!(&r, Ok(v) if v.len() == 2 && v[1] == "abc");
        line("F8", bad, format!("lossy Vec<String> of [\"\\ud800\",\"abc\"] = {r:?}"));
    }
    // F9: IntoIter::as_slice on an empty array
    {
        let r = guarded(|| sonic_rs::Array::new().into_iter().as_slice().len());
        line("F9", r.is_err(), format!("Array::new().into_iter().as_slice(): {r:?}"));
    }
    // F10: negative zero
    {
        let a = sonic_rs::from_str::<f64>("-0.0").map(|x| x.to_bits());
        let b = sonic_rs::from_str::<f64>("-0").map(|x| x.to_bits());
        let s = sonic_rs::to_string(&-0.0f64).unwrap();
        let c = sonic_rs::from_str::<f64>(&s).map(|x| x.to_bits());
        let neg = (-0.0f64).to_bits();
        line("F10", a.as_ref().ok() != Some(&neg) || b.as_ref().ok() != Some(&neg) || c.as_ref().ok() != Some(&neg), format!("-0.0 -> {a:x?}; -0 -> {b:x?}; round trip of {s} -> {c:x?}"));
    }
    // F11: exponent saturation
    {
        let lit = format!("0.{}1e10000", "0".repeat(9999));
        let a = sonic_rs::from_str::<f64>(&lit);
        let lit2 = format!("1{}e-20000", "0".repeat(20000));
        let b = sonic_rs::from_str::<f64>(&lit2);
        line("F11", !matches!(a, Ok(x) if x == 1.0) || !matches!(b, Ok(x) if x == 1.0), format!("0.(9999 zeros)1e10000 -> {a:?}; 1(20000 zeros)e-20000 -> {b:?}"));
    }
    // F12: io::BufWriter ordering
    {
        let mut v: Vec<u8> = Vec::new();
        {
            let w = std::io::BufWriter::new(&mut v);
            let _ = sonic_rs::to_writer(w, &["a", "b"]);
        }
        let s = String::from_utf8_lossy(&v).to_string();
        line("F12", s != "[\"a\",\"b\"]", format!("to_writer(BufWriter, [a,b]) = {s}"));
    }
    // F13: inline FastStr carrier: borrowed output must point into the caller's bytes
    {
        let fs = faststr::FastStr::new("\"hello\"");
        let inside = {
            let mut de = sonic_rs::Deserializer::from_json(&fs);
            let s: &str = de.deserialize().unwrap();
            let p = s.as_ptr() as usize;
            let base = fs.as_ptr() as usize;
            p >= base && p < base + fs.len()
        };
        line("F13", !inside, format!("&str deserialized from an inline FastStr points into the caller's FastStr: {inside}"));
    }
    // F15 is replayed by the C18 scheduler check (needs the atomic shim)
    // F16: Simd::gt on unsigned vectors
    {
        use sonic_simd::Simd;
        let r = guarded(|| {
            let a = sonic_simd::u8x32::splat(3);
            let b = sonic_simd::u8x32::splat(2);
            let _ = a.gt(&b);
        });
        line("F16", r.is_err(), format!("u8x32::gt: {r:?}"));
    }
    // F17: line/column computed from the rewritten copy
    {
        let e = sonic_rs::from_str::<Value>("[\"\\n\u{e9}").unwrap_err();
        let (l, c) = (e.line(), e.column());
        line("F17", l != 1, format!("from_str::<Value>([\"\\n\u{e9}) error at line {l} column {c} offset {}", e.offset()));
    }
    // F18: lossy feature, whole-input DOM
    // (needs the utf8_lossy feature build; replayed by C09 in that build)
    // F20: OwnedLazyValue::from(LazyValue) of a literal
    {
        let r = guarded(|| {
            let lv = sonic_rs::get_from_str(r#"{"a":true}"#, &["a"]).unwrap();
            let o = OwnedLazyValue::from(lv);
            o.as_bool()
        });
        line("F20", !matches!(r, Ok(Some(true))), format!("OwnedLazyValue::from(lazy true).as_bool() = {r:?}"));
    }
    // F22: quoted numeric map key with leading whitespace
    {
        let r = sonic_rs::from_str::<std::collections::HashMap<i32, bool>>("{\" 1\":true}");
        line("F22", r.is_ok(), format!("HashMap<i32,bool> from {{\" 1\":true}} = {r:?}"));
    }
    // F23: root-level unterminated string through Deserializer::deserialize
    {
        let r = guarded(|| {
            let mut de = sonic_rs::Deserializer::from_str("\"abc");
            let a = de.deserialize::<Value>().map(|v| v.to_string());
            let b = guarded(|| de.deserialize::<Value>().map(|v| v.to_string()));
            (a, b)
        });
        let bad = match &r {
            Ok((Ok(_), _)) => true,
            Ok((_, Err(_))) => true,
            Err(_) => true,
            _ => false,
        };
        line("F23", bad, format!("Deserializer::from_str(\"abc).deserialize::<Value>() twice = {r:?}"));
    }
    // F24: to_value of f32
    {
        let a = sonic_rs::to_value(&0.1f32).unwrap();
        let b: Value = sonic_rs::from_str(&sonic_rs::to_string(&0.1f32).unwrap()).unwrap();
        line("F24", a != b, format!("to_value(0.1f32) = {a}, DOM of to_string = {b}"));
    }
    // F25: empty input, debug arithmetic
    {
        let r = guarded(|| sonic_rs::from_str::<LazyValue>("").is_ok());
        line("F25", r.is_err(), format!("from_str::<LazyValue>(\"\") = {r:?}"));
    }
    // F26: get_many with an escaped key before a nested path
    {
        let r = guarded(|| {
            let mut t = sonic_rs::PointerTree::new();
            t.add_path(&["a\n", "b"]);
            t.add_path(&["c", "d"]);
            sonic_rs::get_many(r#"{"a\n":{"b":1},"c":{"d":2}}"#, &t).map(|v| v.len())
        });
        line("F26", r.is_err(), format!("get_many with an escaped key: {r:?}"));
    }
    std::io::stdout().flush().unwrap();
    // F1 last: it aborts the process when present (stack overflow)
    if deep {
        let n = 100_000;
        let doc = format!("{}{}", "[".repeat(n), "]".repeat(n));
        let r = sonic_rs::from_str::<Value>(&doc);
        line("F1", false, format!("[ x {n}: Value -> {}", if r.is_ok() { "Ok".to_string() } else { format!("{}", r.unwrap_err()).lines().next().unwrap_or("").to_string() }));
        let r = sonic_rs::from_str::<LazyValue>(&doc);
        line("F1", false, format!("[ x {n}: LazyValue -> ok={}", r.is_ok()));
        let r = sonic_rs::from_str::<serde::de::IgnoredAny>(&doc);
        line("F1", false, format!("[ x {n}: IgnoredAny -> ok={}", r.is_ok()));
        let r = sonic_rs::from_str::<serde_json::Value>(&doc);
        line("F1", false, format!("[ x {n}: serde_json::Value -> ok={}", r.is_ok()));
        let r = sonic_rs::get_from_str(&doc, &[0usize, 0]);
        line("F1", false, format!("[ x {n}: get -> ok={}", r.is_ok()));
    }
}
