//! C09: string literals decode exactly, at every length and alignment.
use std::{borrow::Cow, collections::HashMap};

use serde::Deserialize;
use sonic_rs::{JsonValueTrait, LazyValue, Value};

use crate::{
    entry::guarded,
    out::{hex, Out},
    rng::Rng,
};

#[derive(Deserialize)]
struct Borrowing<'a> {
    #[serde(borrow)]
    s: Cow<'a, str>,
}

fn fmt_dec(r: Result<Result<(Vec<u8>, Option<bool>), sonic_rs::Error>, String>, with_flag: bool) -> String {
    match r {
        Err(p) => format!("panic:{}", p.replace(['\t', '\n'], " ")),
        Ok(Err(_)) => "err".into(),
        Ok(Ok((d, b))) => {
            if with_flag {
                format!("ok:{}:{}", hex(&d), if b == Some(true) { "borrowed" } else { "copied" })
            } else {
                format!("ok:{}", hex(&d))
            }
        }
    }
}

/// run every decoder on the literal `lit` (a candidate JSON string literal, quotes included)
pub fn decoders(out: &mut Out, lit: &[u8], pad: usize, rng: &mut Rng) {
    // candidates are string literals: after a mutation removed the opening quote the case is another value
    if lit.iter().find(|c| !b" \t\n\r".contains(c)) != Some(&b'"') {
        out.count("not-a-literal-skipped");
        return;
    }
    let h = hex(lit);
    let nt = lit.len() > 2;
    // strict decoders, whole input = the literal
    let r = guarded(|| sonic_rs::from_slice::<String>(lit).map(|s| (s.into_bytes(), None)));
    out.case("strdec", &["strict", &h, "String"], &fmt_dec(r, false), nt);
    let r = guarded(|| sonic_rs::from_slice::<Value>(lit).map(|v| (v.as_str().unwrap_or("\u{1}notstr").as_bytes().to_vec(), None)));
    out.case("strdec", &["strict", &h, "Value(in place)"], &fmt_dec(r, false), nt);
    let r = guarded(|| sonic_rs::from_slice::<LazyValue>(lit).map(|v| (v.as_str().unwrap_or("\u{1}notstr").as_bytes().to_vec(), None)));
    out.case("strdec", &["lazy", &h, "LazyValue::as_str"], &fmt_dec(r, false), nt);
    // borrowed iff no escape
    let r = guarded(|| {
        sonic_rs::from_slice::<&str>(lit).map(|s| (s.as_bytes().to_vec(), Some(true)))
    });
    out.case("strdec", &["borrowonly", &h, "&str"], &fmt_dec(r, true), nt);
    // embedded at an offset: the literal's position moves relative to the 32-byte blocks
    let mut w: Vec<u8> = vec![b' '; pad];
    w.extend_from_slice(b"[1,");
    w.extend_from_slice(lit);
    w.extend_from_slice(b" ,2]");
    let padarg = format!("pad{pad}");
    let r = guarded(|| {
        sonic_rs::from_slice::<Value>(&w).map(|v| {
            let s = v.get(1).and_then(|x| x.as_str().map(|s| s.as_bytes().to_vec()));
            (s.unwrap_or_else(|| b"\x01notstr".to_vec()), None)
        })
    });
    out.case("strdec", &["strict", &h, "Value(in place)@", &padarg], &fmt_dec(r, false), nt);
    let r = guarded(|| {
        sonic_rs::from_slice::<(i32, String, i32)>(&w).map(|t| (t.1.into_bytes(), None))
    });
    out.case("strdec", &["strict", &h, "String@", &padarg], &fmt_dec(r, false), nt);
    let r = guarded(|| {
        sonic_rs::from_slice::<(i32, Value, i32)>(&w).map(|t| (t.1.as_str().unwrap_or("\u{1}notstr").as_bytes().to_vec(), None))
    });
    out.case("strdec", &["strict", &h, "Value(copying)@", &padarg], &fmt_dec(r, false), nt);
    let r = guarded(|| {
        sonic_rs::get_from_slice(&w, &[1usize]).map(|lv| (lv.as_str().unwrap_or("\u{1}notstr").as_bytes().to_vec(), None))
    });
    out.case("strdec", &["lazyprefix", &h, "get+as_str@", &padarg], &fmt_dec(r, false), nt);
    // as an object key and as a borrowing struct field
    let mut k: Vec<u8> = vec![b' '; pad % 7];
    k.push(b'{');
    k.extend_from_slice(lit);
    k.extend_from_slice(b":1}");
    let r = guarded(|| {
        sonic_rs::from_slice::<HashMap<String, i32>>(&k).map(|m| (m.into_keys().next().unwrap_or_default().into_bytes(), None))
    });
    out.case("strdec", &["strict", &h, "map key"], &fmt_dec(r, false), nt);
    let r = guarded(|| {
        sonic_rs::from_slice::<Value>(&k).map(|v| {
            use sonic_rs::JsonContainerTrait;
            let key = v.as_object().and_then(|o| o.iter().next().map(|(k, _)| k.as_bytes().to_vec()));
            (key.unwrap_or_else(|| b"\x01nokey".to_vec()), None)
        })
    });
    out.case("strdec", &["strict", &h, "Value object key"], &fmt_dec(r, false), nt);
    // the lazy object iterator yields the first member as soon as key, colon and value are there: a
    // "literal" with an interior closing quote (`"ab": 1, x"`) is then a different document for it than
    // for the entry points that read the whole text; it is judged by the iterator suite (C12), not here
    let single_literal = {
        let mut i = 1usize;
        let mut end = None;
        while i < lit.len() {
            match lit[i] {
                b'\\' => i += 2,
                b'"' => {
                    end = Some(i);
                    break;
                }
                _ => i += 1,
            }
        }
        lit.first() != Some(&b'"') || end == Some(lit.len() - 1) || end.is_none()
    };
    if !single_literal {
        out.count("iterator key case left to C12 (interior closing quote)");
    } else {
        let r = guarded(|| {
            let mut it = sonic_rs::to_object_iter(&k[..]);
            match it.next() {
                Some(Ok((key, _))) => Ok((key.as_bytes().to_vec(), Some(matches!(key, Cow::Borrowed(_))))),
                Some(Err(e)) => Err(e),
                None => Ok((b"\x01none".to_vec(), None)),
            }
        });
        out.case("strdec", &["strictflag", &h, "object iter key"], &fmt_dec(r, true), nt);
    }
    let mut b: Vec<u8> = b"{\"s\":".to_vec();
    b.extend_from_slice(lit);
    b.push(b'}');
    let r = guarded(|| {
        sonic_rs::from_slice::<Borrowing>(&b).map(|x| (x.s.as_bytes().to_vec(), Some(matches!(x.s, Cow::Borrowed(_)))))
    });
    out.case("strdec", &["strictflag", &h, "Cow field"], &fmt_dec(r, true), nt);
    // skip-only
    let r = guarded(|| sonic_rs::from_slice::<serde::de::IgnoredAny>(lit));
    let v = match r {
        Ok(Ok(_)) => "1".to_string(),
        Ok(Err(_)) => "0".to_string(),
        Err(p) => format!("panic:{p}"),
    };
    out.case("strskip", &[&h, "IgnoredAny"], &v, nt);
    // lossy mode
    if rng.chance(1, 2) || !std::str::from_utf8(lit).is_ok() {
        let r = guarded(|| {
            let mut de = sonic_rs::Deserializer::from_slice(lit).utf8_lossy();
            de.deserialize::<String>().map(|s| (s.into_bytes(), None))
        });
        out.case("strdec", &["lossy", &h, "String lossy"], &fmt_dec(r, false), nt);
        let r = guarded(|| {
            let mut de = sonic_rs::Deserializer::from_slice(lit).utf8_lossy();
            de.deserialize::<Value>().map(|v| (v.as_str().unwrap_or("\u{1}notstr").as_bytes().to_vec(), None))
        });
        out.case("strdec", &["lossy", &h, "Value lossy"], &fmt_dec(r, false), nt);
        let r = guarded(|| {
            let mut de = sonic_rs::Deserializer::from_slice(&w).utf8_lossy();
            de.deserialize::<(i32, String, i32)>().map(|t| (t.1.into_bytes(), None))
        });
        out.case("strdec", &["lossywhole", &h, "String lossy@", &padarg], &fmt_dec(r, false), nt);
    }
}

const CLASSES: &[&[u8]] = &[
    b"\"", b"\\\\", b"\\\"", b"\\n", b"\\/", b"\\b", b"\\f", b"\\r", b"\\t", b"\\u0041", b"\\u00e9", b"\\u4E2d", b"\\ud83d\\ude00",
    b"\\uZZZZ", b"\\u12", b"\\ud800", b"\\udc00", b"\\ud800\\u0041", b"\\x", b"\\", b"\x01", b"\x1f", b"\n", b"\x7f",
    b"\xc3\xa9", b"\xe4\xb8\xad", b"\xf0\x9f\x98\x80", b"\x80", b"\xc3", b"\xe4\xb8", b"\xed\xa0\x80", b"\xff", b"\xf4\x90\x80\x80", b"\xc0\xaf",
];

pub fn run(out: &mut Out, tier: &str, seed: u64) {
    let mut rng = Rng::new(seed);
    let thorough = tier == "thorough";
    // sweep: a literal of length L of plain bytes with one class item at position p
    let lens: Vec<usize> = if thorough { (0..=200).collect() } else { vec![0, 1, 2, 5, 14, 15, 16, 17, 29, 30, 31, 32, 33, 34, 47, 61, 62, 63, 64, 65, 66, 95, 96, 97, 127, 128, 129, 130, 160, 199] };
    for &l in &lens {
        let positions: Vec<usize> = if thorough { (0..=l.min(130)).collect() } else {
            let mut v: Vec<usize> = vec![0, 1, l / 2, l.saturating_sub(1), l];
            for e in [31usize, 32, 33, 63, 64, 65] {
                for d in 0..7 {
                    let p = (e + 1).saturating_sub(d);
                    if p <= l {
                        v.push(p);
                    }
                }
            }
            v.sort();
            v.dedup();
            v
        };
        for &p in &positions {
            let classes: Vec<&[u8]> = if thorough { CLASSES.to_vec() } else { (0..6).map(|_| CLASSES[rng.below(CLASSES.len())]).collect() };
            for c in classes {
                let mut lit = vec![b'"'];
                for i in 0..l {
                    if i == p {
                        lit.extend_from_slice(c);
                    }
                    lit.push(b'a' + (i % 26) as u8);
                }
                if p >= l {
                    lit.extend_from_slice(c);
                }
                lit.push(b'"');
                out.count("sweep");
                let pad = if thorough { rng.below(65) } else { *rng.pick(&[0usize, 1, 27, 28, 29, 30, 31, 32, 60, 61, 62, 63, 64]) };
                decoders(out, &lit, pad, &mut rng);
            }
        }
    }
    // composite literals: several items (escapes, controls, multi-byte, invalid bytes) separated by plain runs
    for _ in 0..(if thorough { 60000 } else { 6000 }) {
        let mut lit = vec![b'"'];
        let items = rng.range(2, 5);
        for _ in 0..items {
            let m = if rng.chance(1, 3) { 40 } else { 12 };
            for _ in 0..rng.below(m) {
                lit.push(b'a' + rng.below(26) as u8);
            }
            let c: &[u8] = match rng.below(10) {
                0..=4 => CLASSES[1 + rng.below(12)],      // well-formed escapes
                5 => CLASSES[20 + rng.below(4)],          // raw control characters
                6 | 7 => CLASSES[24 + rng.below(3)],      // valid multi-byte
                8 => CLASSES[13 + rng.below(7)],          // bad escapes
                _ => CLASSES[27 + rng.below(7)],          // invalid UTF-8
            };
            lit.extend_from_slice(c);
        }
        for _ in 0..rng.below(12) {
            lit.push(b'z');
        }
        lit.push(b'"');
        out.count("composite");
        let pad = rng.below(65);
        decoders(out, &lit, pad, &mut rng);
    }
    // code points through escapes: every boundary, plus a sample (all of them in the thorough tier)
    let mut cps: Vec<u32> = vec![0, 1, 0x1f, 0x20, 0x22, 0x5c, 0x7f, 0x80, 0x7ff, 0x800, 0xfff, 0x1000, 0xd7ff, 0xd800, 0xdbff, 0xdc00, 0xdfff, 0xe000, 0xfffd, 0xffff, 0x10000, 0x10ffff, 0x1f600];
    if thorough {
        cps = (0..=0x10ffffu32).collect();
    } else {
        for _ in 0..3000 {
            cps.push(rng.below(0x110000) as u32);
        }
    }
    for cp in cps {
        let lit = if cp < 0x10000 {
            format!("\"x\\u{:04x}y\"", cp)
        } else {
            let v = cp - 0x10000;
            format!("\"x\\u{:04X}\\u{:04x}y\"", 0xD800 + (v >> 10), 0xDC00 + (v & 0x3ff))
        };
        out.count("codepoint");
        let h = hex(lit.as_bytes());
        let r = guarded(|| sonic_rs::from_str::<String>(&lit).map(|s| (s.into_bytes(), None)));
        out.case("strdec", &["strict", &h, "String"], &fmt_dec(r, false), true);
        let r = guarded(|| sonic_rs::from_str::<Value>(&lit).map(|v| (v.as_str().unwrap_or("\u{1}notstr").as_bytes().to_vec(), None)));
        out.case("strdec", &["strict", &h, "Value(in place)"], &fmt_dec(r, false), true);
    }
    // unit level: hex table and UTF-8 encoder through the hooks
    for _ in 0..(if thorough { 200000 } else { 20000 }) {
        let mut q = [0u8; 4];
        for b in q.iter_mut() {
            *b = if rng.chance(4, 5) { *rng.pick(b"0123456789abcdefABCDEF") } else { rng.below(256) as u8 };
        }
        let v = sonic_rs::verif_hooks::unicode::hex_to_u32_nocheck(&q);
        out.case("hex4", &[&hex(&q)], &(if v > 0xffff { "invalid".to_string() } else { format!("{v:x}") }), true);
    }
    for _ in 0..(if thorough { 100000 } else { 10000 }) {
        let cp = match rng.below(4) {
            0 => rng.below(0x800) as u32,
            1 => rng.below(0x10000) as u32,
            _ => rng.below(0x110000) as u32,
        };
        let (b, n) = sonic_rs::verif_hooks::unicode::codepoint_to_utf8(cp);
        out.case("utf8enc", &[&format!("{cp:x}")], &hex(&b[..n]), true);
    }
    // random literals from the structured generator (escapes of every kind, multi-byte, long)
    for _ in 0..(if thorough { 30000 } else { 3000 }) {
        let (_, lit) = crate::gen::gen_string(&mut rng, true);
        let mut l = lit.into_bytes();
        if rng.chance(1, 4) {
            l = crate::gen::mutate(&l, &mut rng).0;
        }
        out.count("generated");
        let pad = rng.below(65);
        decoders(out, &l, pad, &mut rng);
    }
}
