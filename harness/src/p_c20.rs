//! C20: errors locate themselves inside the input; streams and iterators latch.
use sonic_rs::{JsonValueTrait, Value};

use crate::{
    entry::{self, ErrInfo},
    gen::{self, Cfg, PathElem},
    out::{hex, Out},
    rng::Rng,
};

fn report(out: &mut Out, name: &str, input: &[u8], r: &Result<Result<(), ErrInfo>, String>) {
    match r {
        Err(p) => {
            // a panic: reported through the same channel, the model never predicts one
            out.count("panic");
            out.case("pos", &["0", &hex(input)], &format!("panic:{name}:{}", p.replace(['\t', '\n'], " ")), true);
        }
        Ok(Ok(())) => out.count("accepted"),
        Ok(Err(e)) => {
            out.count("rejected");
            out.count(&format!("cat:{}", e.category));
            if e.line == 0 && e.column == 0 {
                out.count("err_without_position");
            }
            if e.display_len == 0 {
                out.case("pos", &["0", &hex(input)], &format!("emptydisplay:{name}"), true);
            }
            let is_get = name.starts_with("get");
            if e.not_found && !is_get {
                out.case("pos", &["0", &hex(input)], &format!("notfound-from-parse:{name}"), true);
            }
            // offset must be inside the input: the model evaluates from_index at min(offset,len) and
            // the comparison string carries the in-range flag
            let inrange = e.offset <= input.len();
            let res = format!("{},{}{}", e.line, e.column, if inrange { "" } else { ";offset>len" });
            let key = format!("{name}|{}", e.msg);
            let _ = key;
            out.case("pos", &[&e.offset.to_string(), &hex(input)], &res, e.offset > 0);
        }
    }
}

pub fn run(out: &mut Out, tier: &str, seed: u64) {
    let mut rng = Rng::new(seed);
    let ndocs = if tier == "thorough" { 12000 } else { 1500 };
    let cfg = Cfg { max_depth: 3, max_width: 4, ..Cfg::default() };

    // unit level: Position::from_index and Error::syntax against the model
    for _ in 0..(ndocs / 2) {
        let n = rng.below(60);
        let data: Vec<u8> = (0..n).map(|_| *rng.pick(b"ab\n\n \xe4\xb8\xad\xc3\xa9\"\\{}[]1")).collect();
        let i = rng.below(n + 4);
        let (l, c) = sonic_rs::verif_hooks::position_from_index(i, &data);
        out.case("pos", &[&i.to_string(), &hex(&data)], &format!("{l},{c}"), true);
        let idx = rng.below(n + 1);
        let (l2, c2, off, disp) = sonic_rs::verif_hooks::error_syntax(&data, idx);
        // recover (left, right) from the mask line of the rendered snippet
        let mask = disp.lines().filter(|l| l.starts_with('\t')).nth(1).unwrap_or("").trim_start_matches('\t').to_string();
        let left = mask.find('^').unwrap_or(9999);
        let right = mask.len().saturating_sub(left + 1);
        out.case("synlr", &[&idx.to_string(), &hex(&data)], &format!("{left},{right}"), true);
        out.case("pos", &[&off.to_string(), &hex(&data)], &format!("{l2},{c2}"), true);
        // Parser::error clamp
        let (a, b, len) = (rng.below(80), rng.below(80), rng.below(70));
        let ei = if rng.chance(1, 3) { usize::MAX } else { a };
        let (ri, _) = sonic_rs::verif_hooks::parser::parser_error_index(ei, b, len);
        out.case("perridx", &[&(if ei == usize::MAX { "max".to_string() } else { ei.to_string() }), &b.to_string(), &len.to_string()], &ri.to_string(), true);
    }

    // Position::from_index, every byte value next to line breaks at every alignment within a 24-byte buffer:
    // whatever way the prefix is scanned (byte-wise, word-wise, vector-wise), only 0x0a is a line break
    for b in 0..=255u8 {
        let pats: [&[u8]; 5] = [&[b'\n', b], &[b, b'\n'], &[b'\n', b, b], &[b'\n', b'\n', b], &[b, b, b'\n', b]];
        for (k, pat) in pats.iter().enumerate() {
            for off in 0..9usize {
                if tier != "thorough" && (b as usize + k + off) % 3 != 0 {
                    continue;
                }
                let mut data = vec![b'x'; 24];
                data[off..off + pat.len()].copy_from_slice(pat);
                for i in [off + pat.len(), 16, 24] {
                    let (l, c) = sonic_rs::verif_hooks::position_from_index(i, &data);
                    out.case("pos", &[&i.to_string(), &hex(&data)], &format!("{l},{c}"), true);
                }
                out.count("unit:linebreak-neighbours");
            }
        }
    }

    // typed targets: small documents that almost fit them, behind blank lines (errors raised by serde visitors must
    // locate themselves like syntax errors)
    {
        let shapes = ["\"A\"", "\"B\"", "\"Z\"", "{\"A\":1}", "{\"A\":\"x\"}", "{\"B\":1}", "{\"C\":{\"x\":1}}", "{\"D\":[1]}", "{\"A\":1,\"B\":null}", "[\"A\",\"B\"]", "[1,2,3]", "{\"a\":1}", "{\"a\":\"x\"}", "{\"a\":1,\"zz\":2}", "{\"a\":1,\"e\":\"A\"}", "{\"a\":1,\"e\":{\"D\":[1,\"x\"]}}", "[1,\"s\"]", "[300,\"s\"]", "[1]", "null", "{\"k\":1.5}", "{\"300\":true}", "{\"1\":2}", "\"ab\"", "\"\"", "1", "[[1,2],[3]]", "[\"x\"]"];
        for sh in shapes {
            for pre in ["", " ", "\n\n ", "\n\t\n\n"] {
                for post in ["", "\n", " x"] {
                    let d = format!("{pre}{sh}{post}");
                    out.count("typed-shapes");
                    for (name, r) in entry::parse_entries(d.as_bytes()) {
                        report(out, name, d.as_bytes(), &r);
                    }
                }
            }
        }
    }
    // API level: every rejected input x every error-returning entry point
    for _ in 0..ndocs {
        let g = gen::gen_doc(&mut rng, &cfg);
        let mut doc = gen::render_doc(&g, &mut rng, &cfg);
        if rng.chance(1, 2) {
            gen::add_newlines(&mut doc, &mut rng);
        }
        let (bad, label) = if rng.chance(1, 10) { (doc.clone(), "valid") } else { gen::mutate(&doc, &mut rng) };
        out.count(&format!("mut:{label}"));
        for (name, r) in entry::parse_entries(&bad) {
            report(out, name, &bad, &r);
        }
        let mut paths = Vec::new();
        gen::all_paths(&g, &mut Vec::new(), &mut paths);
        let mut p: Vec<PathElem> = paths[rng.below(paths.len())].clone();
        if rng.chance(1, 3) {
            p = gen::perturb_path(&p, &mut rng);
        }
        for (name, r) in entry::get_entries(&bad, &p) {
            report(out, name, &bad, &r);
        }
        // values the skipper steps over but a full parse rejects (overflowing numbers, lone surrogates, invalid UTF-8
        // inside a string): errors that arise only when the selected value is parsed on its own
        {
            let mut d2 = doc.clone();
            let spots: Vec<usize> = (1..d2.len()).filter(|&i| (d2[i].is_ascii_digit() || d2[i] == b'"' || d2[i] == b't' || d2[i] == b'n') && matches!(d2[i - 1], b':' | b'[' | b',' | b' ' | b'\n')).collect();
            if !spots.is_empty() {
                let at = spots[rng.below(spots.len())];
                let ins: &[u8] = *rng.pick(&[&b"1e999,"[..], b"-2E400 ,", b"\"\\ud800\",", b"\"x\\udc00\",", b"\"\xff\",", b"[1e999],"]);
                for (k, b) in ins.iter().enumerate() {
                    d2.insert(at + k, *b);
                }
                out.count("mut:deep-only");
                for (name, r) in entry::parse_entries(&d2) {
                    report(out, name, &d2, &r);
                }
                for (name, r) in entry::get_entries(&d2, &p) {
                    report(out, name, &d2, &r);
                }
            }
        }
        latch_cases(out, &bad);
        let ss = scalar_stream(&mut rng);
        latch_cases(out, &ss);
        // the failing document in the middle of a stream: well-formed documents before it and after it; whatever
        // follows the error - more documents included - is never delivered and no second error is reported
        {
            let mut mid: Vec<u8> = Vec::new();
            if rng.chance(1, 2) {
                mid.extend_from_slice(b"{\"id\":1,\"skip\":\"x\"}\n");
            }
            let fail: Vec<u8> = match rng.below(6) {
                0 => bad.clone(),
                1 => b"{\"id\":2,\"skip\":\"ab\xffcd\"}".to_vec(),
                2 => b"[\"\xc3\x28\",{\"id\":3}]".to_vec(),
                3 => b"{\"id\":4,\"skip\":[1e999]}".to_vec(),
                4 => b"{\"id\":\"five\",\"skip\":\"\xf0\x9f\"}".to_vec(),
                _ => b"{\"id\":6,\"skip\":\"\\ud800\"}".to_vec(),
            };
            mid.extend_from_slice(&fail);
            mid.extend_from_slice(*rng.pick(&[&b"\n"[..], b" ", b"\n\n"]));
            for _ in 0..rng.range(1, 3) {
                mid.extend_from_slice(*rng.pick(&[&b"{\"id\":7,\"skip\":\"y\"}\n"[..], b"[1,2] ", b"{\"id\":8}\n", b"\"s\" ", b"9 "]));
            }
            out.count("latch: error followed by further documents");
            latch_cases(out, &mid);
        }
        // a malformed document behind documents that were already delivered: the error of the later document
        // locates itself in the whole input (offset, line and column), through streams and repeated deserialize()
        if label != "valid" {
            let mut multi: Vec<u8> = Vec::new();
            for _ in 0..rng.range(1, 3) {
                let g2 = gen::gen_doc(&mut rng, &cfg);
                let mut d2 = gen::render_doc(&g2, &mut rng, &cfg);
                if !(d2.first() == Some(&b'[') || d2.first() == Some(&b'{')) {
                    d2 = format!("[{}]", String::from_utf8_lossy(&d2)).into_bytes();
                }
                gen::add_newlines(&mut d2, &mut rng);
                multi.extend_from_slice(&d2);
                multi.extend_from_slice(if rng.chance(1, 2) { b"\n" } else { b" \n\n  " });
            }
            multi.extend_from_slice(&bad);
            out.count("multi-document streams");
            let first_err = |r: Result<Option<sonic_rs::Error>, String>| -> Result<Result<(), ErrInfo>, String> {
                r.map(|o| match o {
                    Some(e) => Err(entry::err_info(&e)),
                    None => Ok(()),
                })
            };
            let r = entry::guarded(|| sonic_rs::Deserializer::from_slice(&multi).into_stream::<Value>().find_map(|x| x.err()));
            report(out, "stream<Value> later document", &multi, &first_err(r));
            let r = entry::guarded(|| sonic_rs::Deserializer::from_slice(&multi).into_stream::<serde_json::Value>().find_map(|x| x.err()));
            report(out, "stream<serde_json::Value> later document", &multi, &first_err(r));
            let r = entry::guarded(|| sonic_rs::Deserializer::from_slice(&multi).into_stream::<sonic_rs::OwnedLazyValue>().find_map(|x| x.err()));
            report(out, "stream<OwnedLazyValue> later document", &multi, &first_err(r));
            let r = entry::guarded(|| {
                let mut de = sonic_rs::Deserializer::from_slice(&multi);
                for _ in 0..8 {
                    if let Err(e) = de.deserialize::<Value>() {
                        return Some(e);
                    }
                }
                None
            });
            report(out, "deserialize::<Value>() repeated", &multi, &first_err(r));
            if let Ok(text) = std::str::from_utf8(&multi) {
                let r = entry::guarded(|| {
                    let mut de = sonic_rs::Deserializer::from_str(text);
                    for _ in 0..8 {
                        if let Err(e) = de.deserialize::<Value>() {
                            return Some(e);
                        }
                    }
                    None
                });
                report(out, "from_str deserialize::<Value>() repeated", &multi, &first_err(r));
            }
        }
    }
}

/// after a stream deserializer or a lazy iterator has reported an error or the end it reports
/// nothing further: poll four more times
fn latch_cases(out: &mut Out, input: &[u8]) {
    // transcript: one letter per poll: o = Some(Ok), e = Some(Err), n = None
    fn transcript<T, E>(mut next: impl FnMut() -> Option<Result<T, E>>) -> String {
        let mut s = String::new();
        let mut extra = 0;
        loop {
            match next() {
                Some(Ok(_)) => s.push('o'),
                Some(Err(_)) => s.push('e'),
                None => s.push('n'),
            }
            if s.ends_with('e') || s.ends_with('n') || extra > 0 {
                extra += 1;
            }
            if extra > 4 || s.len() > 4000 {
                return s;
            }
        }
    }
    let h = hex(input);
    let r = entry::guarded(|| {
        let mut st = sonic_rs::Deserializer::from_slice(input).into_stream::<Value>();
        transcript(|| st.next())
    });
    latch_report(out, "stream", &h, r);
    let r = entry::guarded(|| {
        let mut it = sonic_rs::to_array_iter(input);
        transcript(|| it.next())
    });
    latch_report(out, "array_iter", &h, r);
    let r = entry::guarded(|| {
        let mut it = sonic_rs::to_object_iter(input);
        transcript(|| it.next())
    });
    latch_report(out, "object_iter", &h, r);
    let _ = Value::new().is_null();
    // typed streams: data errors (wrong type, out of range) must latch like syntax errors
    let r = entry::guarded(|| {
        let mut st = sonic_rs::Deserializer::from_slice(input).into_stream::<u8>();
        transcript(|| st.next())
    });
    latch_report(out, "stream<u8>", &h, r);
    let r = entry::guarded(|| {
        let mut st = sonic_rs::Deserializer::from_slice(input).into_stream::<Vec<String>>();
        transcript(|| st.next())
    });
    latch_report(out, "stream<Vec<String>>", &h, r);
    // targets that do not decode what they step over: their errors surface late (the deferred UTF-8 check of byte
    // input, a value handed out as raw text) and must end the stream like any other
    let r = entry::guarded(|| {
        let mut st = sonic_rs::Deserializer::from_slice(input).into_stream::<serde::de::IgnoredAny>();
        transcript(|| st.next())
    });
    latch_report(out, "stream<IgnoredAny>", &h, r);
    let r = entry::guarded(|| {
        let mut st = sonic_rs::Deserializer::from_slice(input).into_stream::<sonic_rs::OwnedLazyValue>();
        transcript(|| st.next())
    });
    latch_report(out, "stream<OwnedLazyValue>", &h, r);
    let r = entry::guarded(|| {
        let mut st = sonic_rs::Deserializer::from_slice(input).into_stream::<sonic_rs::LazyValue>();
        transcript(|| st.next())
    });
    latch_report(out, "stream<LazyValue>", &h, r);
    let r = entry::guarded(|| {
        let mut st = sonic_rs::Deserializer::from_slice(input).into_stream::<OnlyId>();
        transcript(|| st.next())
    });
    latch_report(out, "stream<OnlyId>", &h, r);
    let r = entry::guarded(|| {
        let mut st = sonic_rs::Deserializer::from_slice(input).into_stream::<serde_json::Value>();
        transcript(|| st.next())
    });
    latch_report(out, "stream<serde_json::Value>", &h, r);
    {
        let b = bytes::Bytes::copy_from_slice(input);
        let r = entry::guarded(|| {
            let mut st = sonic_rs::Deserializer::from_json(&b).into_stream::<OnlyId>();
            transcript(|| st.next())
        });
        latch_report(out, "bytes stream<OnlyId>", &h, r);
    }
    if let Ok(text) = std::str::from_utf8(input) {
        let r = entry::guarded(|| {
            let mut st = sonic_rs::Deserializer::from_str(text).into_stream::<OnlyId>();
            transcript(|| st.next())
        });
        latch_report(out, "str stream<OnlyId>", &h, r);
    }
}

/// a record that reads one member and steps over the others
#[derive(serde::Deserialize)]
#[allow(dead_code)]
struct OnlyId {
    #[serde(default)]
    id: Option<u32>,
}

/// streams of scalars of mixed types: "1 2 \"x\" 300 4 [\"a\"] ..."
fn scalar_stream(rng: &mut Rng) -> Vec<u8> {
    let mut s = String::new();
    for _ in 0..rng.range(1, 8) {
        s.push_str(*rng.pick(&["1", "2", "255", "256", "-1", "\"x\"", "[\"a\",\"b\"]", "[1]", "null", "true", "{}", "[", "1.5", "[\"a\",1]", "300", "7"]));
        s.push(' ');
    }
    s.into_bytes()
}

fn latch_report(out: &mut Out, kind: &str, h: &str, r: Result<String, String>) {
    match r {
        Ok(t) => {
            out.count(&format!("latch:{kind}"));
            // the model decides whether the transcript is latched; the expected answer is "ok"
            out.case("latchok", &[&t, kind, h], "ok", t.len() > 5)
        }
        Err(p) => out.case("latchok", &["", kind, h], &format!("panic:{}", p.replace(['\t', '\n'], " ")), true),
    }
}
