//! C18: lazily cached decodings under concurrent readers, explored schedule by schedule.
//! The two AtomicPtr caches are routed through the shim of the hook module; every load and
//! compare-exchange is a yield point at which a controller decides which thread goes on
//! (and whether a weak compare-exchange fails spuriously). All interleavings are enumerated by DFS.
use std::{
    alloc::{GlobalAlloc, Layout, System},
    sync::{
        atomic::{AtomicIsize, Ordering},
        Arc, Condvar, Mutex,
    },
};

use sonic_rs::{
    verif_hooks::{set_atomic_observer, AtomicDecision, AtomicEvent, AtomicOp},
    JsonContainerTrait, JsonValueTrait, LazyValue, OwnedLazyValue,
};

use crate::out::Out;

const EXPECT: &str = "line\nbreak \u{e9} \"q\"";

pub struct Counting;
/// number of live allocations made while the calling thread was tracking (the ledger of C18)
pub static LIVE: AtomicIsize = AtomicIsize::new(0);
const SLOTS: usize = 1 << 14;
static TABLE: [std::sync::atomic::AtomicUsize; SLOTS] = [const { std::sync::atomic::AtomicUsize::new(0) }; SLOTS];
thread_local! {
    static TRACK: std::cell::Cell<bool> = const { std::cell::Cell::new(false) };
}
pub fn track(on: bool) {
    TRACK.with(|t| t.set(on));
}
fn slot(p: usize) -> usize {
    (p >> 4).wrapping_mul(0x9E37_79B9_7F4A_7C15) >> 50 & (SLOTS - 1)
}
fn remember(p: usize) {
    let mut i = slot(p);
    for _ in 0..SLOTS {
        let cur = TABLE[i].load(Ordering::Relaxed);
        if (cur == 0 || cur == 1) && TABLE[i].compare_exchange(cur, p, Ordering::Relaxed, Ordering::Relaxed).is_ok() {
            LIVE.fetch_add(1, Ordering::Relaxed);
            return;
        }
        i = (i + 1) & (SLOTS - 1);
    }
}
fn forget(p: usize) {
    let mut i = slot(p);
    for _ in 0..SLOTS {
        let cur = TABLE[i].load(Ordering::Relaxed);
        if cur == p {
            TABLE[i].store(1, Ordering::Relaxed);
            LIVE.fetch_sub(1, Ordering::Relaxed);
            return;
        }
        if cur == 0 {
            return;
        }
        i = (i + 1) & (SLOTS - 1);
    }
}

/// every heap block of the harness process is followed by a guard zone of GUARD bytes holding a fixed pattern; the
/// zone is inspected when the block is freed or resized. A write past the end of a block (which leaves results
/// intact and need not crash) is counted here and reported by the run (C01: per input; every property: per run)
const GUARD: usize = 64;
const GUARD_BYTE: u8 = 0xA7;
const FREED_BYTE: u8 = 0xDD;
pub static OVERRUNS: std::sync::atomic::AtomicUsize = std::sync::atomic::AtomicUsize::new(0);
/// size of the first overrun block and how many guard bytes were changed (both + 1; 0 = none yet)
static OVERRUN_SIZE: std::sync::atomic::AtomicUsize = std::sync::atomic::AtomicUsize::new(0);
static OVERRUN_BYTES: std::sync::atomic::AtomicUsize = std::sync::atomic::AtomicUsize::new(0);
#[inline]
unsafe fn guard_fill(p: *mut u8, size: usize) {
    if !p.is_null() {
        std::ptr::write_bytes(p.add(size), GUARD_BYTE, GUARD);
    }
}
#[inline]
unsafe fn guard_check(p: *mut u8, size: usize) {
    let g = std::slice::from_raw_parts(p.add(size), GUARD);
    if g.iter().any(|&b| b != GUARD_BYTE) {
        let changed = g.iter().filter(|&&b| b != GUARD_BYTE).count();
        if OVERRUNS.fetch_add(1, Ordering::SeqCst) == 0 {
            OVERRUN_SIZE.store(size + 1, Ordering::SeqCst);
            OVERRUN_BYTES.store(changed + 1, Ordering::SeqCst);
        }
    }
}
fn guarded_layout(l: Layout) -> Layout {
    unsafe { Layout::from_size_align_unchecked(l.size() + GUARD, l.align()) }
}
/// overruns seen since the last call: None, or a description of the first one
pub fn take_overruns() -> Option<String> {
    let n = OVERRUNS.swap(0, Ordering::SeqCst);
    if n == 0 {
        return None;
    }
    let (sz, by) = (OVERRUN_SIZE.swap(0, Ordering::SeqCst), OVERRUN_BYTES.swap(0, Ordering::SeqCst));
    Some(format!("{n} heap block(s) were written past their end (first: a block of {} bytes, {} guard byte(s) changed)", sz.saturating_sub(1), by.saturating_sub(1)))
}

unsafe impl GlobalAlloc for Counting {
    unsafe fn alloc(&self, l: Layout) -> *mut u8 {
        let p = System.alloc(guarded_layout(l));
        guard_fill(p, l.size());
        if TRACK.try_with(|t| t.get()).unwrap_or(false) {
            remember(p as usize);
        }
        p
    }
    unsafe fn alloc_zeroed(&self, l: Layout) -> *mut u8 {
        let p = System.alloc_zeroed(guarded_layout(l));
        guard_fill(p, l.size());
        if TRACK.try_with(|t| t.get()).unwrap_or(false) {
            remember(p as usize);
        }
        p
    }
    unsafe fn dealloc(&self, p: *mut u8, l: Layout) {
        if LIVE.load(Ordering::Relaxed) != 0 {
            forget(p as usize);
        }
        guard_check(p, l.size());
        // a freed block is overwritten: whatever still points into it reads this pattern, not the old contents
        std::ptr::write_bytes(p, FREED_BYTE, l.size());
        System.dealloc(p, guarded_layout(l))
    }
    unsafe fn realloc(&self, p: *mut u8, l: Layout, n: usize) -> *mut u8 {
        guard_check(p, l.size());
        let q = System.realloc(p, guarded_layout(l), n + GUARD);
        guard_fill(q, n);
        if q != p && LIVE.load(Ordering::Relaxed) != 0 {
            // a tracked block that moved stays tracked under its new address
            let mut i = slot(p as usize);
            for _ in 0..SLOTS {
                let cur = TABLE[i].load(Ordering::Relaxed);
                if cur == p as usize {
                    TABLE[i].store(1, Ordering::Relaxed);
                    LIVE.fetch_sub(1, Ordering::Relaxed);
                    remember(q as usize);
                    break;
                }
                if cur == 0 {
                    break;
                }
                i = (i + 1) & (SLOTS - 1);
            }
        }
        q
    }
}

struct CtlState {
    at_yield: Vec<Option<AtomicOp>>,
    finished: Vec<bool>,
    go: Option<usize>,
    spur: bool,
    events: Vec<(usize, AtomicEvent)>,
}

struct Ctl {
    m: Mutex<CtlState>,
    cv: Condvar,
}

struct Restore(bool);
impl Drop for Restore {
    fn drop(&mut self) {
        TRACK.with(|t| t.set(self.0));
    }
}

fn install(ctl: Arc<Ctl>, tid: usize) {
    set_atomic_observer(Some(Box::new(move |ev: AtomicEvent| {
        // the scheduler's own bookkeeping is not part of the ledger
        let was = TRACK.with(|t| t.replace(false));
        let _restore = Restore(was);
        let mut g = ctl.m.lock().unwrap();
        if !ev.done {
            g.at_yield[tid] = Some(ev.op);
            ctl.cv.notify_all();
            while g.go != Some(tid) {
                g = ctl.cv.wait(g).unwrap();
            }
            g.go = None;
            g.at_yield[tid] = None;
            AtomicDecision { spurious_failure: g.spur }
        } else {
            g.events.push((tid, ev));
            AtomicDecision::default()
        }
    })));
}

pub type Program = Box<dyn FnOnce() -> bool + Send>;
const MAX_SPURIOUS: usize = 2;

/// run the programs under one schedule script; returns (grants as (tid, spurious), events, results, choice points)
fn run_schedule(programs: Vec<Program>, script: &[usize]) -> (Vec<(usize, bool)>, Vec<(usize, AtomicEvent)>, Vec<bool>, Vec<(usize, usize)>) {
    let n = programs.len();
    let ctl = Arc::new(Ctl { m: Mutex::new(CtlState { at_yield: vec![None; n], finished: vec![false; n], go: None, spur: false, events: Vec::new() }), cv: Condvar::new() });
    let mut handles = Vec::new();
    for (tid, prog) in programs.into_iter().enumerate() {
        let c = ctl.clone();
        handles.push(std::thread::spawn(move || {
            install(c.clone(), tid);
            track(true);
            let r = std::panic::catch_unwind(std::panic::AssertUnwindSafe(prog)).unwrap_or(false);
            track(false);
            set_atomic_observer(None);
            let mut g = c.m.lock().unwrap();
            g.finished[tid] = true;
            c.cv.notify_all();
            r
        }));
    }
    let mut grants = Vec::new();
    let mut choices: Vec<(usize, usize)> = Vec::new();
    loop {
        let mut g = ctl.m.lock().unwrap();
        while !(0..n).all(|i| g.finished[i] || g.at_yield[i].is_some()) || g.go.is_some() {
            g = ctl.cv.wait(g).unwrap();
        }
        let enabled: Vec<usize> = (0..n).filter(|i| !g.finished[*i]).collect();
        if enabled.is_empty() {
            break;
        }
        let k = choices.len();
        let pick = if k < script.len() { script[k].min(enabled.len() - 1) } else { 0 };
        choices.push((enabled.len(), pick));
        let tid = enabled[pick];
        // a weak compare-exchange may fail spuriously: one more binary choice
        let mut spur = false;
        // at most MAX_SPURIOUS spurious failures per schedule: a retry loop around a weak
        // compare-exchange then terminates under every explored schedule
        if g.at_yield[tid] == Some(AtomicOp::CompareExchangeWeak) && grants.iter().filter(|g: &&(usize, bool)| g.1).count() < MAX_SPURIOUS {
            let k2 = choices.len();
            let p2 = if k2 < script.len() { script[k2].min(1) } else { 0 };
            choices.push((2, p2));
            spur = p2 == 1;
        }
        g.spur = spur;
        g.go = Some(tid);
        grants.push((tid, spur));
        ctl.cv.notify_all();
    }
    let results: Vec<bool> = handles.into_iter().map(|h| h.join().unwrap_or(false)).collect();
    let events = std::mem::take(&mut ctl.m.lock().unwrap().events);
    (grants, events, results, choices)
}

fn next_script(choices: &[(usize, usize)]) -> Option<Vec<usize>> {
    let mut s: Vec<usize> = choices.iter().map(|c| c.1).collect();
    while let Some(last) = s.pop() {
        let cnt = choices[s.len()].0;
        if last + 1 < cnt {
            s.push(last + 1);
            return Some(s);
        }
    }
    None
}

/// per-thread outcome from the recorded events: hit (load saw the published value), win / lose (compare-exchange)
fn outcomes(n: usize, events: &[(usize, AtomicEvent)]) -> Vec<String> {
    let mut o = vec![String::new(); n];
    for (tid, ev) in events {
        if !ev.done {
            continue;
        }
        let s = match ev.op {
            AtomicOp::Load => {
                if ev.seen != 0 {
                    "hit"
                } else {
                    "miss"
                }
            }
            AtomicOp::CompareExchange | AtomicOp::CompareExchangeWeak => {
                if ev.success {
                    "win"
                } else if ev.seen == 0 {
                    "spurious"
                } else {
                    "lose"
                }
            }
        };
        if !o[*tid].is_empty() {
            o[*tid].push('+');
        }
        o[*tid].push_str(s);
    }
    o
}

fn explore(out: &mut Out, name: &str, nthreads: usize, model: bool, make: &dyn Fn() -> (Vec<Program>, Box<dyn FnOnce()>), max_schedules: usize) {
    let mut script: Vec<usize> = Vec::new();
    let mut count = 0usize;
    // warm-up run: one-time allocations of the runtime (thread-locals, lazy statics) are not leaks
    {
        track(true);
        let (progs, fin) = make();
        track(false);
        let _ = run_schedule(progs, &[]);
        track(true);
        fin();
        track(false);
    }
    loop {
        let before = LIVE.load(Ordering::SeqCst);
        track(true);
        let (progs, fin) = make();
        track(false);
        let (grants, events, results, choices) = run_schedule(progs, &script);
        track(true);
        fin(); // drops the shared value
        track(false);
        let after = LIVE.load(Ordering::SeqCst);
        let vals_ok = results.iter().all(|r| *r);
        let o = outcomes(nthreads, &events);
        let weak = events.iter().any(|(_, e)| e.op == AtomicOp::CompareExchangeWeak);
        let sched: Vec<String> = grants.iter().map(|(t, s)| format!("{t}{}", if *s { "!" } else { "" })).collect();
        let res = format!("{};vals={};leak={};cas={}", o.join(","), if vals_ok { "ok" } else { "WRONG" }, after - before, if weak { "weak" } else { "strong" });
        out.count(&format!("{name}:schedules"));
        if model {
            out.case("cassched", &[&nthreads.to_string(), &sched.join(","), name], &res, true);
        } else {
            let verdict = if vals_ok && after - before == 0 { "true".to_string() } else { format!("{res} results={results:?}") };
            out.case("expect", &["mixed readers/cloners: values and ledger", name, &sched.join(",")], &verdict, true);
        }
        count += 1;
        match next_script(&choices) {
            Some(s) if count < max_schedules => script = s,
            _ => break,
        }
    }
    out.add(&format!("{name}:explored"), count as u64);
}

pub fn run(out: &mut Out, tier: &str, _seed: u64) {
    let thorough = tier == "thorough";
    let json: &'static str = Box::leak(String::from(r#"{"k":"line\nbreak é \"q\"","o":[1,"a\tb",{"x":null}]}"#).into_boxed_str());
    // readers of one shared LazyValue (Inner::parse_from): model comparison
    for n in [1usize, 2, 3] {
        let make = move || -> (Vec<Program>, Box<dyn FnOnce()>) {
            let lv: Arc<LazyValue<'static>> = Arc::new(sonic_rs::get_from_str(json, &["k"]).unwrap());
            let progs: Vec<Program> = (0..n)
                .map(|_| {
                    let l = lv.clone();
                    Box::new(move || l.as_str() == Some(EXPECT)) as Program
                })
                .collect();
            (progs, Box::new(move || drop(lv)))
        };
        explore(out, &format!("lazy-readers-{n}"), n, true, &make, if thorough { 100000 } else { 3000 });
    }
    // readers of one shared OwnedLazyValue (LazyRaw::load)
    for n in [1usize, 2, 3] {
        let make = move || -> (Vec<Program>, Box<dyn FnOnce()>) {
            let o: Arc<OwnedLazyValue> = Arc::new(sonic_rs::from_str(json).unwrap());
            let progs: Vec<Program> = (0..n)
                .map(|_| {
                    let l = o.clone();
                    Box::new(move || l.as_object().map(|ob| ob.len()) == Some(2)) as Program
                })
                .collect();
            (progs, Box::new(move || drop(o)))
        };
        explore(out, &format!("owned-readers-{n}"), n, true, &make, if thorough { 100000 } else { 3000 });
    }
    // mixed: readers, a cloner that reads its clone, a reader of a clone dropped early
    for n in [2usize, 3] {
        let make = move || -> (Vec<Program>, Box<dyn FnOnce()>) {
            let lv: Arc<LazyValue<'static>> = Arc::new(sonic_rs::get_from_str(json, &["k"]).unwrap());
            let mut progs: Vec<Program> = Vec::new();
            for i in 0..n {
                let l = lv.clone();
                if i == 0 {
                    progs.push(Box::new(move || l.as_str() == Some(EXPECT)));
                } else if i == 1 {
                    progs.push(Box::new(move || {
                        let c: LazyValue = (*l).clone();
                        let ok = c.as_str() == Some(EXPECT);
                        drop(c);
                        ok
                    }));
                } else {
                    progs.push(Box::new(move || {
                        let c: LazyValue = (*l).clone();
                        drop(c);
                        l.as_str() == Some(EXPECT)
                    }));
                }
            }
            (progs, Box::new(move || drop(lv)))
        };
        explore(out, &format!("lazy-mixed-{n}"), n, false, &make, if thorough { 100000 } else { 3000 });
    }
    for n in [2usize, 3] {
        let make = move || -> (Vec<Program>, Box<dyn FnOnce()>) {
            let o: Arc<OwnedLazyValue> = Arc::new(sonic_rs::from_str(json).unwrap());
            let mut progs: Vec<Program> = Vec::new();
            for i in 0..n {
                let l = o.clone();
                if i == 1 {
                    progs.push(Box::new(move || {
                        let c: OwnedLazyValue = (*l).clone();
                        c.as_object().map(|ob| ob.len()) == Some(2)
                    }));
                } else {
                    progs.push(Box::new(move || l.get("o").and_then(|a| a.as_array().map(|x| x.len())) == Some(3)));
                }
            }
            (progs, Box::new(move || drop(o)))
        };
        explore(out, &format!("owned-mixed-{n}"), n, false, &make, if thorough { 100000 } else { 3000 });
    }
}
