//! C02: validating entry points accept exactly the well-formed JSON texts.
use std::collections::HashMap;

use serde::de::IgnoredAny;
use sonic_rs::{LazyValue, OwnedLazyValue, Value};

use crate::{
    entry::guarded,
    gen::{self, Cfg},
    out::{hex, Out},
    rng::Rng,
};

fn verdict<T>(r: Result<Result<T, sonic_rs::Error>, String>) -> String {
    match r {
        Ok(Ok(_)) => "1".into(),
        Ok(Err(_)) => "0".into(),
        Err(p) => format!("panic:{}", p.replace(['\t', '\n'], " ")),
    }
}

pub fn skip_entries(out: &mut Out, input: &[u8]) {
    let lim = sonic_rs::verif_hooks::parser::MAX_NESTED_DEPTH.to_string();
    let h = hex(input);
    let nt = input.len() > 2;
    let mut one = |name: &str, r: String, out: &mut Out| {
        out.count(&format!("skip:{name}:{}", if r == "1" { "acc" } else { "rej" }));
        // carriers driven through Deserializer::deserialize accept the first value of the input
        let op = if name.starts_with("bytes:") || name.starts_with("faststr:") { "skipfirst" } else { "skipacc" };
        out.case(op, &[&lim, &h, name], &r, nt);
    };
    one("slice:Lazy", verdict(guarded(|| sonic_rs::from_slice::<LazyValue>(input))), out);
    one("slice:OwnedLazy", verdict(guarded(|| sonic_rs::from_slice::<OwnedLazyValue>(input))), out);
    one("slice:Ignored", verdict(guarded(|| sonic_rs::from_slice::<IgnoredAny>(input))), out);
    if let Ok(s) = std::str::from_utf8(input) {
        one("str:Lazy", verdict(guarded(|| sonic_rs::from_str::<LazyValue>(s))), out);
        one("str:OwnedLazy", verdict(guarded(|| sonic_rs::from_str::<OwnedLazyValue>(s))), out);
    }
    one("reader:Lazy", verdict(guarded(|| sonic_rs::from_reader::<_, OwnedLazyValue>(std::io::Cursor::new(input)))), out);
    {
        let b = bytes::Bytes::copy_from_slice(input);
        one("bytes:Lazy", verdict(guarded(|| {
            let mut de = sonic_rs::Deserializer::from_json(&b);
            de.deserialize::<LazyValue>()
        })), out);
    }
}

pub fn full_entries(out: &mut Out, input: &[u8]) {
    let lim = sonic_rs::verif_hooks::parser::MAX_NESTED_DEPTH;
    let slim = sonic_rs::verif_hooks::de::MAX_ALLOWED_DEPTH - 1;
    let h = hex(input);
    let nt = input.len() > 2;
    let mut one = |name: &str, limit: usize, hx: &str, r: String, out: &mut Out| {
        out.count(&format!("full:{name}:{}", if r == "1" { "acc" } else { "rej" }));
        let op = if name.starts_with("bytes:") || name.starts_with("faststr:") { "fullfirst" } else { "fullacc" };
        out.case(op, &[&limit.to_string(), hx, name], &r, nt);
    };
    one("slice:Value", lim, &h, verdict(guarded(|| sonic_rs::from_slice::<Value>(input))), out);
    one("slice:serde_json", slim, &h, verdict(guarded(|| sonic_rs::from_slice::<serde_json::Value>(input))), out);
    one("reader:Value", lim, &h, verdict(guarded(|| sonic_rs::from_reader::<_, Value>(std::io::Cursor::new(input)))), out);
    if let Ok(s) = std::str::from_utf8(input) {
        one("str:Value", lim, &h, verdict(guarded(|| sonic_rs::from_str::<Value>(s))), out);
        one("str:serde_json", slim, &h, verdict(guarded(|| sonic_rs::from_str::<serde_json::Value>(s))), out);
        let f = faststr::FastStr::new(s);
        one("faststr:Value", lim, &h, verdict(guarded(|| {
            let mut de = sonic_rs::Deserializer::from_json(&f);
            de.deserialize::<Value>()
        })), out);
    }
    {
        let b = bytes::Bytes::copy_from_slice(input);
        one("bytes:Value", lim, &h, verdict(guarded(|| {
            let mut de = sonic_rs::Deserializer::from_json(&b);
            de.deserialize::<Value>()
        })), out);
    }
    // Value embedded in a typed container: the element parser is the copying DOM parser
    let mut w = Vec::with_capacity(input.len() + 2);
    w.push(b'[');
    w.extend_from_slice(input);
    w.push(b']');
    one("slice:VecValue", lim + 1, &hex(&w), verdict(guarded(|| sonic_rs::from_slice::<Vec<Value>>(&w))), out);
    let mut w = Vec::with_capacity(input.len() + 8);
    w.extend_from_slice(b"{\"k\":");
    w.extend_from_slice(input);
    w.push(b'}');
    one("slice:MapValue", lim + 1, &hex(&w), verdict(guarded(|| sonic_rs::from_slice::<HashMap<String, Value>>(&w))), out);
}

const TOKENS: &[&[u8]] = &[b"[", b"]", b"{", b"}", b",", b":", b"\"a\"", b"1", b"true", b" ", b"-", b"\"\\u00e9\"", b"1.5e3", b"nul", b"\"", b"0"];

pub fn run(out: &mut Out, tier: &str, seed: u64) {
    let mut rng = Rng::new(seed);
    let thorough = tier == "thorough";
    let ndocs = if thorough { 20000 } else { 2500 };
    let cfg = Cfg::default();
    // structured (mostly valid) and malformed streams
    for i in 0..ndocs {
        let g = gen::gen_doc(&mut rng, &cfg);
        let doc = gen::render_doc(&g, &mut rng, &cfg);
        let input = if i % 3 == 0 {
            out.count("stream:valid");
            doc
        } else {
            let (mut d, label) = gen::mutate(&doc, &mut rng);
            if rng.chance(1, 5) {
                d = gen::mutate(&d, &mut rng).0;
            }
            out.count(&format!("stream:mut:{label}"));
            d
        };
        skip_entries(out, &input);
        full_entries(out, &input);
    }
    // \u escapes at every boundary of the surrogate ranges: alone, as first and as second half of a
    // pair, in a value and in a key, at the end of the text and followed by more text
    const EDGES: [&str; 12] = ["d7ff", "d800", "d801", "dbfe", "dbff", "dc00", "dc01", "dffe", "dfff", "e000", "DFFF", "Dc00"];
    for a in EDGES {
        let mut lits: Vec<String> = vec![format!("\\u{a}")];
        for b in EDGES {
            lits.push(format!("\\u{a}\\u{b}"));
        }
        lits.push(format!("\\u{a}\\n"));
        lits.push(format!("x\\u{a}x"));
        for l in lits {
            for doc in [format!("\"{l}\""), format!("[\"{l}\",1]"), format!("{{\"{l}\":\"{l}\"}}"), format!(" {{\"k\": [\"{l}\"]}} ")] {
                out.count("stream:surrogate-edges");
                skip_entries(out, doc.as_bytes());
                full_entries(out, doc.as_bytes());
            }
        }
    }
    // the number grammar, enumerated: every integer-part length around the digit-count thresholds x every
    // fraction / exponent shape (well-formed and damaged), bare and inside containers
    for (k, lit) in gen::number_grammar().into_iter().enumerate() {
        let docs: Vec<String> = if thorough || k % 3 == 0 {
            vec![lit.clone(), format!("[{lit}]"), format!("{{\"v\":{lit}}}"), format!("[1, {lit} ,2]")]
        } else {
            vec![lit.clone(), if k % 3 == 1 { format!("[{lit}]") } else { format!("{{\"v\":{lit},\"w\":0}}") }]
        };
        for doc in docs {
            out.count("stream:number-grammar");
            skip_entries(out, doc.as_bytes());
            full_entries(out, doc.as_bytes());
        }
    }
    // every byte value as a stray byte at a token boundary, behind 0..3 blanks, with a tail long enough for the
    // 64-byte whitespace bitmap (only space, tab, CR and LF are whitespace, on every code path)
    for b in 0..=255u8 {
        if matches!(b, b' ' | b'\t' | b'\r' | b'\n') {
            continue;
        }
        for k in 0..4usize {
            if !thorough && (b as usize + k) % 2 == 1 {
                continue;
            }
            let blanks = " ".repeat(k);
            let tail = "x".repeat(70);
            let mut docs: Vec<Vec<u8>> = Vec::new();
            for (pre, post) in [("[1,", format!(" 2,\"{tail}\"]")), ("{\"k\":", format!("[],\"t\":\"{tail}\"}}")), ("", format!("12{}", " ".repeat(70))), ("[", format!("{{\"a\":\"b\"}},true,\"{tail}\"]"))] {
                let mut d = pre.as_bytes().to_vec();
                d.extend_from_slice(blanks.as_bytes());
                d.push(b);
                d.extend_from_slice(post.as_bytes());
                docs.push(d);
            }
            for d in docs {
                out.count("stream:stray-byte");
                skip_entries(out, &d);
                full_entries(out, &d);
            }
        }
    }
    // ... and at every token boundary of a document, the end of the text included (behind the value, behind
    // trailing blanks, in front of a closing bracket, a comma or a colon): whitespace is the same four bytes
    // everywhere, also for the scanners of the tail
    {
        let templates: [&[&str]; 4] = [
            &["{", "\"a\"", ":", "[", "1", ",", "true", "]", ",", "\"b\"", ":", "\"x\"", "}"],
            &["[", "null", ",", "{", "}", ",", "-2.5e3", "]"],
            &["\"s\""],
            &["17"],
        ];
        for b in 0..=255u8 {
            if matches!(b, b' ' | b'\t' | b'\r' | b'\n') || (!thorough && b % 3 != 0 && !(b < 0x21 || b == 0x7f || b == 0x85 || b == 0xa0)) {
                continue;
            }
            for (ti, toks) in templates.iter().enumerate() {
                for at in 0..=toks.len() {
                    if !thorough && toks.len() > 1 && at + 2 < toks.len() && (at + ti + b as usize) % 3 != 0 {
                        continue;
                    }
                    for (before, after) in [("", ""), (" ", "\n"), ("\t\r\n ", " ")] {
                        if !thorough && before.len() == 1 && at != toks.len() {
                            continue;
                        }
                        let mut d: Vec<u8> = Vec::new();
                        for (i, t) in toks.iter().enumerate() {
                            if i == at {
                                d.extend_from_slice(before.as_bytes());
                                d.push(b);
                                d.extend_from_slice(after.as_bytes());
                            }
                            d.extend_from_slice(t.as_bytes());
                        }
                        if at == toks.len() {
                            d.extend_from_slice(before.as_bytes());
                            d.push(b);
                            d.extend_from_slice(after.as_bytes());
                        }
                        out.count(if at == toks.len() { "stream:stray-byte-trailing" } else { "stream:stray-byte-boundary" });
                        skip_entries(out, &d);
                        full_entries(out, &d);
                    }
                }
            }
        }
    }
    // nesting depth around the limits
    let lim = sonic_rs::verif_hooks::parser::MAX_NESTED_DEPTH;
    let slim = sonic_rs::verif_hooks::de::MAX_ALLOWED_DEPTH;
    for d in [1usize, 2, lim - 1, lim, lim + 1, lim + 2, slim - 2, slim - 1, slim, slim + 1, 300] {
        for (open, close, inner) in [("[", "]", ""), ("{\"a\":", "}", "1"), ("[{\"k\":", "}]", "null")] {
            let reps = if open.starts_with("[{") { d / 2 } else { d };
            let s = format!("{}{}{}", open.repeat(reps), inner, close.repeat(reps));
            out.count("stream:deep");
            skip_entries(out, s.as_bytes());
            full_entries(out, s.as_bytes());
        }
    }
    // malformed content at and beyond the nesting limits: too deep or malformed, never accepted
    for d in [lim - 2, lim - 1, lim, lim + 1, lim + 2, slim - 1, slim, slim + 1, 300] {
        for payload in ["[1 2]", "[}", "{1:2}", "[1,]", "{\"a\" 1}", "[\"\\q\"]", "[tru]", "{\"a\":1,}", "[01]"] {
            for (open, close) in [("[", "]"), ("{\"k\":", "}")] {
                let s = format!("{}{}{}", open.repeat(d), payload, close.repeat(d));
                out.count("stream:deep-malformed");
                skip_entries(out, s.as_bytes());
                full_entries(out, s.as_bytes());
            }
        }
    }
    // exhaustive token sequences up to a bound
    let maxlen = if thorough { 5 } else { 3 };
    let nt = TOKENS.len();
    for len in 0..=maxlen {
        let total = nt.pow(len as u32);
        for mut k in 0..total {
            let mut s: Vec<u8> = Vec::new();
            for _ in 0..len {
                s.extend_from_slice(TOKENS[k % nt]);
                k /= nt;
            }
            out.count("stream:tokens");
            let h = hex(&s);
            let lim_s = lim.to_string();
            out.case("skipacc", &[&lim_s, &h, "slice:Lazy"], &verdict(guarded(|| sonic_rs::from_slice::<LazyValue>(&s))), true);
            out.case("skipacc", &[&lim_s, &h, "slice:Ignored"], &verdict(guarded(|| sonic_rs::from_slice::<IgnoredAny>(&s))), true);
            out.case("fullacc", &[&lim_s, &h, "slice:Value"], &verdict(guarded(|| sonic_rs::from_slice::<Value>(&s))), true);
            out.case("fullacc", &[&(slim - 1).to_string(), &h, "slice:serde_json"], &verdict(guarded(|| sonic_rs::from_slice::<serde_json::Value>(&s))), true);
        }
    }
}
