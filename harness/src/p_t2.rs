//! T2 tie: every function that lib/rs2coq.py translates into Gallina (coq/Gen/Funcs.v) is run here on
//! the implementation and, by the model runner, on the extracted translation, argument for argument.
//! A panic of the implementation (overflow check, debug assertion, index out of range: the harness is
//! built with both on) must be a `None` of the translation and nothing else.
use crate::{entry::guarded, out::Out, rng::Rng};
use sonic_simd::BitMask;

fn sx(v: i128) -> String {
    if v < 0 {
        format!("-{:x}", -v)
    } else {
        format!("{v:x}")
    }
}

fn res<T>(r: Result<T, String>, f: impl Fn(T) -> String) -> String {
    match r {
        Ok(v) => format!("ok:{}", f(v)),
        Err(_) => "panic".to_string(),
    }
}

fn word(rng: &mut Rng) -> u64 {
    match rng.below(8) {
        0 => rng.next() & rng.next() & rng.next(),
        1 => 1u64 << rng.below(64),
        2 => !0u64 >> rng.below(64),
        3 => !0u64 << rng.below(64),
        4 => (rng.next() >> rng.below(64)) | 1,
        5 => rng.next() | rng.next() | rng.next(),
        _ => rng.next(),
    }
}

/// significand / decimal exponent pairs the number parser can produce, and beyond
fn sig_exp(rng: &mut Rng) -> (i64, u64) {
    let q: i64 = match rng.below(10) {
        0 => *rng.pick(&[-343i64, -342, -341, -308, -307, -28, -27, -26, -5, -4, -3, 0, 22, 23, 24, 54, 55, 56, 287, 288, 307, 308, 309]),
        1 => *rng.pick(&[i64::MIN, i64::MAX, -100_000, 100_000, -65536, 65536, i32::MIN as i64, i32::MAX as i64]),
        2 | 3 => rng.range(0, 60) as i64 - 30,
        _ => rng.range(0, 700) as i64 - 350,
    };
    let w = match rng.below(6) {
        0 => 0,
        1 => u64::MAX - rng.below(3) as u64,
        2 => rng.next() % 10_000_000_000_000_000_000u64,
        3 => (1u64 << 53) + rng.below(5) as u64 - 2,
        _ => word(rng),
    };
    (q, w)
}

pub fn num(out: &mut Out, tier: &str, seed: u64) {
    let mut rng = Rng::new(seed ^ 0x7432_6e75);
    let n = if tier == "thorough" { 60_000 } else { 6_000 };
    for _ in 0..n {
        let (q, w) = sig_exp(&mut rng);
        let r = guarded(|| sonic_number::verif_hooks::compute_float_f64(q, w));
        out.case("t2", &["compute_float_f64", &sx(q as i128), &sx(w as i128)], &res(r, |(f, e)| format!("{},{}", sx(f as i128), sx(e as i128))), true);
        out.count("t2 compute_float_f64");
        let e10 = if rng.chance(1, 8) { *rng.pick(&[-343i64, -342, 308, 309, i32::MIN as i64, i32::MAX as i64, 9870, -9870]) } else { q.clamp(-345, 310) } as i32;
        let r = guarded(|| sonic_number::verif_hooks::parse_floating_normal_fast(e10, w));
        out.case("t2", &["parse_floating_normal_fast", &sx(e10 as i128), &sx(w as i128)], &res(r, |o| o.map_or("none".to_string(), |b| sx(b as i128))), true);
        out.count("t2 parse_floating_normal_fast");
        let (f, e) = (rng.next() >> rng.range(11, 63), rng.range(0, 2051) as i32 - 2);
        let r = guarded(|| sonic_number::verif_hooks::biased_fp_to_bits_f64(f, e));
        out.case("t2", &["biased_fp_to_bits_f64", &sx(f as i128), &sx(e as i128)], &res(r, |b| sx(b as i128)), true);
        let mut v = [0u8; 8];
        for b in v.iter_mut() {
            *b = if rng.chance(7, 8) { b'0' + rng.below(10) as u8 } else { *rng.pick(&[b'/', b':', 0x2f, 0x3a, 0, 0xff, 0x80, 0xb0, 0xba, 0x7f, b'a']) };
        }
        let v = u64::from_le_bytes(v);
        let r = guarded(|| sonic_number::verif_hooks::is_8digits(v));
        out.case("t2", &["is_8digits", &sx(v as i128)], &res(r, |b| (b as u8).to_string()), true);
    }
}

pub fn simd(out: &mut Out, tier: &str, seed: u64) {
    let mut rng = Rng::new(seed ^ 0x7432_7369);
    let n = if tier == "thorough" { 20_000 } else { 2_000 };
    for c in 0..=255u8 {
        let r = guarded(|| sonic_rs::verif_hooks::parser::is_whitespace(c));
        out.case("t2", &["is_whitespace", &sx(c as i128)], &res(r, |b| (b as u8).to_string()), true);
    }
    for _ in 0..n {
        let (a, b) = (word(&mut rng), word(&mut rng));
        let k = rng.below(67);
        macro_rules! masks {
            ($t:ty, $w:expr) => {{
                let (a, b) = (a as $t, b as $t);
                let r = guarded(|| (a.first_offset(), a.before(&b), a.all_zero(), a.as_little_endian()));
                out.case("t2", &["bitmask", $w, &sx(a as i128), &sx(b as i128)], &res(r, |(f, bf, z, le)| format!("{},{},{},{}", sx(f as i128), bf as u8, z as u8, sx(le as i128))), true);
                let r = guarded(|| a.clear_high_bits(k));
                out.case("t2", &["clear_high_bits", $w, &sx(a as i128), &sx(k as i128)], &res(r, |v| sx(v as i128)), true);
            }};
        }
        masks!(u64, "64");
        masks!(u32, "32");
        masks!(u16, "16");
        out.count("t2 bitmask");
        let prev = rng.below(2) as u64;
        let r = guarded(|| sonic_rs::verif_hooks::parser::get_escaped_branchless_u64(prev, a));
        out.case("t2", &["escaped64", &sx(prev as i128), &sx(a as i128)], &res(r, |(e, p)| format!("{},{}", sx(e as i128), sx(p as i128))), true);
        let r = guarded(|| sonic_rs::verif_hooks::parser::get_escaped_branchless_u32(prev as u32, a as u32));
        out.case("t2", &["escaped32", &sx(prev as i128), &sx(a as u32 as i128)], &res(r, |(e, p)| format!("{},{}", sx(e as i128), sx(p as i128))), true);
        // the portable prefix_xor is what the hook calls in the build without PCLMUL; the native one must agree with it
        let mut block = [0u8; 64];
        for b in block.iter_mut() {
            *b = if rng.chance(1, 2) { *rng.pick(b" \t\n\r") } else if rng.chance(1, 2) { *rng.pick(b"\x0b\x0c\x00\x1f!\"a,IJM`\x89\x8a\x8d\xa0\xc9\xe0\x20\x21\x1f") } else { rng.next() as u8 };
        }
        let r = guarded(|| sonic_rs::verif_hooks::get_nonspace_bits(&block));
        out.case("t2", &["nonspace_fallback", &crate::out::hex(&block)], &res(r, |v| sx(v as i128)), true);
        let r = guarded(|| sonic_rs::verif_hooks::prefix_xor(a));
        out.case("t2", &["prefix_xor_fallback", &sx(a as i128)], &res(r, |v| sx(v as i128)), true);
    }
}

pub fn strs(out: &mut Out, tier: &str, seed: u64) {
    let mut rng = Rng::new(seed ^ 0x7432_7374);
    let n = if tier == "thorough" { 40_000 } else { 4_000 };
    for i in 0..n {
        let mut q = [0u8; 4];
        for b in q.iter_mut() {
            *b = if rng.chance(5, 6) { *rng.pick(b"0123456789abcdefABCDEF") } else { rng.next() as u8 };
        }
        let r = guarded(|| sonic_rs::verif_hooks::unicode::hex_to_u32_nocheck(&q));
        out.case("t2", &["hex4", &sx(q[0] as i128), &sx(q[1] as i128), &sx(q[2] as i128), &sx(q[3] as i128)], &res(r, |v| sx(v as i128)), true);
        let cp: u32 = match rng.below(8) {
            0 => *rng.pick(&[0u32, 0x7f, 0x80, 0x7ff, 0x800, 0xd7ff, 0xd800, 0xdfff, 0xe000, 0xffff, 0x10000, 0x10ffff, 0x110000, u32::MAX, 0x1fffff, 0x200000]),
            1 => rng.next() as u32,
            2 => (rng.next() % 0x110000) as u32,
            3 => (i as u32 * 273) % 0x110000,
            _ => (rng.next() % 0x3000) as u32,
        };
        let r = guarded(|| sonic_rs::verif_hooks::unicode::codepoint_to_utf8(cp));
        out.case("t2", &["utf8", &sx(cp as i128)], &res(r, |(b, n)| format!("{},{}", n, crate::out::hex(&b))), true);
    }
    out.add("t2 hex4/utf8", 2 * n as u64);
}

pub fn dom(out: &mut Out, tier: &str, seed: u64) {
    let mut rng = Rng::new(seed ^ 0x7432_646f);
    let n = if tier == "thorough" { 20_000 } else { 2_000 };
    for _ in 0..n {
        let kind = if rng.chance(7, 8) { *rng.pick(&[2u64, 3, 4, 5]) } else { rng.below(10) as u64 };
        let idx = match rng.below(4) {
            0 => (1u32 << 29) - 1 - rng.below(3) as u32,
            1 => rng.next() as u32,
            _ => (rng.next() as u32) >> rng.range(3, 31),
        };
        let len = (rng.next() as u32) >> rng.below(32);
        let r = guarded(|| sonic_rs::verif_hooks::node::meta_pack_unpack(kind, idx, len));
        out.case("t2", &["meta", &sx(kind as i128), &sx(idx as i128), &sx(len as i128)], &res(r, |(w, i, l)| format!("{},{},{}", sx(w as i128), sx(i as i128), sx(l as i128))), idx < (1 << 29));
    }
    out.add("t2 meta", n as u64);
}

/// C20: Position::from_index as translated (a loop over the prefix)
pub fn pos(out: &mut Out, tier: &str, seed: u64) {
    let mut rng = Rng::new(seed ^ 0x7432_706f);
    let n = if tier == "thorough" { 20_000 } else { 2_000 };
    for _ in 0..n {
        let len = rng.below(70);
        let data: Vec<u8> = (0..len).map(|_| if rng.chance(1, 3) { b'\n' } else { *rng.pick(b"ab\x0b\x09\x0d\x8a\x00\xff\x01 x") }).collect();
        let i = rng.below(len + 4);
        let r = guarded(|| sonic_rs::verif_hooks::position_from_index(i, &data));
        out.case("t2", &["from_index", &sx(i as i128), &crate::out::hex(&data)], &res(r, |(l, c)| format!("{},{}", sx(l as i128), sx(c as i128))), true);
    }
    out.add("t2 from_index", n as u64);
}
