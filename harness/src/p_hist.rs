//! C15 (mutable DOM = plain array/map model under every operation history) and
//! C16 (values sharing a parsed arena stay valid in any clone / move / drop order).
use sonic_rs::{JsonContainerTrait, JsonValueMutTrait, JsonValueTrait, Value};

use crate::{
    entry::{guarded, to_pointer},
    gen::{self, Cfg, PathElem},
    out::{hex, Out},
    p_get::sorted_dump,
    rng::Rng,
};

fn paths_of(v: &Value, cur: &mut Vec<PathElem>, out: &mut Vec<Vec<PathElem>>) {
    out.push(cur.clone());
    if let Some(a) = v.as_array() {
        for (i, x) in a.iter().enumerate() {
            cur.push(PathElem::Idx(i));
            paths_of(x, cur, out);
            cur.pop();
        }
    } else if let Some(o) = v.as_object() {
        for (k, x) in o.iter() {
            cur.push(PathElem::Key(k.to_string()));
            paths_of(x, cur, out);
            cur.pop();
        }
    }
}

pub struct Hist {
    pub live: Vec<Option<Value>>,
    pub ops: Vec<String>,
    pub results: Vec<String>,
}

fn all_dumps(live: &[Option<Value>]) -> String {
    live.iter().map(|v| v.as_ref().map(sorted_dump).unwrap_or_else(|| "-".into())).collect::<Vec<_>>().join(";")
}

impl Hist {
    fn record(&mut self, op: String, res: String) {
        self.ops.push(op);
        let d = all_dumps(&self.live);
        self.results.push(format!("{res}@{d}"));
    }

    fn pick_live(&self, rng: &mut Rng) -> Option<usize> {
        let idx: Vec<usize> = self.live.iter().enumerate().filter(|(_, v)| v.is_some()).map(|(i, _)| i).collect();
        if idx.is_empty() {
            None
        } else {
            Some(idx[rng.below(idx.len())])
        }
    }

    /// a value to insert: a clone of (a subtree of) some live value, or a fresh one
    fn donor(&self, rng: &mut Rng) -> Value {
        if rng.chance(1, 3) {
            return match rng.below(5) {
                0 => Value::from(rng.below(100) as u64),
                1 => Value::from("fresh"),
                2 => sonic_rs::json!({"n": [1, 2]}),
                3 => sonic_rs::json!([]),
                _ => Value::new(),
            };
        }
        match self.pick_live(rng) {
            Some(h) => {
                let v = self.live[h].as_ref().unwrap();
                let mut ps = Vec::new();
                paths_of(v, &mut Vec::new(), &mut ps);
                let p = &ps[rng.below(ps.len())];
                v.pointer(to_pointer(p).iter()).cloned().unwrap_or_default()
            }
            None => Value::new(),
        }
    }

    pub fn step(&mut self, rng: &mut Rng, docs_cfg: &Cfg) {
        let choice = rng.below(40);
        if choice == 0 || self.pick_live(rng).is_none() {
            // a new parsed document / built value
            let v: Value = match rng.below(4) {
                0 => sonic_rs::json!({"a": [1, {"b": null}], "c": "x"}),
                1 => sonic_rs::Value::from(vec![Value::from(1u64), Value::from("s")]),
                2 => sonic_rs::Object::new().into_value(),
                _ => {
                    let g = gen::gen_doc(rng, docs_cfg);
                    let doc = gen::render_doc(&g, rng, docs_cfg);
                    sonic_rs::from_slice(&doc).unwrap_or_default()
                }
            };
            let d = sorted_dump(&v);
            self.live.push(Some(v));
            self.record(format!("N{d}"), "u".into());
            return;
        }
        let h = self.pick_live(rng).unwrap();
        let mut ps = Vec::new();
        paths_of(self.live[h].as_ref().unwrap(), &mut Vec::new(), &mut ps);
        let mut p = ps[rng.below(ps.len())].clone();
        if rng.chance(1, 12) {
            p = gen::perturb_path(&p, rng);
        }
        let pa = gen::path_arg(&p);
        let ptr = to_pointer(&p);
        match choice {
            1 => {
                // clone of a subtree
                let c = self.live[h].as_ref().unwrap().pointer(ptr.iter()).cloned();
                match c {
                    Some(v) => {
                        let d = sorted_dump(&v);
                        self.live.push(Some(v));
                        self.record(format!("C{h}:{pa}"), d);
                    }
                    None => self.record(format!("C{h}:{pa}"), "none".into()),
                }
            }
            2 => {
                self.live[h] = None;
                self.record(format!("D{h}"), "u".into());
            }
            3 => {
                let r = self.live[h].as_ref().unwrap().pointer(ptr.iter()).map(sorted_dump).unwrap_or("none".into());
                self.record(format!("G{h}:{pa}"), r);
            }
            _ => {
                let x = self.donor(rng);
                let xd = sorted_dump(&x);
                let key = rng.pick(&["a", "b", "new", "", "k\u{e9}"]).to_string();
                let kh = hex(key.as_bytes());
                let key2 = rng.pick(&["a", "c", "b2"]).to_string();
                let more = (rng.chance(1, 2), self.donor(rng));
                let root = self.live[h].as_mut().unwrap();
                let Some(slot) = root.pointer_mut(ptr.iter()) else {
                    self.record(format!("O{h}:{pa}:len"), "reject".into());
                    return;
                };
                let mut taken: Option<Value> = None;
                let mut check_len = false;
                let (cop, res): (String, String) = match choice {
                    4 | 5 => match slot.as_array_mut() {
                        Some(a) => {
                            a.push(x);
                            (format!("push={xd}"), "u".into())
                        }
                        None => (format!("push={xd}"), "reject".into()),
                    },
                    6 => match slot.as_array_mut() {
                        Some(a) => ("pop".into(), a.pop().map(|v| sorted_dump(&v)).unwrap_or("none".into())),
                        None => ("pop".into(), "reject".into()),
                    },
                    7 => match slot.as_array_mut() {
                        Some(a) if rng.chance(1, 5) => {
                            // out of range: the call is refused (it panics, as Vec does) and must leave the array as it was
                            let i = a.len() + 1 + rng.below(3);
                            let r = guarded(|| a.insert(i, x));
                            check_len = true;
                            (format!("ins={i}={xd}"), if r.is_err() { "reject".into() } else { "u".into() })
                        }
                        Some(a) => {
                            let i = rng.below(a.len() + 1);
                            a.insert(i, x);
                            (format!("ins={i}={xd}"), "u".into())
                        }
                        None => (format!("ins=0={xd}"), "reject".into()),
                    },
                    8 => match slot.as_array_mut() {
                        Some(a) if rng.chance(1, 5) => {
                            let i = a.len() + rng.below(3);
                            let r = guarded(|| {
                                a.remove(i);
                            });
                            check_len = true;
                            (format!("rem={i}"), if r.is_err() { "reject".into() } else { "u".into() })
                        }
                        Some(a) if !a.is_empty() => {
                            let i = rng.below(a.len());
                            a.remove(i);
                            (format!("rem={i}"), "u".into())
                        }
                        Some(_) => ("len".into(), "#0".into()),
                        None => ("rem=0".into(), "reject".into()),
                    },
                    9 => match slot.as_array_mut() {
                        Some(a) if rng.chance(1, 5) => {
                            let i = a.len() + rng.below(3);
                            let r = guarded(|| a.swap_remove(i));
                            check_len = true;
                            (format!("swaprem={i}"), match r { Err(_) => "reject".into(), Ok(v) => sorted_dump(&v) })
                        }
                        Some(a) if !a.is_empty() => {
                            let i = rng.below(a.len());
                            let v = a.swap_remove(i);
                            (format!("swaprem={i}"), sorted_dump(&v))
                        }
                        Some(_) => ("len".into(), "#0".into()),
                        None => ("swaprem=0".into(), "reject".into()),
                    },
                    10 => match slot.as_array_mut() {
                        Some(a) => {
                            let n = rng.below(a.len() + 2);
                            a.truncate(n);
                            (format!("trunc={n}"), "u".into())
                        }
                        None => ("trunc=0".into(), "reject".into()),
                    },
                    11 => {
                        if let Some(a) = slot.as_array_mut() {
                            a.clear();
                            ("clear".into(), "u".into())
                        } else if let Some(o) = slot.as_object_mut() {
                            o.clear();
                            ("clear".into(), "u".into())
                        } else {
                            ("clear".into(), "reject".into())
                        }
                    }
                    12 => {
                        if let Some(a) = slot.as_array() {
                            ("len".into(), format!("#{}", a.len()))
                        } else if let Some(o) = slot.as_object() {
                            ("len".into(), format!("#{}", o.len()))
                        } else {
                            ("len".into(), "reject".into())
                        }
                    }
                    13 | 14 => match slot.as_object_mut() {
                        Some(o) => (format!("oins={kh}={xd}"), o.insert(&key, x).map(|v| sorted_dump(&v)).unwrap_or("none".into())),
                        None => (format!("oins={kh}={xd}"), "reject".into()),
                    },
                    15 => match slot.as_object_mut() {
                        Some(o) => (format!("orem={kh}"), o.remove(&key).map(|v| sorted_dump(&v)).unwrap_or("none".into())),
                        None => (format!("orem={kh}"), "reject".into()),
                    },
                    16 => match slot.as_object() {
                        Some(o) => (format!("oget={kh}"), o.get(&key).map(sorted_dump).unwrap_or("none".into())),
                        None => (format!("oget={kh}"), "reject".into()),
                    },
                    17 => match slot.as_object() {
                        Some(o) => (format!("ohas={kh}"), if o.contains_key(&key) { "b1".into() } else { "b0".into() }),
                        None => (format!("ohas={kh}"), "reject".into()),
                    },
                    18 | 19 => match slot.as_object_mut() {
                        Some(o) => {
                            let r = sorted_dump(o.entry(&key).or_insert(x));
                            (format!("entry={kh}={xd}"), r)
                        }
                        None => (format!("entry={kh}={xd}"), "reject".into()),
                    },
                    20 => {
                        if slot.is_object() || slot.is_null() {
                            slot[key.as_str()] = x;
                            (format!("idx={kh}={xd}"), "u".into())
                        } else {
                            (format!("idx={kh}={xd}"), "reject".into())
                        }
                    }
                    21 => {
                        *slot = x;
                        (format!("set={xd}"), "u".into())
                    }
                    22 | 23 => {
                        let v = slot.take();
                        let d = sorted_dump(&v);
                        taken = Some(v);
                        ("take".into(), d)
                    }
                    // ---- second round: the rest of the public mutation API
                    24 => match slot.as_array_mut() {
                        Some(a) => {
                            let mut other = sonic_rs::Array::new();
                            other.push(x);
                            if more.0 {
                                other.push(more.1.clone());
                            }
                            let od = sorted_dump(&other.clone().into_value());
                            a.append(&mut other);
                            (format!("aappend={od}"), if other.is_empty() { "u".into() } else { "other-not-emptied".into() })
                        }
                        None => ("aappend=[]".into(), "reject".into()),
                    },
                    25 | 26 => match slot.as_object_mut() {
                        Some(o) => {
                            let mut other = sonic_rs::Object::new();
                            other.insert(&key, x);
                            other.insert(&key2, more.1.clone());
                            if more.0 {
                                other.insert(&"zz", 7u64);
                            }
                            let od = sorted_dump(&other.clone().into_value());
                            o.append(&mut other);
                            (format!("oappend={od}"), if other.is_empty() { "u".into() } else { "other-not-emptied".into() })
                        }
                        None => ("oappend={}".into(), "reject".into()),
                    },
                    27 => {
                        if let Some(a) = slot.as_array_mut() {
                            if more.0 {
                                a.retain(|v| !v.is_null());
                            } else {
                                a.retain_mut(|v| !v.is_null());
                            }
                            ("retain".into(), "u".into())
                        } else if let Some(o) = slot.as_object_mut() {
                            o.retain(|_, v| !v.is_null());
                            ("retain".into(), "u".into())
                        } else {
                            ("retain".into(), "reject".into())
                        }
                    }
                    28 => match slot.as_array_mut() {
                        Some(a) => {
                            let n = rng.below(a.len() + 1);
                            let tail = a.split_off(n);
                            (format!("splitoff={n}"), sorted_dump(&tail.into_value()))
                        }
                        None => ("splitoff=0".into(), "reject".into()),
                    },
                    29 => match slot.as_array_mut() {
                        Some(a) => {
                            let n = rng.below(a.len() + 3);
                            if more.0 {
                                a.resize(n, x);
                            } else {
                                let xc = x.clone();
                                a.resize_with(n, || xc.clone());
                            }
                            (format!("resize={n}={xd}"), "u".into())
                        }
                        None => (format!("resize=0={xd}"), "reject".into()),
                    },
                    30 => match slot.as_array_mut() {
                        Some(a) => {
                            let b = rng.below(a.len() + 1);
                            let lo = rng.below(b + 1);
                            a.extend_from_within(lo..b);
                            (format!("extwithin={lo}={b}"), "u".into())
                        }
                        None => ("extwithin=0=0".into(), "reject".into()),
                    },
                    31 => match slot.as_array_mut() {
                        Some(a) => {
                            let b = rng.below(a.len() + 1);
                            let lo = rng.below(b + 1);
                            let drained: Vec<Value> = a.drain(lo..b).collect();
                            (format!("drain={lo}={b}"), sorted_dump(&Value::from(drained)))
                        }
                        None => ("drain=0=0".into(), "reject".into()),
                    },
                    32 => match slot.as_array_mut() {
                        Some(a) if !a.is_empty() => {
                            let (i, j) = (rng.below(a.len()), rng.below(a.len()));
                            a.as_mut_slice().swap(i, j);
                            (format!("swap={i}={j}"), "u".into())
                        }
                        Some(_) => ("len".into(), "#0".into()),
                        None => ("swap=0=0".into(), "reject".into()),
                    },
                    33 => match slot.as_object_mut() {
                        Some(o) => {
                            let r = match o.remove_entry(&key) {
                                Some((k, v)) => {
                                    if k == key {
                                        sorted_dump(&v)
                                    } else {
                                        format!("wrong-key:{k}")
                                    }
                                }
                                None => "none".into(),
                            };
                            (format!("rementry={kh}"), r)
                        }
                        None => (format!("rementry={kh}"), "reject".into()),
                    },
                    34 | 35 => match slot.as_object_mut() {
                        Some(o) => {
                            let y = more.1.clone();
                            let yd = sorted_dump(&y);
                            let xc = x.clone();
                            let r = sorted_dump(o.entry(&key).and_modify(|v| *v = xc).or_insert(y));
                            (format!("emod={kh}={xd}={yd}"), r)
                        }
                        None => (format!("emod={kh}={xd}=n"), "reject".into()),
                    },
                    36 => match slot.as_object_mut() {
                        Some(o) => {
                            let r = if more.0 { sorted_dump(o.entry(&key).or_default()) } else { sorted_dump(o.entry(&key).or_insert_with(Value::new)) };
                            (format!("edef={kh}"), r)
                        }
                        None => (format!("edef={kh}"), "reject".into()),
                    },
                    37 => match slot.as_object_mut() {
                        Some(o) => {
                            let r = match o.entry(&key) {
                                sonic_rs::value::object::Entry::Occupied(e) => sorted_dump(&e.remove()),
                                sonic_rs::value::object::Entry::Vacant(_) => "none".into(),
                            };
                            (format!("erem={kh}"), r)
                        }
                        None => (format!("erem={kh}"), "reject".into()),
                    },
                    38 => match slot.as_object_mut() {
                        Some(o) => {
                            let r = match o.entry(&key) {
                                sonic_rs::value::object::Entry::Occupied(mut e) => sorted_dump(&e.insert(x)),
                                sonic_rs::value::object::Entry::Vacant(e) => {
                                    e.insert(x);
                                    "none".into()
                                }
                            };
                            (format!("eins={kh}={xd}"), r)
                        }
                        None => (format!("eins={kh}={xd}"), "reject".into()),
                    },
                    _ => {
                        if let Some(a) = slot.as_array_mut() {
                            for v in a.iter_mut() {
                                if v.is_null() {
                                    *v = x.clone();
                                }
                            }
                            (format!("fillnulls={xd}"), "u".into())
                        } else if let Some(o) = slot.as_object_mut() {
                            for (_, v) in o.iter_mut() {
                                if v.is_null() {
                                    *v = x.clone();
                                }
                            }
                            (format!("fillnulls={xd}"), "u".into())
                        } else {
                            (format!("fillnulls={xd}"), "reject".into())
                        }
                    }
                };
                if let Some(v) = taken {
                    self.live.push(Some(v));
                }
                self.record(format!("O{h}:{pa}:{cop}"), res);
                if check_len {
                    // a refused operation leaves the container untouched: observe it at once
                    let l = self.live[h].as_ref().unwrap().pointer(ptr.iter()).and_then(|s| s.as_array().map(|a| a.len()));
                    self.record(format!("O{h}:{pa}:len"), l.map(|n| format!("#{n}")).unwrap_or("reject".into()));
                    let r = self.live[h].as_ref().unwrap().pointer(ptr.iter()).map(sorted_dump).unwrap_or("none".into());
                    self.record(format!("G{h}:{pa}"), r);
                }
            }
        }
    }
}

pub fn run_c15(out: &mut Out, tier: &str, seed: u64) {
    let mut rng = Rng::new(seed);
    // recorded witness of known finding F6 (duplicate names: first-wins before promotion, last-wins after)
    {
        let r = guarded(|| {
            let mut v: Value = sonic_rs::from_str(r#"{"a":1,"a":2}"#).unwrap();
            let before = v.get("a").and_then(|x| x.as_u64());
            v.as_object_mut().unwrap().insert(&"b", 0);
            let after = v.get("a").and_then(|x| x.as_u64());
            before == after
        });
        out.case("expect", &["F6 witness: get(a) on {a:1,a:2} is the same before and after insert(b)"], if r == Ok(true) { "true" } else { "false" }, true);
    }
    // values built by macros and conversions from members with repeated names are the map the same inserts build
    // (the later value of a name replaces the earlier one), as with std maps and serde_json
    {
        use std::collections::BTreeMap;
        let want = |pairs: &[(&str, i64)]| -> String {
            let mut m: BTreeMap<String, i64> = BTreeMap::new();
            for (k, v) in pairs {
                m.insert(k.to_string(), *v);
            }
            sorted_dump(&sonic_rs::to_value(&m).unwrap())
        };
        let check = |out: &mut Out, how: &str, got: Result<Value, String>, pairs: &[(&str, i64)]| {
            let verdict = match got {
                Ok(v) if sorted_dump(&v) == want(pairs) => "true".to_string(),
                Ok(v) => format!("{} instead of {}", sorted_dump(&v), want(pairs)),
                Err(p) => format!("panic:{p}"),
            };
            out.case("expect", &["construction with repeated member names", how], &verdict, true);
        };
        let p1: [(&str, i64); 3] = [("a", 1), ("b", 2), ("a", 3)];
        check(out, "json!", guarded(|| sonic_rs::json!({"a": 1, "b": 2, "a": 3})), &p1);
        check(out, "object!", guarded(|| sonic_rs::object! {"a": 1, "b": 2, "a": 3}.into_value()), &p1);
        let names = ["a", "b", "k\u{e9}", "", "a2"];
        for _ in 0..(if tier == "thorough" { 3000 } else { 400 }) {
            let n = rng.range(1, 7);
            let pairs: Vec<(&str, i64)> = (0..n).map(|i| (*rng.pick(&names), i as i64 * 10 + rng.below(3) as i64)).collect();
            let pv: Vec<(String, Value)> = pairs.iter().map(|(k, v)| (k.to_string(), Value::from(*v))).collect();
            check(out, "Object::from_iter", guarded(|| pv.iter().map(|(k, v)| (k.as_str(), v)).collect::<sonic_rs::Object>().into_value()), &pairs);
            check(out, "Value::from_iter", guarded(|| pv.iter().map(|(k, v)| (k.as_str(), v)).collect::<Value>()), &pairs);
            check(out, "Object::extend", guarded(|| {
                let mut o = sonic_rs::Object::new();
                o.extend(pv.iter().map(|(k, v)| (k.as_str(), v)));
                o.into_value()
            }), &pairs);
            check(out, "insert sequence", guarded(|| {
                let mut o = sonic_rs::Object::new();
                for (k, v) in &pv {
                    o.insert(k, v.clone());
                }
                o.into_value()
            }), &pairs);
            // a Serialize implementation that emits the same name twice, converted by to_value
            struct Rep<'a>(&'a [(&'a str, i64)]);
            impl serde::Serialize for Rep<'_> {
                fn serialize<S: serde::Serializer>(&self, s: S) -> Result<S::Ok, S::Error> {
                    use serde::ser::SerializeMap;
                    let mut m = s.serialize_map(Some(self.0.len()))?;
                    for (k, v) in self.0 {
                        m.serialize_entry(k, v)?;
                    }
                    m.end()
                }
            }
            check(out, "to_value of a map with a repeated name", guarded(|| sonic_rs::to_value(&Rep(&pairs)).unwrap()), &pairs);
            out.count("constructions");
        }
    }
    // consuming iterators are values too: a cloned IntoIter is independent of the one it was cloned from, and of the
    // array (parsed, owned or shared with an earlier clone) it came from
    for _ in 0..(if tier == "thorough" { 3000 } else { 400 }) {
        let n = rng.range(1, 6);
        let text = format!("[{}]", (0..n).map(|i| format!("{{\"i\":{i}}}")).collect::<Vec<_>>().join(","));
        let how = rng.below(3);
        let k = rng.below(n + 1);
        let r = guarded(|| {
            let v: Value = sonic_rs::from_str(&text).unwrap();
            let keep = v.clone();
            let arr = match how {
                0 => v.into_array().unwrap(),
                1 => {
                    let mut a = v.into_array().unwrap();
                    a.push(Value::new());
                    a.pop();
                    a
                }
                _ => keep.clone().into_array().unwrap(),
            };
            let mut it = arr.into_iter();
            let mut first: Vec<Value> = Vec::new();
            for _ in 0..k {
                first.push(it.next().unwrap());
            }
            let other = it.clone();
            let a: Vec<String> = other.map(|x| sorted_dump(&x)).collect();
            let b: Vec<String> = it.map(|x| sorted_dump(&x)).collect();
            let want: Vec<String> = keep.as_array().unwrap().iter().skip(k).map(sorted_dump).collect();
            (a == want, b == want, sorted_dump(&keep) == sorted_dump(&sonic_rs::from_str::<Value>(&text).unwrap()))
        });
        out.case("expect", &["a cloned IntoIter, the original and the source document yield the same elements", &format!("{text} how={how} k={k}")], &match r {
            Ok((true, true, true)) => "true".to_string(),
            Ok(t) => format!("{t:?}"),
            Err(p) => format!("panic:{p}"),
        }, true);
    }
    let n = if tier == "thorough" { 20000 } else { 2500 };
    let cfg = Cfg { max_depth: 2, max_width: 3, dup_free: true, long_strings: false, ..Cfg::default() };
    for _ in 0..n {
        let len = rng.range(3, 25);
        let mut hrng = rng.fork();
        let r = guarded(|| {
            let mut h = Hist { live: Vec::new(), ops: Vec::new(), results: Vec::new() };
            for _ in 0..len {
                h.step(&mut hrng, &cfg);
            }
            (h.ops.join(" "), h.results.join("|"))
        });
        match r {
            Ok((ops, res)) => {
                out.count("history");
                out.add("steps", len as u64);
                out.case("domhist", &[&ops], &res, true);
            }
            Err(p) => out.case("domhist", &["(panic before the transcript was complete)"], &format!("panic:{p}"), true),
        }
    }
}

// ---------------------------------------------------------------- C16

/// the distinct root-kind nodes reachable in `v` that point into the arena at `addr`
/// (owned containers are `Arc`s and may be shared between clones: a node is counted once)
fn count_handles(v: &Value, addr: usize, acc: &mut std::collections::HashSet<usize>) {
    if sonic_rs::verif_hooks::node::is_root_kind(v) && sonic_rs::verif_hooks::node::arena_addr(v) == addr {
        acc.insert(v as *const Value as usize);
    }
    // owned containers hold further values
    if sonic_rs::verif_hooks::node::is_owned_container(v) {
        if let Some(a) = v.as_array() {
            for x in a.iter() {
                count_handles(x, addr, acc);
            }
        } else if let Some(o) = v.as_object() {
            for (_, x) in o.iter() {
                count_handles(x, addr, acc);
            }
        }
    }
}

pub fn run_c16(out: &mut Out, tier: &str, seed: u64) {
    let mut rng = Rng::new(seed);
    let n = if tier == "thorough" { 20000 } else { 2500 };
    let cfg = Cfg { max_depth: 2, max_width: 3, dup_free: true, long_strings: false, ..Cfg::default() };
    // independent lifetimes: values parsed (whole input, embedded, streamed, raw-number mode) from a
    // buffer that is overwritten and freed before they are read
    for _ in 0..(n / 10) {
        let g = gen::gen_doc(&mut rng, &cfg);
        let doc = gen::render_doc(&g, &mut rng, &cfg);
        out.count("independent-lifetime docs");
        crate::p_dom::dom_drivers(out, &doc, false);
    }
    // values delivered by one deserializer / stream stay intact when a LATER value of the same
    // deserializer fails to parse, is dropped half-built, or the deserializer itself is dropped:
    // k good documents, then a malformed one, then (sometimes) more good ones; every delivered value,
    // a clone and an extracted child are read after the failure and after the deserializer is gone
    for round in 0..(n / 5) {
        let k = 1 + rng.below(4);
        let mut docs: Vec<Vec<u8>> = Vec::new();
        for _ in 0..k {
            let g = gen::gen_doc(&mut rng, &cfg);
            docs.push(gen::render_doc(&g, &mut rng, &cfg));
        }
        let bad: &[u8] = *rng.pick(&[&b"]"[..], b"{\"a\":", b"[1,", b"\"abc", b"{\"k\":[1,2,{\"x\":tru}]}", b"[[[[[[1,2,3],4],5],6],7]"]);
        let tail = { let g = gen::gen_doc(&mut rng, &cfg); gen::render_doc(&g, &mut rng, &cfg) };
        let mut text: Vec<u8> = b"0 ".to_vec();
        for d in &docs {
            text.extend_from_slice(d);
            text.push(b' ');
        }
        text.extend_from_slice(bad);
        text.push(b' ');
        text.extend_from_slice(&tail);
        let expected: Vec<String> = docs.iter().map(|d| sonic_rs::from_slice::<Value>(d).map(|v| sorted_dump(&v)).unwrap_or_else(|_| "unparsable".into())).collect();
        let via_stream = round % 2 == 0;
        let r = guarded(|| {
            let mut kept: Vec<Value> = Vec::new();
            let mut after: Vec<String> = Vec::new();
            if via_stream {
                let mut st = sonic_rs::Deserializer::from_slice(&text).into_stream::<Value>();
                let _ = st.next();
                for _ in 0..k {
                    match st.next() {
                        Some(Ok(v)) => kept.push(v),
                        _ => return "stream ended before the malformed document".to_string(),
                    }
                }
                let failed = matches!(st.next(), Some(Err(_)));
                after.push(format!("failed={failed}"));
                drop(st);
            } else {
                let mut de = sonic_rs::Deserializer::from_slice(&text);
                let _ = de.deserialize::<Value>();
                for _ in 0..k {
                    match de.deserialize::<Value>() {
                        Ok(v) => kept.push(v),
                        Err(_) => return "deserializer failed before the malformed document".to_string(),
                    }
                }
                let failed = de.deserialize::<Value>().is_err();
                after.push(format!("failed={failed}"));
                // one more attempt after the failure, then the deserializer goes away
                let _ = de.deserialize::<Value>();
                drop(de);
            }
            // scribble over freshly freed memory
            let junk: Vec<Vec<u8>> = (0..8).map(|i| vec![0xA5u8; 64 << i]).collect();
            drop(junk);
            let mut verdict = String::from("ok");
            for (i, v) in kept.iter().enumerate() {
                let c = v.clone();
                if sorted_dump(v) != expected[i] || sorted_dump(&c) != expected[i] {
                    verdict = format!("document {i} delivered before the failure reads differently after it");
                }
            }
            verdict
        });
        out.count(if via_stream { "failure-after-delivery (stream)" } else { "failure-after-delivery (deserialize)" });
        out.case("arcinv", &[&hex(&text)], &r.unwrap_or_else(|p| format!("panic:{p}")), true);
    }
    for _ in 0..n {
        let len = rng.range(3, 30);
        let mut hrng = rng.fork();
        let r = guarded(|| {
            let mut h = Hist { live: Vec::new(), ops: Vec::new(), results: Vec::new() };
            let mut verdict = String::from("ok");
            for stepno in 0..len {
                h.step(&mut hrng, &cfg);
                // invariant: for every arena reachable from a live value, its strong count equals the number
                // of live root-kind values that point into it
                let mut arenas: Vec<usize> = Vec::new();
                for v in h.live.iter().flatten() {
                    collect_arenas(v, &mut arenas);
                }
                arenas.sort();
                arenas.dedup();
                for a in arenas {
                    let mut handles = std::collections::HashSet::new();
                    let mut count = None;
                    for v in h.live.iter().flatten() {
                        count_handles(v, a, &mut handles);
                        if count.is_none() {
                            count = find_count(v, a);
                        }
                    }
                    let handles = handles.len();
                    if count != Some(handles) && verdict == "ok" {
                        verdict = format!("step {stepno} ({}): arena strong count {:?} but {handles} live handles", h.ops.last().cloned().unwrap_or_default(), count);
                    }
                }
            }
            // drop everything in a random order; survivors read exactly as they did while everything was alive, and
            // nothing they hold reads as freed memory (the harness allocator overwrites freed blocks with 0xDD; seven
            // of those bytes in a row cannot occur in a decoded string)
            const FREED: &str = "dddddddddddddddd";
            let snap: Vec<Option<String>> = h.live.iter().map(|v| v.as_ref().map(sorted_dump)).collect();
            for (j, s) in snap.iter().enumerate() {
                if s.as_deref().is_some_and(|s| s.contains(FREED)) && verdict == "ok" {
                    verdict = format!("value {j} reads freed memory at the end of the history ({})", h.ops.last().cloned().unwrap_or_default());
                }
            }
            let mut order: Vec<usize> = (0..h.live.len()).collect();
            for i in (1..order.len()).rev() {
                order.swap(i, hrng.below(i + 1));
            }
            for i in order.iter() {
                h.live[*i] = None;
                for (j, v) in h.live.iter().enumerate() {
                    if let Some(v) = v {
                        let d = sorted_dump(v);
                        if Some(&d) != snap[j].as_ref() && verdict == "ok" {
                            verdict = format!("after dropping value {i}, value {j} reads differently: {} instead of {}", &d[..d.len().min(120)], snap[j].as_deref().map(|s| &s[..s.len().min(120)]).unwrap_or(""));
                        }
                    }
                }
            }
            (h.ops.join(" "), verdict)
        });
        match r {
            Ok((ops, verdict)) => {
                out.count("history");
                out.case("arcinv", &[&ops], &verdict, true);
            }
            Err(p) => out.case("arcinv", &["(panic)"], &format!("panic:{p}"), true),
        }
    }
}

fn collect_arenas(v: &Value, acc: &mut Vec<usize>) {
    let a = sonic_rs::verif_hooks::node::arena_addr(v);
    if a != 0 {
        acc.push(a);
    }
    if sonic_rs::verif_hooks::node::is_owned_container(v) {
        if let Some(arr) = v.as_array() {
            for x in arr.iter() {
                collect_arenas(x, acc);
            }
        } else if let Some(o) = v.as_object() {
            for (_, x) in o.iter() {
                collect_arenas(x, acc);
            }
        }
    }
}

fn find_count(v: &Value, addr: usize) -> Option<usize> {
    if sonic_rs::verif_hooks::node::arena_addr(v) == addr {
        return sonic_rs::verif_hooks::node::arena_strong_count(v);
    }
    if sonic_rs::verif_hooks::node::is_owned_container(v) {
        if let Some(arr) = v.as_array() {
            for x in arr.iter() {
                if let Some(c) = find_count(x, addr) {
                    return Some(c);
                }
            }
        } else if let Some(o) = v.as_object() {
            for (_, x) in o.iter() {
                if let Some(c) = find_count(x, addr) {
                    return Some(c);
                }
            }
        }
    }
    None
}
