//! C15 (mutable DOM = plain array/map model under every operation history) and
//! C16 (values sharing a parsed arena stay valid in any clone / move / drop order).
use sonic_rs::{JsonContainerTrait, JsonValueMutTrait, JsonValueTrait, Value};

use crate::{
    entry::{guarded, to_pointer},
    gen::{self, Cfg, PathElem},
    out::{hex, Out},
    p_get::sorted_dump,
    rng::Rng,
};

fn paths_of(v: &Value, cur: &mut Vec<PathElem>, out: &mut Vec<Vec<PathElem>>) {
    out.push(cur.clone());
    if let Some(a) = v.as_array() {
        for (i, x) in a.iter().enumerate() {
            cur.push(PathElem::Idx(i));
            paths_of(x, cur, out);
            cur.pop();
        }
    } else if let Some(o) = v.as_object() {
        for (k, x) in o.iter() {
            cur.push(PathElem::Key(k.to_string()));
            paths_of(x, cur, out);
            cur.pop();
        }
    }
}

pub struct Hist {
    pub live: Vec<Option<Value>>,
    pub ops: Vec<String>,
    pub results: Vec<String>,
}

fn all_dumps(live: &[Option<Value>]) -> String {
    live.iter().map(|v| v.as_ref().map(sorted_dump).unwrap_or_else(|| "-".into())).collect::<Vec<_>>().join(";")
}

impl Hist {
    fn record(&mut self, op: String, res: String) {
        self.ops.push(op);
        let d = all_dumps(&self.live);
        self.results.push(format!("{res}@{d}"));
    }

    fn pick_live(&self, rng: &mut Rng) -> Option<usize> {
        let idx: Vec<usize> = self.live.iter().enumerate().filter(|(_, v)| v.is_some()).map(|(i, _)| i).collect();
        if idx.is_empty() {
            None
        } else {
            Some(idx[rng.below(idx.len())])
        }
    }

    /// a value to insert: a clone of (a subtree of) some live value, or a fresh one
    fn donor(&self, rng: &mut Rng) -> Value {
        if rng.chance(1, 3) {
            return match rng.below(5) {
                0 => Value::from(rng.below(100) as u64),
                1 => Value::from("fresh"),
                2 => sonic_rs::json!({"n": [1, 2]}),
                3 => sonic_rs::json!([]),
                _ => Value::new(),
            };
        }
        match self.pick_live(rng) {
            Some(h) => {
                let v = self.live[h].as_ref().unwrap();
                let mut ps = Vec::new();
                paths_of(v, &mut Vec::new(), &mut ps);
                let p = &ps[rng.below(ps.len())];
                v.pointer(to_pointer(p).iter()).cloned().unwrap_or_default()
            }
            None => Value::new(),
        }
    }

    pub fn step(&mut self, rng: &mut Rng, docs_cfg: &Cfg) {
        let choice = rng.below(24);
        if choice == 0 || self.pick_live(rng).is_none() {
            // a new parsed document / built value
            let v: Value = match rng.below(4) {
                0 => sonic_rs::json!({"a": [1, {"b": null}], "c": "x"}),
                1 => sonic_rs::Value::from(vec![Value::from(1u64), Value::from("s")]),
                2 => sonic_rs::Object::new().into_value(),
                _ => {
                    let g = gen::gen_doc(rng, docs_cfg);
                    let doc = gen::render_doc(&g, rng, docs_cfg);
                    sonic_rs::from_slice(&doc).unwrap_or_default()
                }
            };
            let d = sorted_dump(&v);
            self.live.push(Some(v));
            self.record(format!("N{d}"), "u".into());
            return;
        }
        let h = self.pick_live(rng).unwrap();
        let mut ps = Vec::new();
        paths_of(self.live[h].as_ref().unwrap(), &mut Vec::new(), &mut ps);
        let mut p = ps[rng.below(ps.len())].clone();
        if rng.chance(1, 12) {
            p = gen::perturb_path(&p, rng);
        }
        let pa = gen::path_arg(&p);
        let ptr = to_pointer(&p);
        match choice {
            1 => {
                // clone of a subtree
                let c = self.live[h].as_ref().unwrap().pointer(ptr.iter()).cloned();
                match c {
                    Some(v) => {
                        let d = sorted_dump(&v);
                        self.live.push(Some(v));
                        self.record(format!("C{h}:{pa}"), d);
                    }
                    None => self.record(format!("C{h}:{pa}"), "none".into()),
                }
            }
            2 => {
                self.live[h] = None;
                self.record(format!("D{h}"), "u".into());
            }
            3 => {
                let r = self.live[h].as_ref().unwrap().pointer(ptr.iter()).map(sorted_dump).unwrap_or("none".into());
                self.record(format!("G{h}:{pa}"), r);
            }
            _ => {
                let x = self.donor(rng);
                let xd = sorted_dump(&x);
                let key = rng.pick(&["a", "b", "new", "", "k\u{e9}"]).to_string();
                let kh = hex(key.as_bytes());
                let root = self.live[h].as_mut().unwrap();
                let Some(slot) = root.pointer_mut(ptr.iter()) else {
                    self.record(format!("O{h}:{pa}:len"), "reject".into());
                    return;
                };
                let mut taken: Option<Value> = None;
                let (cop, res): (String, String) = match choice {
                    4 | 5 => match slot.as_array_mut() {
                        Some(a) => {
                            a.push(x);
                            (format!("push={xd}"), "u".into())
                        }
                        None => (format!("push={xd}"), "reject".into()),
                    },
                    6 => match slot.as_array_mut() {
                        Some(a) => ("pop".into(), a.pop().map(|v| sorted_dump(&v)).unwrap_or("none".into())),
                        None => ("pop".into(), "reject".into()),
                    },
                    7 => match slot.as_array_mut() {
                        Some(a) => {
                            let i = rng.below(a.len() + 1);
                            a.insert(i, x);
                            (format!("ins={i}={xd}"), "u".into())
                        }
                        None => (format!("ins=0={xd}"), "reject".into()),
                    },
                    8 => match slot.as_array_mut() {
                        Some(a) if !a.is_empty() => {
                            let i = rng.below(a.len());
                            a.remove(i);
                            (format!("rem={i}"), "u".into())
                        }
                        Some(_) => ("len".into(), "#0".into()),
                        None => ("rem=0".into(), "reject".into()),
                    },
                    9 => match slot.as_array_mut() {
                        Some(a) if !a.is_empty() => {
                            let i = rng.below(a.len());
                            let v = a.swap_remove(i);
                            (format!("swaprem={i}"), sorted_dump(&v))
                        }
                        Some(_) => ("len".into(), "#0".into()),
                        None => ("swaprem=0".into(), "reject".into()),
                    },
                    10 => match slot.as_array_mut() {
                        Some(a) => {
                            let n = rng.below(a.len() + 2);
                            a.truncate(n);
                            (format!("trunc={n}"), "u".into())
                        }
                        None => ("trunc=0".into(), "reject".into()),
                    },
                    11 => {
                        if let Some(a) = slot.as_array_mut() {
                            a.clear();
                            ("clear".into(), "u".into())
                        } else if let Some(o) = slot.as_object_mut() {
                            o.clear();
                            ("clear".into(), "u".into())
                        } else {
                            ("clear".into(), "reject".into())
                        }
                    }
                    12 => {
                        if let Some(a) = slot.as_array() {
                            ("len".into(), format!("#{}", a.len()))
                        } else if let Some(o) = slot.as_object() {
                            ("len".into(), format!("#{}", o.len()))
                        } else {
                            ("len".into(), "reject".into())
                        }
                    }
                    13 | 14 => match slot.as_object_mut() {
                        Some(o) => (format!("oins={kh}={xd}"), o.insert(&key, x).map(|v| sorted_dump(&v)).unwrap_or("none".into())),
                        None => (format!("oins={kh}={xd}"), "reject".into()),
                    },
                    15 => match slot.as_object_mut() {
                        Some(o) => (format!("orem={kh}"), o.remove(&key).map(|v| sorted_dump(&v)).unwrap_or("none".into())),
                        None => (format!("orem={kh}"), "reject".into()),
                    },
                    16 => match slot.as_object() {
                        Some(o) => (format!("oget={kh}"), o.get(&key).map(sorted_dump).unwrap_or("none".into())),
                        None => (format!("oget={kh}"), "reject".into()),
                    },
                    17 => match slot.as_object() {
                        Some(o) => (format!("ohas={kh}"), if o.contains_key(&key) { "b1".into() } else { "b0".into() }),
                        None => (format!("ohas={kh}"), "reject".into()),
                    },
                    18 | 19 => match slot.as_object_mut() {
                        Some(o) => {
                            let r = sorted_dump(o.entry(&key).or_insert(x));
                            (format!("entry={kh}={xd}"), r)
                        }
                        None => (format!("entry={kh}={xd}"), "reject".into()),
                    },
                    20 => {
                        if slot.is_object() || slot.is_null() {
                            slot[key.as_str()] = x;
                            (format!("idx={kh}={xd}"), "u".into())
                        } else {
                            (format!("idx={kh}={xd}"), "reject".into())
                        }
                    }
                    21 => {
                        *slot = x;
                        (format!("set={xd}"), "u".into())
                    }
                    _ => {
                        let v = slot.take();
                        let d = sorted_dump(&v);
                        taken = Some(v);
                        ("take".into(), d)
                    }
                };
                if let Some(v) = taken {
                    self.live.push(Some(v));
                }
                self.record(format!("O{h}:{pa}:{cop}"), res);
            }
        }
    }
}

pub fn run_c15(out: &mut Out, tier: &str, seed: u64) {
    let mut rng = Rng::new(seed);
    // recorded witness of known finding F6 (duplicate names: first-wins before promotion, last-wins after)
    {
        let r = guarded(|| {
            let mut v: Value = sonic_rs::from_str(r#"{"a":1,"a":2}"#).unwrap();
            let before = v.get("a").and_then(|x| x.as_u64());
            v.as_object_mut().unwrap().insert(&"b", 0);
            let after = v.get("a").and_then(|x| x.as_u64());
            before == after
        });
        out.case("expect", &["F6 witness: get(a) on {a:1,a:2} is the same before and after insert(b)"], if r == Ok(true) { "true" } else { "false" }, true);
    }
    let n = if tier == "thorough" { 20000 } else { 2500 };
    let cfg = Cfg { max_depth: 2, max_width: 3, dup_free: true, long_strings: false, ..Cfg::default() };
    for _ in 0..n {
        let len = rng.range(3, 25);
        let mut hrng = rng.fork();
        let r = guarded(|| {
            let mut h = Hist { live: Vec::new(), ops: Vec::new(), results: Vec::new() };
            for _ in 0..len {
                h.step(&mut hrng, &cfg);
            }
            (h.ops.join(" "), h.results.join("|"))
        });
        match r {
            Ok((ops, res)) => {
                out.count("history");
                out.add("steps", len as u64);
                out.case("domhist", &[&ops], &res, true);
            }
            Err(p) => out.case("domhist", &["(panic before the transcript was complete)"], &format!("panic:{p}"), true),
        }
    }
}

// ---------------------------------------------------------------- C16

/// the distinct root-kind nodes reachable in `v` that point into the arena at `addr`
/// (owned containers are `Arc`s and may be shared between clones: a node is counted once)
fn count_handles(v: &Value, addr: usize, acc: &mut std::collections::HashSet<usize>) {
    if sonic_rs::verif_hooks::node::is_root_kind(v) && sonic_rs::verif_hooks::node::arena_addr(v) == addr {
        acc.insert(v as *const Value as usize);
    }
    // owned containers hold further values
    if sonic_rs::verif_hooks::node::is_owned_container(v) {
        if let Some(a) = v.as_array() {
            for x in a.iter() {
                count_handles(x, addr, acc);
            }
        } else if let Some(o) = v.as_object() {
            for (_, x) in o.iter() {
                count_handles(x, addr, acc);
            }
        }
    }
}

pub fn run_c16(out: &mut Out, tier: &str, seed: u64) {
    let mut rng = Rng::new(seed);
    let n = if tier == "thorough" { 20000 } else { 2500 };
    let cfg = Cfg { max_depth: 2, max_width: 3, dup_free: true, long_strings: false, ..Cfg::default() };
    // independent lifetimes: values parsed (whole input, embedded, streamed, raw-number mode) from a
    // buffer that is overwritten and freed before they are read
    for _ in 0..(n / 10) {
        let g = gen::gen_doc(&mut rng, &cfg);
        let doc = gen::render_doc(&g, &mut rng, &cfg);
        out.count("independent-lifetime docs");
        crate::p_dom::dom_drivers(out, &doc, false);
    }
    for _ in 0..n {
        let len = rng.range(3, 30);
        let mut hrng = rng.fork();
        let r = guarded(|| {
            let mut h = Hist { live: Vec::new(), ops: Vec::new(), results: Vec::new() };
            let mut verdict = String::from("ok");
            for stepno in 0..len {
                h.step(&mut hrng, &cfg);
                // invariant: for every arena reachable from a live value, its strong count equals the number
                // of live root-kind values that point into it
                let mut arenas: Vec<usize> = Vec::new();
                for v in h.live.iter().flatten() {
                    collect_arenas(v, &mut arenas);
                }
                arenas.sort();
                arenas.dedup();
                for a in arenas {
                    let mut handles = std::collections::HashSet::new();
                    let mut count = None;
                    for v in h.live.iter().flatten() {
                        count_handles(v, a, &mut handles);
                        if count.is_none() {
                            count = find_count(v, a);
                        }
                    }
                    let handles = handles.len();
                    if count != Some(handles) && verdict == "ok" {
                        verdict = format!("step {stepno} ({}): arena strong count {:?} but {handles} live handles", h.ops.last().cloned().unwrap_or_default(), count);
                    }
                }
            }
            // drop everything in a random order; survivors stay readable
            let mut order: Vec<usize> = (0..h.live.len()).collect();
            for i in (1..order.len()).rev() {
                order.swap(i, hrng.below(i + 1));
            }
            for (k, i) in order.iter().enumerate() {
                h.live[*i] = None;
                if k % 3 == 0 {
                    for v in h.live.iter().flatten() {
                        let _ = sorted_dump(v);
                    }
                }
            }
            (h.ops.join(" "), verdict)
        });
        match r {
            Ok((ops, verdict)) => {
                out.count("history");
                out.case("arcinv", &[&ops], &verdict, true);
            }
            Err(p) => out.case("arcinv", &["(panic)"], &format!("panic:{p}"), true),
        }
    }
}

fn collect_arenas(v: &Value, acc: &mut Vec<usize>) {
    let a = sonic_rs::verif_hooks::node::arena_addr(v);
    if a != 0 {
        acc.push(a);
    }
    if sonic_rs::verif_hooks::node::is_owned_container(v) {
        if let Some(arr) = v.as_array() {
            for x in arr.iter() {
                collect_arenas(x, acc);
            }
        } else if let Some(o) = v.as_object() {
            for (_, x) in o.iter() {
                collect_arenas(x, acc);
            }
        }
    }
}

fn find_count(v: &Value, addr: usize) -> Option<usize> {
    if sonic_rs::verif_hooks::node::arena_addr(v) == addr {
        return sonic_rs::verif_hooks::node::arena_strong_count(v);
    }
    if sonic_rs::verif_hooks::node::is_owned_container(v) {
        if let Some(arr) = v.as_array() {
            for x in arr.iter() {
                if let Some(c) = find_count(x, addr) {
                    return Some(c);
                }
            }
        } else if let Some(o) = v.as_object() {
            for (_, x) in o.iter() {
                if let Some(c) = find_count(x, addr) {
                    return Some(c);
                }
            }
        }
    }
    None
}
