//! C17: each vector primitive computes the lane-wise function its scalar definition specifies
//! (the cross-build comparison of the API-level suites is driven by ./check).
use sonic_simd::{i8x16, i8x32, i8x64, u8x16, u8x32, u8x64, BitMask, Mask, Simd};

use crate::{
    out::{hex, Out},
    rng::Rng,
};

fn lanes(rng: &mut Rng, n: usize, focus: u8) -> Vec<u8> {
    (0..n)
        .map(|_| match rng.below(6) {
            0 => focus,
            1 => focus.wrapping_add(1),
            2 => focus.wrapping_sub(1),
            3 => *rng.pick(&[0u8, 0x7f, 0x80, 0xff, 0x1f, 0x20, b'"', b'\\']),
            _ => rng.next() as u8,
        })
        .collect()
}

macro_rules! cmp_cases {
    ($out:expr, $rng:expr, $ty:ty, $n:expr, $sign:expr, $count:expr) => {
        for i in 0..$count {
            let focus = (i % 256) as u8;
            let a = lanes($rng, $n, focus);
            let b = if $rng.chance(1, 2) { vec![focus; $n] } else { lanes($rng, $n, focus) };
            let (va, vb) = unsafe { (<$ty>::from_slice_unaligned_unchecked(&a), <$ty>::from_slice_unaligned_unchecked(&b)) };
            let name = stringify!($ty);
            $out.case("simdcmp", &[&format!("eq_{}", $sign), &hex(&a), &hex(&b), name], &format!("{:x}", va.eq(&vb).bitmask() as u64), true);
            $out.case("simdcmp", &[&format!("le_{}", $sign), &hex(&a), &hex(&b), name], &format!("{:x}", va.le(&vb).bitmask() as u64), true);
            $out.case("simdcmp", &[&format!("gt_{}", $sign), &hex(&a), &hex(&b), name], &format!("{:x}", va.gt(&vb).bitmask() as u64), true);
            // load / store round trip
            let mut back = vec![0u8; $n];
            unsafe { va.write_to_slice_unaligned_unchecked(&mut back) };
            $out.case("echo", &[&hex(&a), "load/store", name], &hex(&back), true);
        }
    };
}

pub fn run(out: &mut Out, tier: &str, seed: u64) {
    let mut rng = Rng::new(seed);
    let n = if tier == "thorough" { 20000 } else { 1024 };
    cmp_cases!(out, &mut rng, u8x16, 16, "u", n);
    cmp_cases!(out, &mut rng, u8x32, 32, "u", n);
    cmp_cases!(out, &mut rng, u8x64, 64, "u", n);
    cmp_cases!(out, &mut rng, i8x16, 16, "i", n);
    cmp_cases!(out, &mut rng, i8x32, 32, "i", n);
    cmp_cases!(out, &mut rng, i8x64, 64, "i", n);
    // splat
    for c in 0..=255u8 {
        let v = u8x32::splat(c);
        let mut back = vec![0u8; 32];
        unsafe { v.write_to_slice_unaligned_unchecked(&mut back) };
        out.case("echo", &[&hex(&vec![c; 32]), "splat u8x32"], &hex(&back), true);
    }
    // bit-mask helpers
    for _ in 0..n {
        let a = rng.next() >> rng.below(64);
        let b = rng.next() >> rng.below(64);
        let k = rng.below(65);
        out.case("bitmask", &["64", &format!("{a:x}"), &format!("{b:x}"), &k.to_string()], &format!("{},{},{:x}", a.first_offset(), a.before(&b) as u8, a.clear_high_bits(k)), true);
        let (a32, b32, k32) = (a as u32, b as u32, k % 33);
        out.case("bitmask", &["32", &format!("{a32:x}"), &format!("{b32:x}"), &k32.to_string()], &format!("{},{},{:x}", a32.first_offset(), a32.before(&b32) as u8, a32.clear_high_bits(k32)), true);
        let (a16, b16, k16) = (a as u16, b as u16, k % 17);
        out.case("bitmask", &["16", &format!("{a16:x}"), &format!("{b16:x}"), &k16.to_string()], &format!("{},{},{:x}", a16.first_offset(), a16.before(&b16) as u8, a16.clear_high_bits(k16)), true);
    }
    // scanner primitives through the hooks
    for _ in 0..(n * 4) {
        let x = match rng.below(4) {
            0 => rng.next() & rng.next() & rng.next(),
            1 => 1u64 << rng.below(64),
            _ => rng.next(),
        };
        out.case("prefixxor", &[&format!("{x:x}")], &format!("{:x}", sonic_rs::verif_hooks::prefix_xor(x)), true);
        let mut block = [0u8; 64];
        for b in block.iter_mut() {
            *b = *rng.pick(b" \t\n\r\x0b\x0c\x00\x1f!\"a,[]{}:\xa0\x85 ");
            if rng.chance(1, 8) {
                *b = rng.next() as u8;
            }
        }
        out.case("nonspace", &[&hex(&block)], &format!("{:x}", sonic_rs::verif_hooks::get_nonspace_bits(&block)), true);
        // backslash words: runs of set bits of every parity at the word edges
        let bs = match rng.below(4) {
            0 => rng.next() & rng.next(),
            1 => !0u64 << rng.below(64),
            2 => !0u64 >> rng.below(64),
            _ => rng.next(),
        };
        let prev = rng.below(2) as u64;
        let (e, p) = sonic_rs::verif_hooks::parser::get_escaped_branchless_u64(prev, bs);
        out.case("escbits", &["64", &prev.to_string(), &format!("{bs:x}")], &format!("{e:x},{p}"), true);
        let (e, p) = sonic_rs::verif_hooks::parser::get_escaped_branchless_u32(prev as u32, bs as u32);
        out.case("escbits", &["32", &prev.to_string(), &format!("{:x}", bs as u32)], &format!("{e:x},{p}"), true);
        // in-string bitmap of a 64-byte block with carried state
        for b in block.iter_mut() {
            *b = *rng.pick(b"\"\\\\a\"x,{}[]");
        }
        let (pi, pe) = (if rng.chance(1, 2) { u64::MAX } else { 0 }, rng.below(2) as u64);
        let (bits, i2, e2) = sonic_rs::verif_hooks::parser::get_string_bits(&block, pi, pe);
        out.case("strbits", &[&hex(&block), &(pi & 1).to_string(), &pe.to_string()], &format!("{bits:x},{},{e2}", i2 & 1), true);
    }
}
