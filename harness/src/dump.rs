//! Canonical dump of a JSON tree, produced identically by the harness (from the public read API of
//! `sonic_rs::Value`) and by the model runner (from the reference parse):
//!   n | t | f | u<hex> | i-<hex> | f<16 hex digits of the bits> | r<hex literal> | s<hex utf8>
//!   [a,b,..] | {<hex key>:v,..}   (members in iteration order)
use sonic_rs::{JsonContainerTrait, JsonValueTrait, Value, ValueRef};

use crate::out::hex;

pub fn dump_value(v: &Value, out: &mut String) {
    match v.as_ref() {
        ValueRef::Null => out.push('n'),
        ValueRef::Bool(true) => out.push('t'),
        ValueRef::Bool(false) => out.push('f'),
        ValueRef::Number(n) => {
            if let Some(r) = v.as_raw_number() {
                out.push('r');
                out.push_str(&hex(r.as_str().as_bytes()));
                return;
            }
            dump_number(&n, out)
        }
        ValueRef::String(s) => {
            out.push('s');
            out.push_str(&hex(s.as_bytes()));
        }
        ValueRef::Array(a) => {
            out.push('[');
            for (i, x) in a.iter().enumerate() {
                if i > 0 {
                    out.push(',');
                }
                dump_value(x, out);
            }
            out.push(']');
        }
        ValueRef::Object(o) => {
            out.push('{');
            for (i, (k, x)) in o.iter().enumerate() {
                if i > 0 {
                    out.push(',');
                }
                out.push_str(&hex(k.as_bytes()));
                out.push(':');
                dump_value(x, out);
            }
            out.push('}');
        }
    }
}

pub fn dump_number(n: &sonic_rs::Number, out: &mut String) {
    use sonic_rs::JsonNumberTrait;
    if let Some(u) = n.as_u64() {
        out.push_str(&format!("u{u:x}"));
    } else if let Some(i) = n.as_i64() {
        out.push_str(&format!("i-{:x}", i.unsigned_abs()));
    } else if let Some(f) = n.as_f64() {
        out.push_str(&format!("f{:016x}", f.to_bits()));
    } else {
        out.push_str("?num");
    }
}

pub fn dump(v: &Value) -> String {
    let mut s = String::new();
    dump_value(v, &mut s);
    s
}

/// the same dump from a serde_json::Value (used where serde_json is the carrier of a result)
pub fn dump_serde_json(v: &serde_json::Value, out: &mut String) {
    match v {
        serde_json::Value::Null => out.push('n'),
        serde_json::Value::Bool(true) => out.push('t'),
        serde_json::Value::Bool(false) => out.push('f'),
        serde_json::Value::Number(n) => {
            if let Some(u) = n.as_u64() {
                out.push_str(&format!("u{u:x}"));
            } else if let Some(i) = n.as_i64() {
                out.push_str(&format!("i-{:x}", i.unsigned_abs()));
            } else if let Some(f) = n.as_f64() {
                out.push_str(&format!("f{:016x}", f.to_bits()));
            }
        }
        serde_json::Value::String(s) => {
            out.push('s');
            out.push_str(&hex(s.as_bytes()));
        }
        serde_json::Value::Array(a) => {
            out.push('[');
            for (i, x) in a.iter().enumerate() {
                if i > 0 {
                    out.push(',');
                }
                dump_serde_json(x, out);
            }
            out.push(']');
        }
        serde_json::Value::Object(o) => {
            out.push('{');
            for (i, (k, x)) in o.iter().enumerate() {
                if i > 0 {
                    out.push(',');
                }
                out.push_str(&hex(k.as_bytes()));
                out.push(':');
                dump_serde_json(x, out);
            }
            out.push('}');
        }
    }
}
