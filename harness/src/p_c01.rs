//! C01: safe entry points never panic, abort or leak on any input.
use sonic_rs::{JsonValueTrait, LazyValue, OwnedLazyValue, Value};

use crate::{
    entry::{self, guarded},
    gen::{self, Cfg, PathElem},
    out::{hex, Out},
    p_cas::{track, LIVE},
    rng::Rng,
};

/// every safe entry point on one input; returns the first panic message, if any
fn all_entries(input: &[u8], path: &[PathElem]) -> Option<String> {
    let mut first: Option<String> = None;
    let mut note = |name: &str, r: Result<(), String>| {
        if let Err(p) = r {
            if first.is_none() {
                first = Some(format!("{name}: {p}"));
            }
        }
    };
    for (name, r) in entry::parse_entries(input) {
        note(name, r.map(|x| {
            if let Err(e) = x {
                let _ = e.msg.len();
            }
        }));
    }
    for (name, r) in entry::get_entries(input, path) {
        note(name, r.map(|_| ()));
    }
    // what was produced is serialized and read back through every accessor
    note("Value: serialize/accessors", guarded(|| {
        if let Ok(v) = sonic_rs::from_slice::<Value>(input) {
            let s = sonic_rs::to_string(&v).unwrap_or_default();
            let _ = sonic_rs::to_string_pretty(&v);
            let _ = format!("{v} {v:?}");
            let _ = crate::dump::dump(&v);
            let c = v.clone();
            drop(v);
            let _ = crate::dump::dump(&c);
            let _ = s.len();
        }
    }));
    note("LazyValue: accessors", guarded(|| {
        if let Ok(l) = sonic_rs::from_slice::<LazyValue>(input) {
            let _ = (l.as_str().map(|s| s.len()), l.as_number(), l.as_bool(), l.get_type(), l.as_raw_str().len());
            let _ = sonic_rs::to_string(&l);
            let o = OwnedLazyValue::from(l.clone());
            let _ = (o.as_str().map(|s| s.len()), o.as_number(), o.get_type());
            let _ = sonic_rs::to_string(&o);
            if let Some(it) = l.clone().into_array_iter() {
                for x in it.take(50) {
                    let _ = x.map(|v| v.as_raw_str().len());
                }
            }
            if let Some(it) = l.into_object_iter() {
                for x in it.take(50) {
                    let _ = x.map(|(k, v)| k.len() + v.as_raw_str().len());
                }
            }
        }
    }));
    note("OwnedLazyValue: views", guarded(|| {
        use sonic_rs::JsonContainerTrait;
        if let Ok(o) = sonic_rs::from_slice::<OwnedLazyValue>(input) {
            if let Some(a) = o.as_array() {
                let _ = a.len();
                for x in a.iter().take(20) {
                    let _ = (x.get_type(), x.as_str().map(|s| s.len()));
                }
            }
            if let Some(ob) = o.as_object() {
                let _ = ob.len();
                for (k, x) in ob.iter().take(20) {
                    let _ = (k.len(), x.get_type());
                }
            }
            let _ = o.pointer(entry::to_pointer(path).iter()).map(|x| x.get_type());
            let mut c = o.clone();
            let _ = c.take();
        }
        // every order of filling the lazily parsed cache (through &self) and consuming it (through &mut self)
        use sonic_rs::JsonValueMutTrait;
        for order in 0..6 {
            if let Ok(mut m) = sonic_rs::from_slice::<OwnedLazyValue>(input) {
                let ptr = entry::to_pointer(path);
                let first = ptr.first();
                let read = |m: &OwnedLazyValue| {
                    let _ = m.as_array().map(|a| a.len());
                    let _ = m.as_object().map(|o| o.len());
                    let _ = m.pointer(ptr.iter()).map(|x| x.get_type());
                };
                let edit = |m: &mut OwnedLazyValue| {
                    let _ = m.as_array_mut().map(|a| a.len());
                    let _ = m.as_object_mut().map(|o| o.len());
                    if let Some(f) = first {
                        if let Some(x) = m.get_mut(f) {
                            let _ = x.take();
                        }
                    }
                    let _ = m.pointer_mut(ptr.iter()).map(|x| x.take());
                };
                match order {
                    0 => edit(&mut m),
                    1 => {
                        read(&m);
                        edit(&mut m);
                    }
                    2 => {
                        read(&m);
                        let c = m.clone();
                        edit(&mut m);
                        read(&c);
                    }
                    3 => {
                        let mut c = m.clone();
                        read(&m);
                        edit(&mut c);
                        read(&c);
                    }
                    4 => {
                        edit(&mut m);
                        read(&m);
                        edit(&mut m);
                    }
                    _ => {
                        read(&m);
                        let mut c = m.clone();
                        drop(m);
                        edit(&mut c);
                        m = c;
                    }
                }
                let _ = sonic_rs::to_string(&m);
            }
        }
        // values serialized into an owned lazy value are read like any other
        if let Ok(v) = sonic_rs::from_slice::<Value>(input) {
            if let Ok(o) = sonic_rs::to_lazyvalue(&v) {
                let _ = (o.get_type(), o.is_null(), o.as_bool(), o.as_number(), o.as_str().map(|s| s.len()));
                let _ = sonic_rs::to_string(&o);
            }
        }
    }));
    note("iterators", guarded(|| {
        for x in sonic_rs::to_array_iter(input).take(200) {
            if let Err(e) = x {
                let _ = format!("{e}");
            }
        }
        for x in sonic_rs::to_object_iter(input).take(200) {
            if let Err(e) = x {
                let _ = format!("{e}");
            }
        }
        let st = sonic_rs::Deserializer::from_slice(input).into_stream::<Value>();
        for x in st.take(50) {
            if let Err(e) = x {
                let _ = format!("{e} {e:?}");
            }
        }
    }));
    note("carriers", guarded(|| {
        if let Ok(s) = std::str::from_utf8(input) {
            let owned = s.to_string();
            let _ = sonic_rs::get(&owned, entry::to_pointer(path).iter()).map(|l| l.as_raw_str().len());
            let f = faststr::FastStr::new(s);
            let _ = sonic_rs::get_from_faststr(&f, entry::to_pointer(path).iter()).map(|l| l.as_raw_str().len());
            let mut de = sonic_rs::Deserializer::from_json(&f);
            let r: Result<&str, _> = de.deserialize();
            let _ = r.map(|x| x.len());
        }
        let b = bytes::Bytes::copy_from_slice(input);
        let _ = sonic_rs::get_from_bytes(&b, entry::to_pointer(path).iter()).map(|l| l.as_raw_str().len());
    }));
    note("typed targets: errors quoting the input are built and displayed", guarded(|| {
        #[derive(serde::Deserialize, Debug)]
        #[allow(dead_code)]
        enum E1 {
            A,
            B(u8),
        }
        #[derive(serde::Deserialize, Debug)]
        #[allow(dead_code)]
        #[serde(deny_unknown_fields)]
        struct S1 {
            a: Option<u8>,
        }
        fn show<T: std::fmt::Debug>(r: Result<T, sonic_rs::Error>) {
            match r {
                Ok(v) => {
                    let _ = format!("{v:?}");
                }
                Err(e) => {
                    let _ = format!("{e} {e:?} {} {}", e.line(), e.column());
                }
            }
        }
        show(sonic_rs::from_slice::<u32>(input));
        show(sonic_rs::from_slice::<bool>(input));
        show(sonic_rs::from_slice::<char>(input));
        show(sonic_rs::from_slice::<Vec<u8>>(input));
        show(sonic_rs::from_slice::<E1>(input));
        show(sonic_rs::from_slice::<S1>(input));
        show(sonic_rs::from_slice::<std::collections::BTreeMap<u8, bool>>(input));
        show(sonic_rs::from_slice::<(i8, String)>(input));
        if let Ok(v) = sonic_rs::from_slice::<Value>(input) {
            show(sonic_rs::from_value::<u32>(&v));
            show(sonic_rs::from_value::<E1>(&v));
            show(sonic_rs::from_value::<S1>(&v));
        }
    }));
    note("get_by_schema", guarded(|| {
        let _ = sonic_rs::get_by_schema(input, sonic_rs::json!({"a": {}, "b": [], "k": {"x": 1}}));
    }));
    first
}

pub fn run(out: &mut Out, tier: &str, seed: u64) {
    let mut rng = Rng::new(seed);
    let n = if tier == "thorough" { 20000 } else { 2000 };
    let cfg = Cfg::default();
    // warm-up: one-time allocations (thread-local node buffer, lazy statics) are not leaks
    let _ = all_entries(br#"{"a":[1,"x\n",{"b":null}],"k":{"x":1.5}}"#, &[PathElem::Key("a".into())]);
    for i in 0..n {
        let g = gen::gen_doc(&mut rng, &cfg);
        let doc = gen::render_doc(&g, &mut rng, &cfg);
        let input = match i % 4 {
            0 => doc,
            1 => gen::mutate(&doc, &mut rng).0,
            2 => {
                let a = gen::mutate(&doc, &mut rng).0;
                gen::mutate(&a, &mut rng).0
            }
            _ => {
                // truncation at every kind of place
                let k = rng.below(doc.len() + 1);
                doc[..k].to_vec()
            }
        };
        let mut paths = Vec::new();
        gen::all_paths(&g, &mut Vec::new(), &mut paths);
        let p = paths[rng.below(paths.len())].clone();
        let before = LIVE.load(std::sync::atomic::Ordering::SeqCst);
        track(true);
        let r = all_entries(&input, &p);
        track(false);
        let after = LIVE.load(std::sync::atomic::Ordering::SeqCst);
        out.count(if r.is_none() { "no-panic" } else { "PANIC" });
        let verdict = match (r, crate::p_cas::take_overruns()) {
            (Some(p), _) => format!("panic: {}", p.replace(['\t', '\n'], " ")),
            (None, Some(o)) => format!("heap overrun: {o}"),
            (None, None) if after != before => format!("leak: {} allocations made by the entry points are still live", after - before),
            (None, None) => "true".into(),
        };
        out.case("expect", &["every safe entry point returns, releases what it allocated and writes inside its heap blocks", &hex(&input)], &verdict, input.len() > 2);
    }
    // every width of escape sequence at every fill level of the scratch buffers strings and member names are decoded
    // into (fresh buffers of a deserializer, the 128-byte key buffer of get / get_many / iterators and its doublings)
    {
        let _ = crate::p_cas::take_overruns();
        let mut ks: Vec<usize> = (0..=40).collect();
        ks.extend(56..=66);
        ks.extend(120..=136);
        ks.extend(248..=262);
        if tier == "thorough" {
            ks = (0..=600).collect();
        }
        for &k in &ks {
            for esc in ["\\n", "\\u00e9", "\\u4e2d", "\\ud83d\\ude00", "\\ud83d\\ude00\\ud83d\\ude00", "\\\"\\u0041"] {
                let body = format!("{}{esc}", "a".repeat(k));
                let dec: String = sonic_rs::from_str(&format!("\"{body}\"")).unwrap_or_default();
                for (doc, path) in [(format!("\"{body}\""), vec![]), (format!("{{\"{body}\":1,\"z\":[\"{body}\"]}}"), vec![PathElem::Key(dec.clone())]), (format!("[\"{body}\",\"{body}\"] [\"{body}\"]"), vec![PathElem::Idx(1)])] {
                    let r = all_entries(doc.as_bytes(), &path);
                    let verdict = match (r, crate::p_cas::take_overruns()) {
                        (Some(p), _) => format!("panic: {}", p.replace(['\t', '\n'], " ")),
                        (None, Some(o)) => format!("heap overrun: {o}"),
                        (None, None) => "true".into(),
                    };
                    out.count("escape at every fill level");
                    out.case("expect", &["escapes of every width at every fill level of the scratch buffers: no panic, no write outside a heap block", &hex(doc.as_bytes())], &verdict, true);
                }
            }
        }
    }
    // strings that end up quoted inside error messages, as a whole document and as a member name / variant name
    for t in [" at line 3", " at line \u{663}", " at line 1 column \u{b2}", "x at line \u{ff13} column \u{ff11}", " at line 12 column 7", " at line ", " at line 1 column "] {
        for doc in [format!("\"{t}\""), format!("{{\"{t}\":1}}"), format!("[\"{t}\"]"), format!("{{\"a\":\"{t}\"}}")] {
            let r = all_entries(doc.as_bytes(), &[PathElem::Key("a".into())]);
            out.case("expect", &["text that mimics an error position suffix", &hex(doc.as_bytes())], &r.map(|p| format!("panic: {p}")).unwrap_or("true".into()), true);
        }
    }
    // what a lazy iterator or get hands out borrows from the INPUT (lifetime 'de), not from the iterator: keys and
    // values are read after the iterator is gone and the allocator has been churned, for every carrier and for
    // documents on both sides of the 24-byte inline limit of FastStr
    for doc in ["{\"kkkk\":1}", "{\"k\":[1,2],\"m\":\"v\"}", "[1,\"ab\",[3]]", "{\"key_longer_than_the_inline_limit\":[10,20,30],\"second\":{\"x\":\"yyyyyyyyyyyyyyyyyyyyyyyyyyyy\"}}", "{\"a\":{\"b\":1}}", "[[1,2],[3,4]]", "{\"pad\":\"pppppppppppppppppppppppppppppppppp\",\"o\":{\"kk\":1},\"a\":[1,2]}", "[\"pppppppppppppppppppppppppppppppppp\",{\"k\":{\"j\":true}},[[5]]]"] {
        let churn = || {
            let junk: Vec<Vec<u8>> = (0..64).map(|i| vec![0xC7u8.wrapping_add(i as u8 % 3); 16 + (i % 5) * 8]).collect();
            junk.len()
        };
        let r = guarded(|| {
            let mut seen: Vec<String> = Vec::new();
            let b = bytes::Bytes::copy_from_slice(doc.as_bytes());
            let f = faststr::FastStr::new(doc);
            // object / array iterators over each carrier
            macro_rules! run {
                ($carrier:expr, $tag:expr) => {{
                    let items: Vec<(String, Option<std::borrow::Cow<str>>, LazyValue)> = {
                        let mut v = Vec::new();
                        for x in sonic_rs::to_object_iter($carrier).flatten() {
                            v.push(("obj".to_string(), Some(x.0.into()), x.1));
                        }
                        for x in sonic_rs::to_array_iter($carrier).flatten() {
                            v.push(("arr".to_string(), None, x));
                        }
                        v
                    };
                    let _ = churn();
                    for (kind, k, val) in &items {
                        seen.push(format!("{} {kind} {:?} {}", $tag, k.as_deref(), val.as_raw_str()));
                    }
                    // one level deeper: the children of each item, taken from iterators that are dropped at once
                    for (_, _, val) in items {
                        let kids: Vec<(Option<std::borrow::Cow<str>>, LazyValue)> = {
                            let mut v = Vec::new();
                            if let Some(it) = val.clone().into_object_iter() {
                                for x in it.flatten() {
                                    v.push((Some(x.0.into()), x.1));
                                }
                            }
                            if let Some(it) = val.into_array_iter() {
                                for x in it.flatten() {
                                    v.push((None, x));
                                }
                            }
                            v
                        };
                        let _ = churn();
                        for (k, c) in &kids {
                            seen.push(format!("{} child {:?} {}", $tag, k.as_deref(), c.as_raw_str()));
                        }
                    }
                }};
            }
            run!(doc.as_bytes(), "x");
            let base = seen.clone();
            seen.clear();
            run!(&b, "x");
            let via_bytes = seen.clone();
            seen.clear();
            run!(&f, "x");
            let via_faststr = seen.clone();
            seen.clear();
            run!(doc, "x");
            if via_bytes != base {
                format!("&Bytes: {:?} instead of {:?}", via_bytes, base)
            } else if via_faststr != base {
                format!("&FastStr: {:?} instead of {:?}", via_faststr, base)
            } else if seen != base {
                format!("&str: {:?} instead of {:?}", seen, base)
            } else {
                "true".to_string()
            }
        });
        out.case("expect", &["items of lazy iterators are readable after the iterator is dropped", doc], &r.unwrap_or_else(|p| format!("panic: {p}")), true);
    }
    // very long number literals (beyond every digit buffer of the slow paths), near midpoints of
    // adjacent doubles so that the decimal fallback is taken, in every position of a document
    for digits in [700usize, 766, 767, 768, 769, 770, 800, 1100, 5000] {
        for head in ["9007199254740993", "1", "179769313486231580793728971405303415079934132710037826936173778980444968292764750946649017977587207096330286416692887910946555547851940402630657488671505820681908902000708383676273854845817711531764475730270069855571366959622842914819860834936475292719074168444365510704342711559699508093042880177904174497791", "4.9406564584124654417656879286822137236505980261432476442558568250067550727020875186529983636163599237979656469544571773092665671035593979639877479601078187812630071319031140452784581716784898210368871863605699873072305000638740915356498438731247339727316961514003171538539807412623856559117102665855668676818703956031062493194527159149245532930545654440112748012970999954193198940908041656332452475714786901472678015935523861155013480352649347201937902681071074917033322268447533357208324319360923828934583680601060115061698097530783422773183292479049825247307763759272478746560847782037344696995336470179726777175851256605511991315048911014510378627381672509558373897335989936648099411642057026370902792427675445652290875386825064197182655334472656250"] {
                let k = digits.saturating_sub(head.len());
                let tail: String = (0..k).map(|j| (b'0' + ((j * 7 + digits) % 10) as u8) as char).collect();
                let dot = if head.contains('.') { "" } else { "." };
                for lit in [format!("{head}{dot}{tail}"), format!("-{head}{dot}{}", "0".repeat(k)), format!("{head}{tail}e-{}", digits), format!("0.{}{head}{tail}", "0".repeat(20)).replace("4.94", "494")] {
                    for doc in [lit.clone(), format!("[{lit}]"), format!("{{\"a\":{lit},\"b\":[{lit}]}}")] {
                        let r = all_entries(doc.as_bytes(), &[PathElem::Key("a".into())]);
                        out.count("long-number docs");
                        out.case("expect", &["very long number literal", &format!("{digits} digits, head {}", &head[..head.len().min(12)])], &r.map(|p| format!("panic: {p}")).unwrap_or("true".into()), true);
                    }
                }
        }
    }
    // SIMD-block-aligned and boundary sizes
    for len in [0usize, 1, 31, 32, 33, 63, 64, 65, 127, 128, 129, 4095, 4096, 4097] {
        for fill in [b' ', b'"', b'\\', b'[', b'1', 0xffu8, b'{'] {
            let input = vec![fill; len];
            let r = all_entries(&input, &[PathElem::Idx(0)]);
            out.case("expect", &["boundary sizes", &format!("{len}x{fill:02x}")], &r.map(|p| format!("panic: {p}")).unwrap_or("true".into()), true);
        }
    }
}

/// run in a child process: nesting far beyond any limit must be an error, not a stack overflow
pub fn deep_child() -> i32 {
    let n = 200_000;
    for (open, close, inner) in [("[", "]", ""), ("{\"a\":", "}", "1")] {
        let doc = format!("{}{}{}", open.repeat(n), inner, close.repeat(n));
        let b = doc.as_bytes();
        let _ = sonic_rs::from_slice::<Value>(b).is_ok();
        let _ = sonic_rs::from_slice::<LazyValue>(b).is_ok();
        let _ = sonic_rs::from_slice::<OwnedLazyValue>(b).is_ok();
        let _ = sonic_rs::from_slice::<serde::de::IgnoredAny>(b).is_ok();
        let _ = sonic_rs::from_slice::<serde_json::Value>(b).is_ok();
        let _ = sonic_rs::from_slice::<Vec<Vec<Vec<Value>>>>(b).is_ok();
        let _ = sonic_rs::get_from_slice(b, &[0usize, 0, 0]).is_ok();
        let _ = sonic_rs::to_array_iter(b).count();
        let _ = sonic_rs::get_by_schema(b, sonic_rs::json!({"a": {"a": {}}})).is_ok();
        let mut t = sonic_rs::PointerTree::new();
        t.add_path(&["a", "a"]);
        let _ = sonic_rs::get_many(b, &t).is_ok();
        // unterminated
        let half = open.repeat(n);
        let _ = sonic_rs::from_slice::<Value>(half.as_bytes()).is_ok();
        let _ = sonic_rs::from_slice::<LazyValue>(half.as_bytes()).is_ok();
    }
    // recursion through typed targets: externally tagged enums, newtype structs, options and boxes
    #[derive(serde::Deserialize)]
    #[allow(dead_code)]
    enum Chain {
        A(Box<Chain>),
        B { next: Box<Chain> },
        End,
    }
    #[derive(serde::Deserialize)]
    #[allow(dead_code)]
    struct Wrap {
        inner: Option<Box<Wrap>>,
    }
    #[derive(serde::Deserialize)]
    #[allow(dead_code)]
    struct New(Vec<New>);
    for (open, close, inner) in [("{\"A\":", "}", "\"End\""), ("{\"B\":{\"next\":", "}}", "\"End\""), ("{\"A\":{\"B\":{\"next\":", "}}}", "\"End\"")] {
        let doc = format!("{}{}{}", open.repeat(n), inner, close.repeat(n));
        let _ = sonic_rs::from_str::<Chain>(&doc).is_ok();
        let _ = sonic_rs::from_slice::<Chain>(doc.as_bytes()).is_ok();
        let two = format!("\"End\" {doc}");
        let _ = sonic_rs::Deserializer::from_slice(two.as_bytes()).into_stream::<Chain>().count();
    }
    let doc = format!("{}null{}", "{\"inner\":".repeat(n), "}".repeat(n));
    let _ = sonic_rs::from_str::<Wrap>(&doc).is_ok();
    let doc = format!("{}{}", "[".repeat(n), "]".repeat(n));
    let _ = sonic_rs::from_str::<New>(&doc).is_ok();
    println!("deep-ok");
    0
}
