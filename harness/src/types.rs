//! A representative family of target types for typed (de)serialization (C04, C19), each with a
//! runtime description of its JSON shape that drives the type-directed text generator.
use std::{
    borrow::Cow,
    collections::BTreeMap,
};

use serde::{Deserialize, Serialize};

use crate::rng::Rng;

#[derive(Clone, Debug)]
pub enum Shape {
    Bool,
    Int { signed: bool, bits: u32 },
    F32,
    F64,
    Char,
    Str,
    Unit,
    Opt(Box<Shape>),
    Seq(Box<Shape>),
    Tuple(Vec<Shape>),
    Map(Box<Shape>, Box<Shape>), // key shape (Str / Int / Bool / Char / unit enum), value
    Struct(Vec<(&'static str, Shape, bool)>), // name, shape, optional
    Enum(Vec<(&'static str, Option<Shape>)>), // externally tagged: unit or one payload
    Bytes,
    Any,
}

fn int_text(rng: &mut Rng, signed: bool, bits: u32, near: bool) -> String {
    let max: i128 = if signed { (1i128 << (bits.min(126) - 1)) - 1 } else if bits >= 127 { i128::MAX } else { (1i128 << bits) - 1 };
    let min: i128 = if signed { -max - 1 } else { 0 };
    if bits == 128 {
        // 128-bit boundaries as text
        let c: &[&str] = if signed {
            &["0", "-1", "170141183460469231731687303715884105727", "-170141183460469231731687303715884105728", "170141183460469231731687303715884105728", "-170141183460469231731687303715884105729", "18446744073709551616", "-9223372036854775809", "-0"]
        } else {
            &["0", "340282366920938463463374607431768211455", "340282366920938463463374607431768211456", "18446744073709551616", "-1", "-0", "1e3"]
        };
        if rng.chance(1, 2) {
            return rng.pick(c).to_string();
        }
        return format!("{}", (rng.next() as i128) << rng.below(60));
    }
    if near {
        let c = [max, min, max + 1, min - 1, 0, -1, 1];
        return match rng.below(10) {
            0 => format!("{}.0", rng.pick(&c)),
            1 => format!("{}e0", rng.pick(&c)),
            2 => "-0".to_string(),
            3 => format!("\"{}\"", rng.pick(&c)),
            _ => format!("{}", rng.pick(&c)),
        };
    }
    let span = (max - min) as u128 + 1;
    let v = min + ((((rng.next() as u128) << 64) | rng.next() as u128) % span) as i128;
    format!("{}", if rng.chance(1, 3) { v >> rng.below(bits as usize) } else { v })
}

fn str_text(rng: &mut Rng) -> String {
    let (_, lit) = crate::gen::gen_string(rng, false);
    lit
}

/// JSON text for a shape: matching (mode 0), near-matching (1) or mismatching (2)
pub fn gen_text(s: &Shape, rng: &mut Rng, mode: u8, depth: usize) -> String {
    if mode == 2 && rng.chance(1, 3) {
        return rng.pick(&["null", "true", "1", "-1.5", "\"x\"", "[]", "{}", "[1]", "{\"a\":1}", "\"\"", "1e400", ""]).to_string();
    }
    let sub = |rng: &mut Rng, x: &Shape| {
        let m = if mode > 0 && rng.chance(1, 4) { mode } else { 0 };
        gen_text(x, rng, m, depth + 1)
    };
    match s {
        Shape::Bool => rng.pick(&["true", "false"]).to_string(),
        Shape::Int { signed, bits } => int_text(rng, *signed, *bits, mode > 0),
        Shape::F32 => match rng.below(6) {
            0 => rng.pick(&["0", "-0.0", "1.5", "3.4028235e38", "1e-45", "0.1", "16777217", "1e38", "-3.4e38"]).to_string(),
            1 => int_text(rng, true, 32, false),
            _ => format!("{:e}", f32::from_bits(rng.next() as u32 & 0x7f7f_ffff)),
        },
        Shape::F64 => match rng.below(6) {
            0 => rng.pick(crate::gen::NUM_POOL).to_string(),
            1 => int_text(rng, true, 64, false),
            2 => crate::gen::boundary_number(rng),
            _ => crate::gen::gen_number(rng, true),
        },
        Shape::Char => {
            if mode > 0 && rng.chance(1, 3) {
                return rng.pick(&["\"\"", "\"ab\"", "\"\\u00e9\\u00e9\"", "97"]).to_string();
            }
            match rng.below(4) {
                // every control character (they must be written escaped), the short escapes, DEL
                0 => format!("\"\\u{:04x}\"", rng.below(0x20)),
                1 => rng.pick(&["\"\\b\"", "\"\\f\"", "\"\\t\"", "\"\\r\"", "\"\\/\"", "\"\\\\\"", "\"\u{7f}\"", "\"\\u007f\"", "\"\u{80}\"", "\"\u{7ff}\"", "\"\u{800}\"", "\"\u{ffff}\"", "\"\u{10000}\"", "\"\u{10ffff}\"", "\"\u{2028}\""]).to_string(),
                _ => rng.pick(&["\"a\"", "\"\\n\"", "\"\\u00e9\"", "\"\u{4e2d}\"", "\"\\ud83d\\ude00\"", "\"\\\"\"", "\"\\u0000\""]).to_string(),
            }
        }
        Shape::Str => str_text(rng),
        Shape::Unit => "null".to_string(),
        Shape::Opt(x) => {
            if rng.chance(1, 3) {
                "null".to_string()
            } else {
                sub(rng, x)
            }
        }
        Shape::Seq(x) => {
            let n = if depth > 3 { 0 } else { rng.below(4) };
            let items: Vec<String> = (0..n).map(|_| sub(rng, x)).collect();
            format!("[{}]", items.join(if rng.chance(1, 4) { " , " } else { "," }))
        }
        Shape::Tuple(xs) => {
            let mut items: Vec<String> = xs.iter().map(|x| sub(rng, x)).collect();
            if mode > 0 && rng.chance(1, 3) {
                if rng.chance(1, 2) {
                    items.pop();
                } else {
                    items.push("1".into());
                }
            }
            format!("[{}]", items.join(","))
        }
        Shape::Map(k, v) => {
            let n = if depth > 3 { 0 } else { rng.below(4) };
            let items: Vec<String> = (0..n)
                .map(|_| {
                    let key = match &**k {
                        Shape::Str => str_text(rng),
                        Shape::Enum(vs) => format!("\"{}\"", rng.pick(vs).0),
                        other => {
                            let m = if mode > 0 && rng.chance(1, 3) { 1 } else { 0 };
                            let t = gen_text(other, rng, m, depth + 1);
                            if t.starts_with('"') {
                                t
                            } else if mode > 0 && rng.chance(1, 6) {
                                format!("\" {t}\"")
                            } else {
                                format!("\"{t}\"")
                            }
                        }
                    };
                    format!("{}:{}", key, sub(rng, v))
                })
                .collect();
            format!("{{{}}}", items.join(","))
        }
        Shape::Struct(fs) => {
            if mode > 0 && rng.chance(1, 8) {
                // positional form
                let items: Vec<String> = fs.iter().map(|(_, x, _)| sub(rng, x)).collect();
                return format!("[{}]", items.join(","));
            }
            let mut items: Vec<String> = Vec::new();
            for (name, x, optional) in fs {
                if *optional && rng.chance(1, 3) {
                    continue;
                }
                if mode > 0 && rng.chance(1, 8) {
                    continue; // missing field
                }
                items.push(format!("\"{}\":{}", name, sub(rng, x)));
            }
            if rng.chance(1, 3) {
                // unknown field, skipped by the validating skipper
                let junk = gen_text(&Shape::Any, rng, 0, depth + 1);
                let pos = rng.below(items.len() + 1);
                items.insert(pos, format!("\"unknown_{}\":{}", rng.below(3), junk));
            }
            if mode > 0 && rng.chance(1, 8) && !fs.is_empty() {
                // duplicate field
                let (name, x, _) = &fs[rng.below(fs.len())];
                items.push(format!("\"{}\":{}", name, sub(rng, x)));
            }
            if rng.chance(1, 3) {
                let n = items.len();
                if n > 1 {
                    items.swap(0, n - 1);
                }
            }
            format!("{{{}}}", items.join(if rng.chance(1, 5) { " ,\n" } else { "," }))
        }
        Shape::Enum(vs) => {
            let (name, payload) = rng.pick(vs);
            match payload {
                None => {
                    if mode > 0 && rng.chance(1, 3) {
                        format!("{{\"{name}\":null}}")
                    } else {
                        format!("\"{name}\"")
                    }
                }
                Some(p) => {
                    if mode > 0 && rng.chance(1, 5) {
                        return match rng.below(3) {
                            0 => format!("\"{name}\""),
                            1 => format!("{{\"{name}\":{},\"extra\":1}}", sub(rng, p)),
                            _ => format!("{{\"Nope\":{}}}", sub(rng, p)),
                        };
                    }
                    format!("{{\"{name}\":{}}}", sub(rng, p))
                }
            }
        }
        Shape::Bytes => {
            if rng.chance(1, 2) {
                let n = rng.below(5);
                let items: Vec<String> = (0..n).map(|_| (rng.below(if mode > 0 { 300 } else { 256 })).to_string()).collect();
                format!("[{}]", items.join(","))
            } else {
                // strings for byte buffers: plain ASCII only (escapes and controls differ by design: F21)
                let n = rng.below(8);
                let s: String = (0..n).map(|_| *rng.pick(b"abcXYZ019 ") as char).collect();
                format!("\"{s}\"")
            }
        }
        Shape::Any => {
            let g = crate::gen::gen_tree(rng, 2, &crate::gen::Cfg::default());
            let mut out = Vec::new();
            crate::gen::render(&g, rng, true, &mut out);
            String::from_utf8_lossy(&out).to_string()
        }
    }
}

// ---------------------------------------------------------------- the concrete types

#[derive(Serialize, Deserialize, PartialEq, Debug, Clone)]
pub struct Plain {
    pub a: i32,
    pub b: String,
    pub c: Option<bool>,
}

#[derive(Serialize, Deserialize, PartialEq, Debug, Clone)]
pub struct Defaults {
    #[serde(default)]
    pub x: u8,
    #[serde(default)]
    pub y: Vec<i64>,
    pub z: f64,
}

#[derive(Serialize, Deserialize, PartialEq, Debug, Clone)]
#[serde(deny_unknown_fields)]
pub struct Strict {
    pub p: u16,
    pub q: Option<String>,
}

#[derive(Serialize, Deserialize, PartialEq, Debug, Clone)]
pub struct Nested {
    pub inner: Plain,
    pub list: Vec<Plain>,
    pub map: BTreeMap<String, Defaults>,
}

#[derive(Serialize, Deserialize, PartialEq, Debug, Clone)]
pub struct Borrowed<'a> {
    pub s: &'a str,
    #[serde(borrow)]
    pub c: Cow<'a, str>,
}

#[derive(Serialize, Deserialize, PartialEq, Debug, Clone)]
pub struct Newtype(pub i64);

#[derive(Serialize, Deserialize, PartialEq, Debug, Clone)]
pub struct TupleS(pub u8, pub String, pub f64);

#[derive(Serialize, Deserialize, PartialEq, Debug, Clone)]
pub struct UnitS;

#[derive(Serialize, Deserialize, PartialEq, Eq, PartialOrd, Ord, Debug, Clone, Hash)]
pub enum Kind {
    Alpha,
    Beta,
    Gamma,
}

#[derive(Serialize, Deserialize, PartialEq, Debug, Clone)]
pub enum Ext {
    Unit,
    New(i32),
    Tup(u8, String),
    Rec { a: bool, b: Option<i8> },
}

#[derive(Serialize, Deserialize, PartialEq, Debug, Clone)]
#[serde(tag = "t")]
pub enum Internal {
    A { x: i32 },
    B { y: String },
    C,
}

#[derive(Serialize, Deserialize, PartialEq, Debug, Clone)]
#[serde(tag = "t", content = "c")]
pub enum Adjacent {
    A(i32),
    B { y: String },
    C,
}

#[derive(Serialize, Deserialize, PartialEq, Debug, Clone)]
#[serde(untagged)]
pub enum Untagged {
    N(i64),
    S(String),
    L(Vec<u8>),
    R { a: bool },
}

#[derive(Serialize, Deserialize, PartialEq, Debug, Clone)]
pub struct Flat {
    pub id: u32,
    #[serde(flatten)]
    pub rest: Plain,
}

// borrowed strings inside the containers serde deserializes through its buffered `Content` (untagged,
// internally / adjacently tagged, flatten): they can only borrow when the deserializer hands out
// `visit_borrowed_str` for escape-free strings
#[derive(Deserialize, PartialEq, Debug)]
#[serde(untagged)]
pub enum UntaggedB<'a> {
    N(i64),
    S(&'a str),
    R {
        #[serde(borrow)]
        a: Cow<'a, str>,
    },
}

#[derive(Deserialize, PartialEq, Debug)]
#[serde(tag = "t")]
pub enum InternalB<'a> {
    A { x: &'a str },
    B { y: i32 },
}

#[derive(Deserialize, PartialEq, Debug)]
#[serde(tag = "t", content = "c")]
pub enum AdjacentB<'a> {
    A(&'a str),
    B { y: i32 },
}

#[derive(Deserialize, PartialEq, Debug)]
pub struct FlatInnerB<'a> {
    pub s: &'a str,
    pub n: Option<i8>,
}

#[derive(Deserialize, PartialEq, Debug)]
pub struct FlatB<'a> {
    pub id: u32,
    #[serde(flatten, borrow)]
    pub rest: FlatInnerB<'a>,
}

// every kind of payload behind the containers serde deserializes through its buffered `Content`: what the
// deserializer's `deserialize_any` hands to the buffer (visit_unit for null, visit_u64 / visit_i64 / visit_f64,
// visit_str, visit_seq, visit_map) decides what each payload type can be read back from
#[derive(Debug, PartialEq)]
pub struct Skip;
impl<'de> Deserialize<'de> for Skip {
    fn deserialize<D: serde::Deserializer<'de>>(d: D) -> Result<Self, D::Error> {
        serde::de::IgnoredAny::deserialize(d).map(|_| Skip)
    }
}
#[derive(Deserialize, PartialEq, Debug)]
#[serde(untagged)]
pub enum UntaggedP<P> {
    Hit(P),
    Miss(Skip),
}
#[derive(Deserialize, PartialEq, Debug)]
#[serde(tag = "t")]
pub enum InternalP<P> {
    A { m: P },
    B(P),
    C { m: Option<P>, #[serde(default)] k: u8 },
}
#[derive(Deserialize, PartialEq, Debug)]
#[serde(tag = "t", content = "c")]
pub enum AdjacentP<P> {
    A(P),
    B { m: P },
    C(Option<P>, u8),
}
#[derive(Deserialize, PartialEq, Debug)]
pub struct FlatInnerP<P> {
    pub m: P,
    #[serde(default)]
    pub k: Option<u8>,
}
#[derive(Deserialize, PartialEq, Debug)]
pub struct FlatP<P> {
    pub id: u32,
    #[serde(flatten)]
    pub rest: FlatInnerP<P>,
}

// variants whose payload is written as null: the DOM route must not take `{"V":null}` for the unit form
#[derive(Serialize, Deserialize, PartialEq, Debug, Clone)]
pub enum NullPay {
    N(Option<i32>),
    U(()),
    S(UnitS),
    T(Option<Option<bool>>),
    Z,
    W(Newtype),
    R { a: Option<u8> },
}

#[derive(Serialize, Deserialize, PartialEq, Debug, Clone)]
pub struct HoldsNullPay {
    pub e: NullPay,
    pub v: Vec<NullPay>,
    pub o: Option<NullPay>,
}

pub fn plain_shape() -> Shape {
    Shape::Struct(vec![("a", Shape::Int { signed: true, bits: 32 }, false), ("b", Shape::Str, false), ("c", Shape::Opt(Box::new(Shape::Bool)), true)])
}
pub fn defaults_shape() -> Shape {
    Shape::Struct(vec![("x", Shape::Int { signed: false, bits: 8 }, true), ("y", Shape::Seq(Box::new(Shape::Int { signed: true, bits: 64 })), true), ("z", Shape::F64, false)])
}
pub fn kind_shape() -> Shape {
    Shape::Enum(vec![("Alpha", None), ("Beta", None), ("Gamma", None)])
}

pub type MapSI = BTreeMap<String, i32>;
pub type MapIS = BTreeMap<i32, String>;
pub type MapBI = BTreeMap<bool, i8>;
pub type MapKI = BTreeMap<Kind, i8>;
pub type MapU64 = BTreeMap<u64, bool>;
pub type MapCS = BTreeMap<char, String>;
pub type MapI8C = BTreeMap<i8, char>;
pub type MapI64VC = BTreeMap<i64, Vec<char>>;
