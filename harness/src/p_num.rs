//! C07 (numbers are parsed exactly) and C08 (numbers are written so that they read back bit-identically).
use sonic_rs::{JsonNumberTrait, JsonValueTrait, RawNumber, Value};

use crate::{
    entry::guarded,
    gen,
    out::{hex, Out},
    rng::Rng,
};

fn class_of(lit: &str) -> String {
    // unit level: sonic_number::parse_number on the literal followed by a terminator
    let mut data = lit.as_bytes().to_vec();
    data.extend_from_slice(b",                                ");
    let neg = data[0] == b'-';
    let mut idx = if neg { 1 } else { 0 };
    let r = guarded(|| sonic_number::parse_number(&data, &mut idx, neg));
    match r {
        Err(p) => format!("panic:{}", p.replace(['\t', '\n'], " ")),
        Ok(Err(sonic_number::Error::FloatMustBeFinite)) => "inf".into(),
        Ok(Err(sonic_number::Error::InvalidNumber)) => "invalid".into(),
        Ok(Ok(sonic_number::ParserNumber::Unsigned(u))) => format!("u{u:x}"),
        Ok(Ok(sonic_number::ParserNumber::Signed(i))) => format!("i-{:x}", i.unsigned_abs()),
        Ok(Ok(sonic_number::ParserNumber::Float(f))) => format!("f{:016x}", f.to_bits()),
    }
}

fn typed<T: for<'a> serde::Deserialize<'a>>(lit: &str, show: impl Fn(T) -> String) -> String {
    match guarded(|| sonic_rs::from_str::<T>(lit)) {
        Err(p) => format!("panic:{}", p.replace(['\t', '\n'], " ")),
        Ok(Err(_)) => "err".into(),
        Ok(Ok(v)) => format!("ok:{}", show(v)),
    }
}

pub fn number_cases(out: &mut Out, lit: &str) {
    let h = hex(lit.as_bytes());
    let nt = lit.len() > 1;
    out.case("numclass", &[&h, "sonic_number::parse_number"], &class_of(lit), nt);
    // through the DOM and the typed entry points
    let r = guarded(|| sonic_rs::from_str::<Value>(lit).map(|v| crate::dump::dump(&v)));
    out.case("numclass", &[&h, "Value"], &match r {
        Ok(Ok(s)) => s,
        Ok(Err(_)) => "inf".into(),
        Err(p) => format!("panic:{p}"),
    }, nt);
    out.case("numtyped", &["f64", &h], &typed::<f64>(lit, |x| format!("{:016x}", x.to_bits())), nt);
    out.case("numtyped", &["f32", &h], &typed::<f32>(lit, |x| format!("{:08x}", x.to_bits())), nt);
    out.case("numtyped", &["u8", &h], &typed::<u8>(lit, |x| format!("{x:x}")), nt);
    out.case("numtyped", &["i8", &h], &typed::<i8>(lit, |x| if x < 0 { format!("-{:x}", x.unsigned_abs()) } else { format!("{x:x}") }), nt);
    out.case("numtyped", &["u16", &h], &typed::<u16>(lit, |x| format!("{x:x}")), nt);
    out.case("numtyped", &["i16", &h], &typed::<i16>(lit, |x| if x < 0 { format!("-{:x}", x.unsigned_abs()) } else { format!("{x:x}") }), nt);
    out.case("numtyped", &["u32", &h], &typed::<u32>(lit, |x| format!("{x:x}")), nt);
    out.case("numtyped", &["i32", &h], &typed::<i32>(lit, |x| if x < 0 { format!("-{:x}", x.unsigned_abs()) } else { format!("{x:x}") }), nt);
    out.case("numtyped", &["u64", &h], &typed::<u64>(lit, |x| format!("{x:x}")), nt);
    out.case("numtyped", &["i64", &h], &typed::<i64>(lit, |x| if x < 0 { format!("-{:x}", x.unsigned_abs()) } else { format!("{x:x}") }), nt);
    out.case("numtyped", &["u128", &h], &typed::<u128>(lit, |x| format!("{x:x}")), nt);
    out.case("numtyped", &["i128", &h], &typed::<i128>(lit, |x| if x < 0 { format!("-{:x}", x.unsigned_abs()) } else { format!("{x:x}") }), nt);
    // second opinion on the specification itself: Rust's own parser (only consulted for literals it supports)
    if lit.len() < 2000 {
        if let Ok(x) = lit.parse::<f64>() {
            if x.is_finite() {
                out.case("numstd", &[&h], &format!("{:016x}", x.to_bits()), nt);
            }
        }
    }
}

fn digits(rng: &mut Rng, n: usize, first_nonzero: bool) -> String {
    let mut s = String::new();
    for i in 0..n {
        let d = if i == 0 && first_nonzero { 1 + rng.below(9) } else { rng.below(10) };
        s.push((b'0' + d as u8) as char);
    }
    s
}

/// decimal expansion of the midpoint between x and its successor (exact), possibly nudged
fn halfway(x: f64, rng: &mut Rng) -> String {
    // x = m * 2^e exactly; midpoint = (2m+1) * 2^(e-1); print exactly with big decimal arithmetic
    let bits = x.to_bits();
    let e = ((bits >> 52) & 0x7ff) as i64;
    let m = bits & ((1u64 << 52) - 1);
    let (mant, exp2) = if e == 0 { (m, -1074i64) } else { (m | (1 << 52), e - 1075) };
    let mut num: Vec<u32> = vec![]; // base 1e9 little endian of (2*mant+1)
    let v = 2 * (mant as u128) + 1;
    let mut t = v;
    while t > 0 {
        num.push((t % 1_000_000_000) as u32);
        t /= 1_000_000_000;
    }
    let mut exp2 = exp2 - 1;
    let mut dec_exp: i64 = 0;
    // multiply by 2^exp2: for negative exponents multiply by 5 and decrease the decimal exponent
    while exp2 > 0 {
        let mut carry = 0u64;
        for d in num.iter_mut() {
            let x = (*d as u64) * 2 + carry;
            *d = (x % 1_000_000_000) as u32;
            carry = x / 1_000_000_000;
        }
        if carry > 0 {
            num.push(carry as u32);
        }
        exp2 -= 1;
    }
    while exp2 < 0 {
        let mut carry = 0u64;
        for d in num.iter_mut() {
            let x = (*d as u64) * 5 + carry;
            *d = (x % 1_000_000_000) as u32;
            carry = x / 1_000_000_000;
        }
        if carry > 0 {
            num.push(carry as u32);
        }
        dec_exp -= 1;
        exp2 += 1;
    }
    let mut s = String::new();
    for (i, d) in num.iter().rev().enumerate() {
        if i == 0 {
            s.push_str(&d.to_string());
        } else {
            s.push_str(&format!("{d:09}"));
        }
    }
    // nudge: exactly the midpoint, just above it, or just below it
    let mut nudged = false;
    match rng.below(3) {
        0 => {}
        1 => {
            s.push('1');
            nudged = true;
        }
        _ => {
            // S*10 - 1: decrement S, then append a 9
            let mut b = s.into_bytes();
            let mut i = b.len();
            while i > 0 {
                i -= 1;
                if b[i] > b'0' {
                    b[i] -= 1;
                    break;
                }
                b[i] = b'9';
            }
            s = String::from_utf8(b).unwrap();
            // 1000..0 - 1 = 0999..9: a JSON number has no leading zero (the midpoint above 1e23 is exactly 10^23)
            while s.len() > 1 && s.starts_with('0') {
                s.remove(0);
            }
            s.push('9');
            nudged = true;
        }
    }
    let e = dec_exp - if nudged { 1 } else { 0 };
    respell(&s, e, rng)
}

/// the value `digits * 10^e` in one of the spellings the number grammar allows: exponent form, plain digits,
/// decimal point moved inside, zero fractions, padding zeros with a compensating exponent. The rounding
/// decision must not depend on the spelling (a parser that drops digits must remember that it did)
fn respell(digits: &str, e: i64, rng: &mut Rng) -> String {
    let n = digits.len() as i64;
    let zeros = |k: usize| "0".repeat(k);
    match rng.below(8) {
        0 | 1 => format!("{digits}e{e}"),
        2 if e >= 0 && e <= 40 => format!("{digits}{}", zeros(e as usize)),
        3 if e >= 0 && e <= 40 => format!("{digits}{}.{}", zeros(e as usize), zeros(1 + rng.below(3))),
        4 if e >= 0 && e <= 40 => format!("{digits}{}.{}e{}", zeros(e as usize), zeros(1 + rng.below(20)), *rng.pick(&["0", "+0", "-0", "00"])),
        2 | 3 | 4 if e < 0 && -e < n => {
            let k = (n + e) as usize;
            format!("{}.{}{}", &digits[..k], &digits[k..], zeros(rng.below(3)))
        }
        2 | 3 | 4 if e < 0 && -e - n < 30 => format!("0.{}{digits}", zeros((-e - n) as usize)),
        5 => format!("{digits}.{}e{e}", zeros(1 + rng.below(25))),
        6 => {
            let k = 1 + rng.below(4);
            format!("{digits}{}e{}", zeros(k), e - k as i64)
        }
        _ => {
            let k = 1 + rng.below((n as usize).min(30).max(2) - 1);
            if (k as i64) < n { format!("{}.{}E{:+}", &digits[..k], &digits[k..], e + n - k as i64) } else { format!("{digits}e{e}") }
        }
    }
}

pub fn literals(rng: &mut Rng, thorough: bool) -> Vec<String> {
    let mut v: Vec<String> = gen::NUM_POOL.iter().map(|s| s.to_string()).collect();
    // every digit count, every power of ten
    let maxd = if thorough { 800 } else { 120 };
    for n in 1..=maxd {
        if thorough || n < 45 || n % 7 == 0 {
            v.push(digits(rng, n, true));
            v.push(format!("-{}", digits(rng, n, true)));
            v.push(format!("0.{}", digits(rng, n, false)));
            let e = rng.below(40);
            v.push(format!("{}.{}e-{}", digits(rng, 1 + n % 25, true), digits(rng, n, false), e));
        }
    }
    let maxe = if thorough { 400 } else { 400 };
    for e in (-(maxe as i64)..=maxe as i64).step_by(if thorough { 1 } else { 3 }) {
        v.push(format!("1e{e}"));
        let (n1, n2, n3) = (1 + rng.below(19), 1 + rng.below(3), rng.range(1, 20));
        v.push(format!("{}e{e}", digits(rng, n1, true)));
        v.push(format!("-{}.{}E{e}", digits(rng, n2, true), digits(rng, n3, false)));
    }
    // integer boundaries
    for base in [u64::MAX as u128, i64::MAX as u128, (i64::MAX as u128) + 1, 1u128 << 53, u32::MAX as u128, 255, 127, 128, 32767, 32768, 65535, 1u128 << 64, u128::MAX, i128::MAX as u128, (i128::MAX as u128) + 1] {
        for d in -3i128..=3 {
            let x = (base as i128).wrapping_add(d);
            if base > i128::MAX as u128 - 3 {
                let y = base.wrapping_add(d as u128);
                v.push(format!("{y}"));
                v.push(format!("-{y}"));
            } else {
                v.push(format!("{x}"));
                v.push(format!("-{x}"));
            }
        }
    }
    // the enumerated number grammar (integer part of 1..25 digits x fraction / exponent shapes), well-formed members
    v.extend(gen::number_grammar().into_iter().filter(|s| gen::is_json_number(s)));
    v.push("340282366920938463463374607431768211456".into()); // 2^128
    v.push("-170141183460469231731687303715884105729".into()); // -2^127 - 1
    // halfway and near-halfway cases around random and boundary doubles
    let nh = if thorough { 4000 } else { 400 };
    for i in 0..nh {
        let x = match i % 7 {
            // integers of 20 to 30 digits: the digits a 19-digit reader drops decide the rounding
            5 | 6 => f64::from_bits(((1023 + 63 + rng.below(36) as u64) << 52) | (rng.next() & 0x000f_ffff_ffff_ffff)),
            0 => f64::from_bits(rng.next() & 0x7fef_ffff_ffff_ffff),
            1 => f64::from_bits((rng.below(2046) as u64 + 1) << 52),
            2 => f64::from_bits(rng.next() & 0x000f_ffff_ffff_ffff),
            3 => f64::from_bits(0x4340_0000_0000_0000 + rng.below(1000) as u64),
            _ => 10f64.powi(rng.below(600) as i32 - 300),
        };
        if x.is_finite() {
            v.push(halfway(x, rng));
        }
    }
    // the overflow and underflow boundaries, for every significand length and both exponent
    // spellings: prefixes of f64::MAX, of the smallest normal and of the smallest subnormal, nudged
    // in the last place, with the decimal point moved so that the exponent field takes every value
    // a fast path might be guarded on
    const MAXD: &str = "17976931348623157081452742373170435679807056752584499659891747680315726078";
    const MINN: &str = "22250738585072013830902327173324040642192159804623318305533274168872044348";
    const MINS: &str = "49406564584124654417656879286822137236505980261432476442558568250067550727";
    for (digs, mag) in [(MAXD, 308i64), (MINN, -308), (MINS, -324)] {
        for n in 1..=24usize {
            let pre = &digs[..n];
            let mut variants = vec![pre.to_string()];
            // last place +1 / -1 (no carry handling needed beyond saturating at 9 / 0)
            let mut b = pre.as_bytes().to_vec();
            if b[n - 1] < b'9' {
                b[n - 1] += 1;
                variants.push(String::from_utf8(b.clone()).unwrap());
                b[n - 1] -= 1;
            }
            if b[n - 1] > b'0' && n > 1 {
                b[n - 1] -= 1;
                variants.push(String::from_utf8(b.clone()).unwrap());
            }
            variants.push(format!("{}{}", 1 + rng.below(9), digits(rng, n - 1, false)));
            for m in variants {
                for dm in [-2i64, -1, 0, 1, 2] {
                    // integer significand: m * 10^(mag + dm - (n-1))
                    let e = mag + dm - (n as i64 - 1);
                    v.push(format!("{m}e{e}"));
                    v.push(format!("-{m}E{:+}", e));
                    if n > 1 {
                        let k = 1 + rng.below(n - 1);
                        v.push(format!("{}.{}e{}", &m[..k], &m[k..], mag + dm - (k as i64 - 1)));
                    }
                }
            }
        }
    }
    // significands around 2^53 (15 to 17 digits, many above 9007199254740992) with every small
    // exponent: where an exact-conversion fast path ends and double rounding would begin
    for i in 0..(if thorough { 30000 } else { 4000 }) {
        let n = 15 + rng.below(3);
        let lead = match i % 4 {
            0 => "9".to_string(),
            1 => format!("90{}", rng.below(10)),
            2 => format!("{}", 1 + rng.below(9)),
            _ => "9007199254740".to_string(),
        };
        let m = format!("{}{}", lead, digits(rng, n - lead.len(), false));
        let e = rng.below(64) as i64 - 24;
        match rng.below(3) {
            0 => v.push(format!("{m}e{e}")),
            1 => {
                let k = 1 + rng.below(n - 1);
                v.push(format!("{}.{}", &m[..k], &m[k..]));
            }
            _ => {
                let k = 1 + rng.below(n - 1);
                v.push(format!("{}.{}e{}", &m[..k], &m[k..], e));
            }
        }
        if i % 8 == 0 {
            v.push(format!("0.{m}"));
            v.push(format!("0.{}{m}", "0".repeat(rng.below(8))));
        }
    }
    // long digit runs at every 16-byte alignment of the fraction reader
    for pre in 1..=20 {
        for post in [1usize, 15, 16, 17, 31, 32, 33, 40] {
            v.push(format!("{}.{}", digits(rng, pre, true), digits(rng, post, false)));
        }
    }
    // huge exponents, zero padding, the F11 family
    for k in [3usize, 10, 100, 1000, 9999] {
        v.push(format!("0.{}1e{}", "0".repeat(k - 1), k));
        v.push(format!("1{}e-{}", "0".repeat(k), k));
        v.push(format!("{}.5", "0".repeat(1) + &"0".repeat(0)));
        v.push(format!("1e{}", "0".repeat(k) + "5"));
        v.push(format!("1e-{}", "0".repeat(k) + "5"));
    }
    v.push("1e99999999999999999999".into());
    v.push("1e-99999999999999999999".into());
    v.push("0e99999999999999999999".into());
    v.push("-0e-99999999999999999999".into());
    // generated
    for _ in 0..(if thorough { 20000 } else { 2500 }) {
        v.push(gen::gen_number(rng, true));
        let (s, ok) = gen::long_number(rng);
        if ok {
            v.push(s);
        }
    }
    v
}

pub fn run_c07(out: &mut Out, tier: &str, seed: u64) {
    let mut rng = Rng::new(seed);
    for lit in literals(&mut rng, tier == "thorough") {
        out.count("literal");
        number_cases(out, &lit);
    }
    // the 16-digit reader against its scalar definition
    for _ in 0..(if tier == "thorough" { 200000 } else { 20000 }) {
        let mut c = [b'0'; 16];
        let nd = rng.below(17);
        for (i, b) in c.iter_mut().enumerate() {
            *b = if i < nd { b'0' + rng.below(10) as u8 } else { *rng.pick(b"eE.,] x-") };
        }
        if nd == 0 {
            continue; // the first byte is required to be a digit
        }
        let need = rng.range(1, 16);
        let (v, n) = sonic_number::verif_hooks::simd_str2int(&c, need);
        out.case("str2int", &[&hex(&c), &need.to_string()], &format!("{v},{n}"), true);
    }
}

// ---------------------------------------------------------------- C08

fn roundtrip<T: serde::Serialize + for<'a> serde::Deserialize<'a>>(x: &T) -> Result<(String, T), String> {
    let s = sonic_rs::to_string(x).map_err(|e| e.to_string())?;
    let y = sonic_rs::from_str::<T>(&s).map_err(|e| format!("reparse of {s}: {e}"))?;
    Ok((s, y))
}

pub fn run_c08(out: &mut Out, tier: &str, seed: u64) {
    let mut rng = Rng::new(seed);
    let thorough = tier == "thorough";
    // f64: every exponent, around powers of two and ten, subnormals, random
    let mut f64s: Vec<f64> = vec![0.0, -0.0, 1.0, -1.0, f64::MAX, f64::MIN, f64::MIN_POSITIVE, 5e-324, 1e23, 9007199254740993.0, 0.1, 0.3, 1e21, 1e-7, 123456789012345680.0];
    for e in 0..2047u64 {
        f64s.push(f64::from_bits(e << 52));
        f64s.push(f64::from_bits((e << 52) | (rng.next() & ((1 << 52) - 1))));
        f64s.push(-f64::from_bits((e << 52) | ((1 << 52) - 1)));
    }
    for p in -323..=308 {
        let x = format!("1e{p}").parse::<f64>().unwrap();
        f64s.push(x);
        f64s.push(f64::from_bits(x.to_bits() + 1));
        f64s.push(f64::from_bits(x.to_bits().saturating_sub(1)));
    }
    for _ in 0..(if thorough { 200000 } else { 10000 }) {
        f64s.push(f64::from_bits(rng.next()));
    }
    for x in f64s {
        if !x.is_finite() {
            // non-finite floats become null
            let s = sonic_rs::to_string(&x).unwrap_or_default();
            out.case("expect", &["nonfinite->null", &hex(s.as_bytes())], if s == "null" { "true" } else { "false" }, true);
            continue;
        }
        out.count("f64");
        match guarded(|| roundtrip(&x)) {
            Ok(Ok((s, y))) => {
                out.case("numprint", &["f64", &format!("{:016x}", x.to_bits()), &hex(s.as_bytes())], if y.to_bits() == x.to_bits() { "ok" } else { "reads back differently" }, true);
                // through the DOM
                let v = sonic_rs::to_value(&x).unwrap_or_default();
                let s2 = sonic_rs::to_string(&v).unwrap_or_default();
                let back = sonic_rs::from_str::<Value>(&s2).ok().and_then(|v| v.as_f64());
                out.case("expect", &["dom f64 round trip", &hex(s2.as_bytes())], if back.map(|b| b.to_bits()) == Some(x.to_bits()) { "true" } else { "false" }, true);
            }
            Ok(Err(e)) => out.case("numprint", &["f64", &format!("{:016x}", x.to_bits()), ""], &format!("error:{e}"), true),
            Err(p) => out.case("numprint", &["f64", &format!("{:016x}", x.to_bits()), ""], &format!("panic:{p}"), true),
        }
    }
    // f32: sampled here (all 2^32 values is an implementation-only sweep, see `f32all`)
    // the last two are the recorded witnesses of known finding F32 (double rounding through f64)
    let mut f32s: Vec<f32> = vec![0.0, -0.0, 1.0, f32::MAX, f32::MIN_POSITIVE, 1e-45, 0.1, 16777217.0, 3.4028235e38, f32::from_bits(0x15ae43fd), f32::from_bits(0x95ae43fd)];
    for e in 0..255u32 {
        f32s.push(f32::from_bits(e << 23));
        f32s.push(f32::from_bits((e << 23) | (rng.next() as u32 & ((1 << 23) - 1))));
    }
    for _ in 0..(if thorough { 200000 } else { 10000 }) {
        f32s.push(f32::from_bits(rng.next() as u32));
    }
    for x in f32s {
        if !x.is_finite() {
            continue;
        }
        out.count("f32");
        match guarded(|| roundtrip(&x)) {
            Ok(Ok((s, y))) => out.case("numprint", &["f32", &format!("{:08x}", x.to_bits()), &hex(s.as_bytes())], if y.to_bits() == x.to_bits() { "ok" } else { "reads back differently" }, true),
            Ok(Err(e)) => out.case("numprint", &["f32", &format!("{:08x}", x.to_bits()), ""], &format!("error:{e}"), true),
            Err(p) => out.case("numprint", &["f32", &format!("{:08x}", x.to_bits()), ""], &format!("panic:{p}"), true),
        }
    }
    // integers of every width
    macro_rules! ints {
        ($t:ty, $name:expr, $vals:expr) => {
            for x in $vals {
                let x: $t = x;
                out.count($name);
                let xs = { let d = format!("{x}"); if let Some(r) = d.strip_prefix('-') { format!("-{:x}", r.parse::<u128>().unwrap()) } else { format!("{:x}", d.parse::<u128>().unwrap()) } };
                match guarded(|| roundtrip(&x)) {
                    Ok(Ok((s, y))) => out.case("numprint", &[$name, &xs, &hex(s.as_bytes())], if y == x { "ok" } else { "reads back differently" }, true),
                    Ok(Err(e)) => out.case("numprint", &[$name, &xs, ""], &format!("error:{e}"), true),
                    Err(p) => out.case("numprint", &[$name, &xs, ""], &format!("panic:{p}"), true),
                }
            }
        };
    }
    ints!(u8, "u8", 0..=u8::MAX);
    ints!(i8, "i8", i8::MIN..=i8::MAX);
    if thorough {
        ints!(u16, "u16", 0..=u16::MAX);
        ints!(i16, "i16", i16::MIN..=i16::MAX);
    } else {
        ints!(u16, "u16", (0..2000).map(|_| rng.next() as u16).chain([0, u16::MAX, 255, 256]));
        ints!(i16, "i16", (0..2000).map(|_| rng.next() as i16).chain([0, i16::MIN, i16::MAX, -1]));
    }
    ints!(u32, "u32", (0..2000).map(|_| (rng.next() >> rng.below(64)) as u32).chain([0, u32::MAX]));
    ints!(i32, "i32", (0..2000).map(|_| (rng.next() as i64 >> rng.below(64)) as i32).chain([0, i32::MIN, i32::MAX]));
    ints!(u64, "u64", (0..2000).map(|_| rng.next() >> rng.below(64)).chain([0, u64::MAX, 1 << 63, (1 << 63) - 1, 1 << 53]));
    ints!(i64, "i64", (0..2000).map(|_| rng.next() as i64 >> rng.below(64)).chain([0, i64::MIN, i64::MAX, -1]));
    // 128-bit values are (de)serialized only when they fit 64 bits by the in-memory DOM, but as text in full
    let mut u128s: Vec<u128> = vec![0, u64::MAX as u128, u64::MAX as u128 + 1, u128::MAX, 1 << 100];
    for _ in 0..500 {
        let a = rng.next() as u128;
        let b = rng.next() as u128;
        let sh = rng.below(128);
        u128s.push(((a << 64) | b) >> sh);
    }
    ints!(u128, "u128", u128s.clone());
    ints!(i128, "i128", u128s.iter().map(|x| *x as i128).chain([i128::MIN, i128::MAX, -1]));
    // negative values of every magnitude, and both signs around the 63-, 64- and 127-bit boundaries
    let mut i128s: Vec<i128> = u128s.iter().map(|x| ((*x >> 1) as i128).wrapping_neg()).collect();
    for e in [31u32, 32, 53, 62, 63, 64, 65, 95, 96, 126] {
        for d in -3i128..=3 {
            i128s.push((1i128 << e) + d);
            i128s.push(-(1i128 << e) + d);
        }
    }
    ints!(i128, "i128", i128s.clone());
    ints!(u128, "u128", i128s.iter().filter(|x| **x >= 0).map(|x| *x as u128));
    // DOM integers
    for _ in 0..2000 {
        let u = rng.next() >> rng.below(64);
        let v = Value::from(u);
        let s = sonic_rs::to_string(&v).unwrap_or_default();
        let back = sonic_rs::from_str::<Value>(&s).ok();
        out.case("expect", &["dom u64 round trip", &hex(s.as_bytes())], if back.as_ref().and_then(|b| b.as_u64()) == Some(u) && back.as_ref().map(|b| b.is_u64()) == Some(true) { "true" } else { "false" }, true);
        let i = -((rng.next() >> rng.below(63) >> 1) as i64) - 1;
        let v = Value::from(i);
        let s = sonic_rs::to_string(&v).unwrap_or_default();
        let back = sonic_rs::from_str::<Value>(&s).ok();
        out.case("expect", &["dom i64 round trip", &hex(s.as_bytes())], if back.as_ref().and_then(|b| b.as_i64()) == Some(i) && back.as_ref().map(|b| b.is_i64()) == Some(true) { "true" } else { "false" }, true);
    }
    // raw numbers: valid literal, verbatim, accessors agree; bare and quoted; invalid ones rejected
    let mut lits = literals(&mut rng, false);
    lits.truncate(if thorough { 6000 } else { 1500 });
    // damaged tails on literals of every length (the scanners' block and tail paths differ)
    let base: Vec<String> = lits.iter().take(200).cloned().collect();
    for (i, b) in base.iter().enumerate() {
        let tail = ["." , "e", "E", "-", ".e5", "e+", ".5.5", "E-", "1e1e1", "x"][i % 10];
        lits.push(format!("{b}{tail}"));
        if !b.contains('.') && !b.contains('e') && !b.contains('E') {
            lits.push(format!("{b}.e5"));
            lits.push(format!("{b}."));
        }
    }
    for l in ["01", "1.", ".5", "1e", "-", "+1", "1e+", "0x10", "1_0", " 1", "1 ", "NaN", "Infinity", "", "--1", "1.e1", "1ee1"] {
        lits.push(l.to_string());
    }
    // the enumerated number grammar: integer parts of every length around the digit thresholds and the 32-byte blocks
    // x well-formed and damaged tails (a raw number always holds a grammatically valid JSON number)
    for (k, l) in gen::number_grammar().into_iter().enumerate() {
        if thorough || k % 2 == 0 {
            lits.push(l);
        }
    }
    // raw-number mode wherever a Value is read: the root, elements of a typed vector, a struct field, a later
    // stream document (the latter three go through the copying parser): the literal is kept verbatim
    {
        #[derive(serde::Deserialize)]
        struct Holder {
            v: Value,
        }
        let keep: Vec<String> = lits.iter().filter(|l| gen::is_json_number(l)).take(if thorough { 3000 } else { 600 }).cloned().collect();
        for lit in keep {
            let r = guarded(|| -> Vec<(&'static str, Option<String>)> {
                let mut got = Vec::new();
                let raw_of = |v: &Value| v.as_raw_number().map(|r| r.as_str().to_string());
                got.push(("root", sonic_rs::Deserializer::from_str(&lit).use_rawnumber().deserialize::<Value>().ok().and_then(|v| raw_of(&v))));
                let t = format!("[{lit}, {lit}]");
                got.push(("Vec<Value>", sonic_rs::Deserializer::from_str(&t).use_rawnumber().deserialize::<Vec<Value>>().ok().and_then(|v| v.get(1).and_then(raw_of))));
                let t = format!("{{\"v\":{lit}}}");
                got.push(("struct field", sonic_rs::Deserializer::from_str(&t).use_rawnumber().deserialize::<Holder>().ok().and_then(|h| raw_of(&h.v))));
                let t = format!("null {lit}");
                got.push(("second stream document", sonic_rs::Deserializer::from_str(&t).use_rawnumber().into_stream::<Value>().nth(1).and_then(|x| x.ok()).and_then(|v| raw_of(&v))));
                let t = format!("[{lit}]");
                got.push(("nested in root", sonic_rs::Deserializer::from_str(&t).use_rawnumber().deserialize::<Value>().ok().and_then(|v| v.get(0).and_then(raw_of))));
                got
            });
            let verdict = match r {
                Err(p) => format!("panic:{p}"),
                Ok(got) => {
                    let bad: Vec<String> = got.iter().filter(|(_, g)| g.as_deref() != Some(lit.as_str())).map(|(w, g)| format!("{w}: {g:?}")).collect();
                    if bad.is_empty() { "true".to_string() } else { bad.join("; ") }
                }
            };
            out.case("expect", &["raw-number mode keeps the literal on every route", &hex(lit.as_bytes())], &verdict, true);
            out.count("rawnumber routes");
        }
    }
    for lit in lits {
        out.count("rawnumber");
        let h = hex(lit.as_bytes());
        let bare = guarded(|| sonic_rs::from_str::<RawNumber>(&lit));
        let quoted_text = format!("\"{lit}\"");
        let quoted = guarded(|| sonic_rs::from_str::<RawNumber>(&quoted_text));
        for (which, r) in [("bare", bare), ("quoted", quoted)] {
            let res = match r {
                Err(p) => format!("panic:{p}"),
                Ok(Err(_)) => "err".into(),
                Ok(Ok(rn)) => {
                    let ser = sonic_rs::to_string(&rn).unwrap_or_default();
                    let mut acc = String::new();
                    if let Some(u) = rn.as_u64() {
                        acc.push_str(&format!("u{u:x}"));
                    } else if let Some(i) = rn.as_i64() {
                        acc.push_str(&format!("i-{:x}", i.unsigned_abs()));
                    } else if let Some(f) = rn.as_f64() {
                        acc.push_str(&format!("f{:016x}", f.to_bits()));
                    } else {
                        acc.push_str("inf");
                    }
                    format!("ok:{}:{}:{}", hex(rn.as_str().as_bytes()), hex(ser.as_bytes()), acc)
                }
            };
            out.case("rawnum", &[&h, which], &res, lit.len() > 1);
        }
    }
}

/// implementation-only exhaustive sweep of all 2^32 f32 values (thorough tier, sharded over the cores):
/// prints the number of values that do not read back bit-identically
pub fn f32_all(shard: u32, shards: u32) -> u64 {
    let mut bad = 0u64;
    let mut x = shard as u64;
    while x <= u32::MAX as u64 {
        let f = f32::from_bits(x as u32);
        if f.is_finite() {
            let s = sonic_rs::to_string(&f).unwrap();
            match sonic_rs::from_str::<f32>(&s) {
                Ok(y) if y.to_bits() == f.to_bits() => {}
                _ => {
                    if bad < 5 {
                        println!("f32 {:08x} prints {s} and does not read back", x);
                    }
                    bad += 1;
                }
            }
        }
        x += shards as u64;
    }
    bad
}
