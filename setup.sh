#!/bin/sh
# MANIFEST.setup_cmd: build everything from files on disk, offline.
set -e
cd "$(dirname "$0")"
export CARGO_NET_OFFLINE=true
mkdir -p .build work evidence replays coq/Gen ocaml/gen
( cd harness && cargo build --release --offline 2>&1 | tail -3 )
.build/target/release/vharness tables coq/Gen/Tables.v
python3 lib/guards.py /repo coq/Gen/Guards.v
python3 lib/rs2coq.py /repo coq/Gen/Funcs.v
python3 - <<'PY'
import importlib.machinery, importlib.util, sys
l = importlib.machinery.SourceFileLoader('check', 'check'); spec = importlib.util.spec_from_loader('check', l); m = importlib.util.module_from_spec(spec); l.exec_module(m)
m.coq_makefile()
ok, out = m.coq_build([], timeout=3400)
print(out[-1500:])
if not ok:
    sys.exit(1)
ok, out = m.build_model_runner()
if not ok:
    print(out[-3000:]); sys.exit(1)
print("setup ok")
PY
