(* C09: string literal decoding *)
open Driver
let rec take n l = if n = 0 then [] else match l with [] -> [] | x :: r -> x :: take (n - 1) r
let notstr = hex_of_bytes (Stdlib.List.map n_of_int [1; 110; 111; 116; 115; 116; 114])   (* "\x01notstr" *)
let () =
  reg_memo 2 "strdec" (function mode :: h :: _ ->
      (* JSON whitespace around the literal is permitted by every entry point *)
      let rec trim = function c :: r when Ref.is_ws c -> trim r | l -> l in
      let lit = Stdlib.List.rev (trim (Stdlib.List.rev (trim (bytes_of_hex h)))) in
      (* entry points that read the first value of the input: only the first literal counts *)
      let first_literal lossy =
        match lit with
        | q :: body when int_of_n q = 34 ->
          let fuel = nat_of_int (Stdlib.List.length body + 1) in
          if lossy then (match Ref.str_body_lossy fuel body with Some ((d, _), _) -> Some (Ref.utf8_lossy d) | None -> None)
          else (match Ref.str_body false fuel body with
              | Some ((_, _), rest) ->
                let consumed = take (Stdlib.List.length lit - Stdlib.List.length rest) lit in
                if Ref.utf8_valid consumed then Some consumed else None
              | None -> None)
        | _ -> None in
      (match mode with
       | "strict" -> (match Ref.decode_literal false lit with Some (d, _) -> "ok:" ^ hex_of_bytes d | None -> "err")
       | "lossy" -> (match first_literal true with Some d -> "ok:" ^ hex_of_bytes d | None -> "err")
       | "lossywhole" -> (match Ref.decode_literal true lit with Some (d, _) -> "ok:" ^ hex_of_bytes d | None -> "err")
       | "lazyprefix" ->
         (match first_literal false with
          | None -> "err"
          | Some l1 -> (match Ref.decode_literal false l1 with Some (d, _) -> "ok:" ^ hex_of_bytes d | None -> "ok:" ^ notstr))
       | "lazy" ->
         if not (Ref.skip_literal lit) then "err"
         else (match Ref.decode_literal false lit with Some (d, _) -> "ok:" ^ hex_of_bytes d | None -> "ok:" ^ notstr)
       | "borrowonly" -> (match Ref.decode_literal false lit with Some (d, false) -> "ok:" ^ hex_of_bytes d ^ ":borrowed" | _ -> "err")
       | "strictflag" -> (match Ref.decode_literal false lit with
           | Some (d, esc) -> "ok:" ^ hex_of_bytes d ^ (if esc then ":copied" else ":borrowed") | None -> "err")
       | _ -> raise (Bad_op "strdec mode")) | _ -> raise (Bad_op "strdec"));
  reg "strskip" (function h :: _ -> let rec trim = function c :: r when Ref.is_ws c -> trim r | l -> l in sb (Ref.skip_literal (Stdlib.List.rev (trim (Stdlib.List.rev (trim (bytes_of_hex h)))))) | _ -> raise (Bad_op "strskip"));
  reg "hex4" (function h :: _ ->
      (match bytes_of_hex h with
       | [a; b; c; d] -> (match Ref.hex4 a b c d with Some v -> hex_of_n v | None -> "invalid")
       | _ -> raise (Bad_op "hex4")) | _ -> raise (Bad_op "hex4"));
  reg "utf8enc" (function c :: _ -> hex_of_bytes (Ref.utf8_encode (n_of_hex c)) | _ -> raise (Bad_op "utf8enc"))
