(* T2 tie: the Gallina translation of the source functions (coq/Gen/Funcs.v, extracted) on the arguments
   the implementation ran on; None (a panic of the checked build) prints as "panic" *)
open Driver
let z = z_of_hex
let pz = hex_of_z
let opt f = function None -> "panic" | Some v -> "ok:" ^ f v
let pair (a, b) = pz a ^ "," ^ pz b
let ( >>= ) o f = match o with None -> None | Some v -> f v
let () =
  reg "t2" (function
    | "compute_float_f64" :: q :: w :: _ -> opt pair (Funcs.compute_float_f64 (z q) (z w))
    | "parse_floating_normal_fast" :: e :: m :: _ ->
      opt (function None -> "none" | Some r -> pz r) (Funcs.parse_floating_normal_fast (z e) (z m))
    | "biased_fp_to_bits_f64" :: f :: e :: _ -> opt pz (Funcs.biased_fp_to_bits_f64 (z f, z e))
    | "is_8digits" :: v :: _ -> opt sb (Funcs.is_8digits (z v))
    | "is_whitespace" :: c :: _ -> opt sb (Funcs.is_whitespace (z c))
    | "escaped64" :: p :: b :: _ -> opt pair (Funcs.get_escaped_branchless_u64 (z p) (z b))
    | "escaped32" :: p :: b :: _ -> opt pair (Funcs.get_escaped_branchless_u32 (z p) (z b))
    | "prefix_xor_fallback" :: x :: _ -> opt pz (Funcs.prefix_xor_fallback (z x))
    | "bitmask" :: w :: a :: b :: _ ->
      let a = z a and b = z b in
      let r = (match w with
          | "64" -> Funcs.bitmask_u64_first_offset a >>= fun f -> Funcs.bitmask_u64_before a b >>= fun bf ->
            Funcs.bitmask_u64_all_zero a >>= fun zz -> Funcs.bitmask_u64_as_little_endian a >>= fun le -> Some (f, bf, zz, le)
          | "32" -> Funcs.bitmask_u32_first_offset a >>= fun f -> Funcs.bitmask_u32_before a b >>= fun bf ->
            Funcs.bitmask_u32_all_zero a >>= fun zz -> Funcs.bitmask_u32_as_little_endian a >>= fun le -> Some (f, bf, zz, le)
          | _ -> Funcs.bitmask_u16_first_offset a >>= fun f -> Funcs.bitmask_u16_before a b >>= fun bf ->
            Funcs.bitmask_u16_all_zero a >>= fun zz -> Funcs.bitmask_u16_as_little_endian a >>= fun le -> Some (f, bf, zz, le)) in
      opt (fun (f, bf, zz, le) -> Printf.sprintf "%s,%s,%s,%s" (pz f) (sb bf) (sb zz) (pz le)) r
    | "clear_high_bits" :: w :: a :: k :: _ ->
      let a = z a and k = z k in
      opt pz (match w with "64" -> Funcs.bitmask_u64_clear_high_bits a k | "32" -> Funcs.bitmask_u32_clear_high_bits a k
                         | _ -> Funcs.bitmask_u16_clear_high_bits a k)
    | "meta" :: kind :: idx :: len :: _ ->
      opt (fun (w, (i, l)) -> Printf.sprintf "%s,%s,%s" (pz w) (pz i) (pz l))
        (Funcs.meta_pack_dom_node (z kind) (z idx) (z len) >>= fun w -> Funcs.meta_unpack_dom_node w >>= fun il -> Some (w, il))
    | "hex4" :: a :: b :: c :: d :: _ -> opt pz (Funcs.hex_to_u32_nocheck [z a; z b; z c; z d])
    | "utf8" :: cp :: _ ->
      opt (fun (n, buf) -> Printf.sprintf "%s,%s" (pz n) (String.concat "" (Stdlib.List.map (fun b -> let s = pz b in if String.length s = 1 then "0" ^ s else s) buf)))
        (Funcs.codepoint_to_utf8 (z cp) [BinNums.Z0; BinNums.Z0; BinNums.Z0; BinNums.Z0])
    | "from_index" :: i :: h :: _ ->
      opt pair (Funcs.position_from_index (z i) (Stdlib.List.map (fun b -> z_of_int (int_of_n b)) (bytes_of_hex h)))
    | "nonspace_fallback" :: h :: _ ->
      opt pz (Funcs.get_nonspace_bits_fallback (Stdlib.List.map (fun b -> z_of_int (int_of_n b)) (bytes_of_hex h)))
    | f :: _ -> raise (Bad_op ("t2 " ^ f))
    | [] -> raise (Bad_op "t2"))
