(* C07 / C08: number literals *)
open Driver
open BinNums

let z_to_string_hex = hex_of_z
let class_string (lit : coq_N list) : string =
  match Num.classify lit with
  | Num.CU64 v -> "u" ^ hex_of_z v
  | Num.CI64 v -> "i" ^ hex_of_z v
  | Num.CF64 b -> let h = hex_of_z b in "f" ^ String.make (16 - String.length h) '0' ^ h
  | Num.CInf -> "inf"

let is_number (lit : coq_N list) : bool = match Ref.num_rest lit with Some [] -> true | _ -> false

(* one-slot cache: the same literal is evaluated for many targets in a row *)
type info = { lit : coq_N list; isnum : bool; dec : Num.decimal Lazy.t; rnd : Num.f64res Lazy.t }
let last : (string * info) option ref = ref None
let info_of (h : string) : info =
  match !last with
  | Some (k, i) when k = h -> i
  | _ ->
    let lit = bytes_of_hex h in
    let dec = lazy (Num.parse_lit lit) in
    let i = { lit; isnum = is_number lit; dec; rnd = lazy (Num.round_f64 (Lazy.force dec)) } in
    last := Some (h, i); i
let class_of_info (i : info) : string =
  let d = Lazy.force i.dec in
  let v = d.Num.mant in
  if d.Num.plain_int && not d.Num.neg && BinInt.Z.ltb v (BinInt.Z.pow (z_of_int 2) (z_of_int 64)) then "u" ^ hex_of_z v
  else if d.Num.plain_int && d.Num.neg && BinInt.Z.ltb Z0 v && BinInt.Z.leb v (BinInt.Z.pow (z_of_int 2) (z_of_int 63)) then "i" ^ hex_of_z (BinInt.Z.opp v)
  else match Lazy.force i.rnd with
    | Num.Bits b -> let h = hex_of_z b in "f" ^ String.make (16 - String.length h) '0' ^ h
    | Num.Infinite -> "inf"

(* the lemma-family model of the integer path (Model/Number.v: wrapping accumulation, 19/20-digit
   cut-over) is run on every plain integer literal and must agree with the specification's class *)
let class_checked (i : info) : string =
  let s = class_of_info i in
  let d = Lazy.force i.dec in
  if d.Num.plain_int && d.Num.mant <> Z0 then begin
    let digits = Stdlib.List.filter_map (fun c -> let v = int_of_n c in if v >= 48 && v <= 57 then Some (z_of_int (v - 48)) else None) i.lit in
    let m = Number.parse_int d.Num.neg digits in
    let ok = match m with
      | Number.Unsigned v -> s = "u" ^ hex_of_z v
      | Number.Signed v -> s = "i" ^ hex_of_z v
      | Number.FloatOfInt _ | Number.FloatPath _ -> String.length s > 0 && (s.[0] = 'f' || s = "inf") in
    if ok then s else "!modelmismatch(Number.parse_int vs Spec.Num.classify): " ^ s
  end else s

let zpow2 k = BinInt.Z.pow (z_of_int 2) (z_of_int k)
let zlt a b = BinInt.Z.ltb a b
let zle a b = BinInt.Z.leb a b
let zneg a = BinInt.Z.opp a

(* integer target of width w (signed or not): exactly the plain integer literals in range *)
let int_target signed bits (i : info) : string =
  if not i.isnum then "err" else
  let d = Lazy.force i.dec in
  (* "-0" is read as the float -0.0, which no integer target accepts (as serde_json) *)
  (* the 128-bit scanners read the digits directly and take "-0" as 0 (signed only), again as serde_json *)
  if not d.Num.plain_int || (d.Num.neg && d.Num.mant = Z0 && not (signed && bits = 128)) then "err" else
  let v = if d.Num.neg then zneg d.Num.mant else d.Num.mant in
  let lo = if signed then zneg (zpow2 (bits - 1)) else Z0 in
  let hi = if signed then BinInt.Z.sub (zpow2 (bits - 1)) (z_of_int 1) else BinInt.Z.sub (zpow2 bits) (z_of_int 1) in
  if zle lo v && zle v hi then "ok:" ^ hex_of_z v else "err"

let pad n h = String.make (max 0 (n - String.length h)) '0' ^ h

let () =
  reg "numclass" (function h :: _ ->
      let i = info_of h in
      if i.isnum then class_checked i else "invalid" | _ -> raise (Bad_op "numclass"));
  reg "numstd" (function h :: _ ->
      let i = info_of h in
      (match Lazy.force i.rnd with Num.Bits b -> pad 16 (hex_of_z b) | Num.Infinite -> "inf") | _ -> raise (Bad_op "numstd"));
  reg "numtyped" (function ty :: h :: _ ->
      let lit = info_of h in
      (match ty with
       | "f64" ->
         if not lit.isnum then "err" else
         (match Lazy.force lit.rnd with Num.Bits b -> "ok:" ^ pad 16 (hex_of_z b) | Num.Infinite -> "err")
       | "f32" ->
         if not lit.isnum then "err" else
         (match Lazy.force lit.rnd with
          | Num.Bits b -> (match Num.narrow_f32 b with Some x -> "ok:" ^ pad 8 (hex_of_z x) | None -> "err")
          | Num.Infinite -> "err")
       | "u8" -> int_target false 8 lit | "i8" -> int_target true 8 lit
       | "u16" -> int_target false 16 lit | "i16" -> int_target true 16 lit
       | "u32" -> int_target false 32 lit | "i32" -> int_target true 32 lit
       | "u64" -> int_target false 64 lit | "i64" -> int_target true 64 lit
       | "u128" -> int_target false 128 lit | "i128" -> int_target true 128 lit
       | _ -> raise (Bad_op "numtyped type")) | _ -> raise (Bad_op "numtyped"));
  (* C08: the printed text of x must be an RFC number denoting exactly x in its type *)
  reg "numprint" (function ty :: x :: th :: _ ->
      let text = bytes_of_hex th in
      if not (is_number text) then "printed text is not a JSON number" else
      (match ty with
       | "f64" ->
         (match Num.round_f64 (Num.parse_lit text) with
          | Num.Bits b -> if pad 16 (hex_of_z b) = x then "ok" else "text denotes " ^ hex_of_z b
          | Num.Infinite -> "text denotes infinity")
       | "f32" ->
         (match Num.round_f64 (Num.parse_lit text) with
          | Num.Bits b -> (match Num.narrow_f32 b with Some y when pad 8 (hex_of_z y) = x -> "ok" | _ -> "text denotes another f32")
          | Num.Infinite -> "text denotes infinity")
       | _ ->
         let d = Num.parse_lit text in
         let v = if d.Num.neg then zneg d.Num.mant else d.Num.mant in
         if d.Num.plain_int && hex_of_z v = x then "ok" else "text denotes " ^ hex_of_z v) | _ -> raise (Bad_op "numprint"));
  (* raw numbers: valid literal kept verbatim, serialized verbatim, accessors = parsing the literal *)
  reg "rawnum" (function h :: which :: _ ->
      (* a bare literal may be surrounded by JSON whitespace; inside quotes nothing is skipped *)
      let rec trim = function c :: r when Ref.is_ws c -> trim r | l -> l in
      let lit0 = bytes_of_hex h in
      let lit = if which = "bare" then Stdlib.List.rev (trim (Stdlib.List.rev (trim lit0))) else lit0 in
      let h' = hex_of_bytes lit in
      let i = info_of h' in
      if not i.isnum then "err"
      else
        let d = Lazy.force i.dec in
        (* accessors in the order as_u64, as_i64, as_f64; "-0" is the integer 0 for as_i64 *)
        let acc = if d.Num.plain_int && d.Num.neg && d.Num.mant = Z0 then "i-0" else
            let c = class_of_info i in if String.length c > 1 && c.[0] = 'i' then "i" ^ String.sub c 1 (String.length c - 1) else c in
        Printf.sprintf "ok:%s:%s:%s" h' h' acc | _ -> raise (Bad_op "rawnum"));
  (* simd_str2int: up to [need] leading digits of the 16 bytes: (value, count) *)
  reg "str2int" (function h :: need :: _ ->
      let bytes = Stdlib.List.map int_of_n (bytes_of_hex h) in
      let need = ios need in
      let rec go acc n = function
        | c :: r when n < need && c >= 48 && c <= 57 -> go (acc * 10 + (c - 48)) (n + 1) r
        | _ -> (acc, n) in
      let (v, n) = go 0 0 bytes in
      Printf.sprintf "%d,%d" v n | _ -> raise (Bad_op "str2int"))
