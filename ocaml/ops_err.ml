(* C20 / C01: positions and the snippet arithmetic of Error::syntax *)
open Driver
let () =
  reg "pos" (function [i; h] ->
      let (l, c) = Err.from_index (nat_of_int (ios i)) (bytes_of_hex h) in
      Printf.sprintf "%d,%d" (int_of_nat l) (int_of_nat c) | _ -> raise (Bad_op "pos"));
  reg "posspec" (function [i; h] ->
      let (l, c) = Err.pos_of (bytes_of_hex h) (nat_of_int (ios i)) in
      Printf.sprintf "%d,%d" (int_of_nat l) (int_of_nat c) | _ -> raise (Bad_op "posspec"));
  reg "synb" (function [i; h] ->
      (match Err.syntax_bounds (bytes_of_hex h) (nat_of_int (ios i)) with
       | Err.Ok (((s, e), l), r) -> Printf.sprintf "%d,%d,%d,%d" (int_of_nat s) (int_of_nat e) (int_of_nat l) (int_of_nat r)
       | Err.Crash -> "crash") | _ -> raise (Bad_op "synb"));
  reg "perridx" (function [a; b; len] ->
      let cap x = if String.length x > 12 then max_int / 4 else ios x in
      (* usize::MAX is passed as "max": the model takes nat, use len+reader+1 which is above every bound involved *)
      let b' = cap b and len' = cap len in
      let a' = if a = "max" then b' + len' + 1 else cap a in
      string_of_int (int_of_nat (Err.parser_error_index (nat_of_int a') (nat_of_int b') (nat_of_int len')))
    | _ -> raise (Bad_op "perridx"));
  reg "synlr" (function [i; h] ->
      (match Err.syntax_bounds (bytes_of_hex h) (nat_of_int (ios i)) with
       | Err.Ok (((_, _), l), r) -> Printf.sprintf "%d,%d" (int_of_nat l) (int_of_nat r)
       | Err.Crash -> "crash") | _ -> raise (Bad_op "synlr"));
  reg "latchok" (function t :: _ ->
      let l = Stdlib.List.init (String.length t) (fun i -> match t.[i] with 'o' -> Latch.POk | 'e' -> Latch.PErr | _ -> Latch.PNone) in
      if Latch.latched l then "ok" else "notlatched" | _ -> raise (Bad_op "latchok"))
