(* C03 / C06 / C13: DOM dumps, serialization checks, lazy accessors *)
open Driver
open Ops_spec

let type_of = function
  | Ref.JNull -> "null" | Ref.JBool _ -> "bool" | Ref.JNum _ -> "number" | Ref.JStr _ -> "string"
  | Ref.JArr _ -> "array" | Ref.JObj _ -> "object"

let accessors (v : Ref.jv) : string =
  let b = match v with Ref.JBool x -> string_of_bool x | _ -> "-" in
  let num = match v with Ref.JNum lit -> dump_num lit | _ -> "-" in
  let str = match v with Ref.JStr (d, _) -> hex_of_bytes d | _ -> "-" in
  let raw = match v with Ref.JNum lit -> hex_of_bytes lit | _ -> "-" in
  let f p = if p then "1" else "0" in
  let is = f (v = Ref.JNull) ^ f (match v with Ref.JBool _ -> true | _ -> false) ^ f (match v with Ref.JNum _ -> true | _ -> false)
           ^ f (match v with Ref.JStr _ -> true | _ -> false) ^ f (match v with Ref.JArr _ -> true | _ -> false) ^ f (match v with Ref.JObj _ -> true | _ -> false) in
  Printf.sprintf "type=%s;bool=%s;num=%s;str=%s;raw=%s;is=%s" (type_of v) b num str raw is

let parse_strict h = match Ref.ref_text true (bytes_of_hex h) with Some ((v, _), _) -> Some v | None -> None

(* the reference tree as the value type of Model/Visitor.v (scalars and member names rendered as in the dumps) and its
   event list, computed by the extracted Visitor.events: the premise of the visitor theorem *)
let rec to_vjv (v : Ref.jv) : (string, string) Visitor.jv =
  match v with
  | Ref.JNull -> Visitor.JS "n" | Ref.JBool true -> Visitor.JS "t" | Ref.JBool false -> Visitor.JS "f"
  | Ref.JNum lit -> Visitor.JS (dump_num lit)
  | Ref.JStr (d, _) -> Visitor.JS ("s" ^ hex_of_bytes d)
  | Ref.JArr xs -> Visitor.JArr (Stdlib.List.map (fun ((_, _), x) -> to_vjv x) xs)
  | Ref.JObj ms -> Visitor.JObj (Stdlib.List.map (fun (((k, _), _), x) -> ("s" ^ hex_of_bytes k, to_vjv x)) ms)
let show_ev = function
  | Visitor.EScalar s -> s | Visitor.EKey k -> k
  | Visitor.EStart false -> "[" | Visitor.EStart true -> "{"
  | Visitor.EEnd (false, n) -> "]" ^ string_of_int (int_of_nat n) | Visitor.EEnd (true, n) -> "}" ^ string_of_int (int_of_nat n)

let () =
  reg_memo 1 "domevents" (function h :: _ ->
      (match parse_strict h with
       | Some v -> String.concat " " ("<" :: Stdlib.List.map show_ev (Visitor.events (to_vjv v)) @ [">"])
       | None -> "reject") | _ -> raise (Bad_op "domevents"));
  reg "expect" (function _ -> "true");
  reg "echo" (function h :: _ -> h | _ -> raise (Bad_op "echo"));
  reg "metapack" (function [k; i; l] ->
      let w = Meta.pack (n_of_int (ios k)) (n_of_int (ios i)) (n_of_int (ios l)) in
      Printf.sprintf "%s,%d,%d" (hex_of_n w) (int_of_n (Meta.unpack_idx w)) (int_of_n (Meta.unpack_len w)) | _ -> raise (Bad_op "metapack"));
  reg_memo 1 "lazyacc" (function h :: _ -> (match parse_strict h with Some v -> accessors v | None -> "reject") | _ -> raise (Bad_op "lazyacc"));
  (* the serialized text s of document d: same tree, and exactly the canonical form *)
  reg "sercheck" (function dh :: sh :: mode :: _ ->
      (match parse_strict dh, parse_strict sh with
       | Some d, Some s ->
         let raw = (mode = "compactraw" || mode = "prettyraw") in
         let sorted = (mode = "compact-sorted" || mode = "pretty-sorted") in
         let pretty = (mode = "pretty" || mode = "prettyraw" || mode = "pretty-sorted") in
         (* with key sorting the text must denote the source tree with the members of every object in
            ascending key order (stable), nothing else changed *)
         let d' = if sorted then SortKeys.sort_tree (nat_of_int 1000) d else d in
         if dump_string ~raw d' <> dump_string ~raw s then "bad:the serialized text denotes another tree"
         else
           let canon = if pretty then SerAll.ser_pretty s else SerAll.ser_compact s in
           if hex_of_bytes canon <> sh then "bad:not the canonical " ^ mode ^ " form: " ^ hex_of_bytes canon
           else if raw && hex_of_bytes (if pretty then SerAll.ser_pretty d' else SerAll.ser_compact d') <> sh then "bad:number literals not reproduced verbatim"
           else "ok"
       | None, _ -> "bad:source does not parse"
       | _, None -> "bad:serialized text does not parse") | _ -> raise (Bad_op "sercheck"));
  (* an owned-lazy array after one mutation: push / replace<i> / take<i> *)
  reg "lazymut" (function h :: opname :: th :: _ ->
      (match parse_strict h, parse_strict th with
       | Some (Ref.JArr xs), Some got ->
         let newv = match parse_strict (hex_of_bytes (Stdlib.List.map (fun c -> n_of_int (Char.code c)) (Stdlib.List.init 17 (String.get "{\"new\":[1,\"x\"]}  ")))) with Some v -> v | None -> Ref.JNull in
         let z = nat_of_int 0 in
         let el v = ((z, z), v) in
         let n = Stdlib.List.length xs in
         let expected =
           if opname = "push" then xs @ [el newv]
           else if String.length opname > 7 && String.sub opname 0 7 = "replace" then
             let i = ios (String.sub opname 7 (String.length opname - 7)) in
             Stdlib.List.mapi (fun j x -> if j = i then el newv else x) xs
           else if String.length opname > 4 && String.sub opname 0 4 = "take" then
             let i = ios (String.sub opname 4 (String.length opname - 4)) in
             Stdlib.List.mapi (fun j x -> if j = i then el Ref.JNull else x) xs
           else xs in
         ignore n;
         if dump_string (Ref.JArr expected) = dump_string got then "ok"
         else "bad:expected " ^ dump_string (Ref.JArr expected) ^ " got " ^ dump_string got
       | _ -> "bad:parse") | _ -> raise (Bad_op "lazymut"));
  (* an owned-lazy object after *get_mut(key) = new: the first member named key is replaced *)
  reg "lazymutobj" (function h :: kh :: th :: _ ->
      let key = bytes_of_hex kh in
      (match parse_strict h with
       | Some (Ref.JObj ms) ->
         let present = Stdlib.List.exists (fun (((k, _), _), _) -> k = key) ms in
         if not present then (if th = hex_of_bytes (Stdlib.List.map (fun c -> n_of_int (Char.code c)) (Stdlib.List.init 6 (String.get "absent"))) then "ok" else "bad:key is absent but a slot was returned")
         else
           (match parse_strict th with
            | Some got ->
              let newv = match parse_strict (hex_of_bytes (Stdlib.List.map (fun c -> n_of_int (Char.code c)) (Stdlib.List.init 15 (String.get "{\"new\":[1,\"x\"]}")))) with Some v -> v | None -> Ref.JNull in
              let replaced = ref false in
              let expected = Stdlib.List.map (fun ((((k, a), b), v) as m) -> if k = key && not !replaced then (replaced := true; (((k, a), b), newv)) else m) ms in
              if dump_string (Ref.JObj expected) = dump_string got then "ok" else "bad:expected " ^ dump_string (Ref.JObj expected) ^ " got " ^ dump_string got
            | None -> "bad:result does not parse")
       | _ -> "bad:not an object") | _ -> raise (Bad_op "lazymutobj"))
