let () =
  let split s = String.split_on_char '\t' s in
  (try
    while true do
      let line = input_line stdin in
      match split line with
      | id :: op :: args ->
        let r =
          match Hashtbl.find_opt Driver.ops op with
          | None -> "!noop:" ^ op
          | Some f -> (try f args with
                       | Driver.Bad_op s -> "!badargs:" ^ s
                       | Stack_overflow -> "!stackoverflow"
                       | Failure s -> "!failure:" ^ s
                       | Not_found -> "!notfound"
                       | Invalid_argument s -> "!invalid:" ^ s) in
        print_string id; print_char '\t'; print_string r; print_char '\n'
      | _ -> ()
    done
  with End_of_file -> ());
  flush stdout
