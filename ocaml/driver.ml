(* Line-oriented driver for the OCaml code extracted from the Coq development.
   stdin : id \t op \t arg ...      stdout : id \t result
   Glue only: conversions between OCaml ints/strings and the Coq datatypes, dispatch, printing. *)
open BinNums
open Datatypes

let rec pos_of_int n = if n = 1 then Coq_xH else if n land 1 = 0 then Coq_xO (pos_of_int (n lsr 1)) else Coq_xI (pos_of_int (n lsr 1))
let n_of_int n = if n = 0 then N0 else Npos (pos_of_int n)
let rec int_of_pos = function Coq_xH -> 1 | Coq_xO p -> 2 * int_of_pos p | Coq_xI p -> 2 * int_of_pos p + 1
let int_of_n = function N0 -> 0 | Npos p -> int_of_pos p
let rec nat_of_int n = let rec go acc k = if k = 0 then acc else go (S acc) (k - 1) in go O n
let int_of_nat n = let rec go acc = function O -> acc | S k -> go (acc + 1) k in go 0 n
let z_of_int n = if n = 0 then Z0 else if n > 0 then Zpos (pos_of_int n) else Zneg (pos_of_int (- n))
(* Z <-> decimal / hex strings without overflow: via lists of bits *)
let rec bits_of_pos = function Coq_xH -> [true] | Coq_xO p -> false :: bits_of_pos p | Coq_xI p -> true :: bits_of_pos p
let hex_of_pos p =
  let bits = Array.of_list (bits_of_pos p) in
  let n = Array.length bits in
  let nd = (n + 3) / 4 in
  let b = Bytes.make nd '0' in
  for d = 0 to nd - 1 do
    let v = ref 0 in
    for k = 0 to 3 do let i = d * 4 + k in if i < n && bits.(i) then v := !v lor (1 lsl k) done;
    Bytes.set b (nd - 1 - d) "0123456789abcdef".[!v]
  done; Bytes.to_string b
let hex_of_z = function Z0 -> "0" | Zpos p -> hex_of_pos p | Zneg p -> "-" ^ hex_of_pos p
let hex_of_n = function N0 -> "0" | Npos p -> hex_of_pos p
let pos_of_hex s =  (* s nonzero hex *)
  let bits = ref [] in
  String.iter (fun c ->
    let v = if c >= '0' && c <= '9' then Char.code c - 48 else if c >= 'a' && c <= 'f' then Char.code c - 87 else Char.code c - 55 in
    bits := ((v land 1) = 1) :: ((v land 2) = 2) :: ((v land 4) = 4) :: ((v land 8) = 8) :: !bits) s;
  (* !bits is LSB first of the whole number *)
  let rec strip = function [] -> [] | l -> l in
  let l = strip !bits in
  (* build positive from LSB-first list, dropping high zeros *)
  let arr = Array.of_list l in
  let hi = ref (Array.length arr - 1) in
  while !hi >= 0 && not arr.(!hi) do decr hi done;
  if !hi < 0 then None else begin
    let p = ref Coq_xH in
    for i = !hi - 1 downto 0 do p := if arr.(i) then Coq_xI !p else Coq_xO !p done;
    Some !p end
let z_of_hex s =
  let neg = String.length s > 0 && s.[0] = '-' in
  let body = if neg then String.sub s 1 (String.length s - 1) else s in
  match pos_of_hex body with None -> Z0 | Some p -> if neg then Zneg p else Zpos p
let n_of_hex s = match pos_of_hex s with None -> N0 | Some p -> Npos p

let byte_tab = Array.init 256 n_of_int
let hexv c = if c >= '0' && c <= '9' then Char.code c - 48 else if c >= 'a' && c <= 'f' then Char.code c - 87 else Char.code c - 55
let bytes_of_hex (s : string) : coq_N list =
  let n = String.length s / 2 in
  let rec go i acc = if i < 0 then acc else go (i - 1) (byte_tab.(hexv s.[2 * i] * 16 + hexv s.[2 * i + 1]) :: acc) in
  go (n - 1) []
let hex_of_bytes (l : coq_N list) : string =
  let b = Buffer.create 64 in
  Stdlib.List.iter (fun c -> Buffer.add_string b (Printf.sprintf "%02x" (int_of_n c))) l; Buffer.contents b
(* 64-bit words as bit lists, LSB first *)
let bits_of_hexword ?(width = 64) (s : string) : bool list =
  let v = Int64.of_string ("0x" ^ s) in
  Stdlib.List.init width (fun i -> Int64.logand (Int64.shift_right_logical v i) 1L = 1L)
let hexword_of_bits (l : bool list) : string =
  let v = ref 0L in
  Stdlib.List.iteri (fun i b -> if b then v := Int64.logor !v (Int64.shift_left 1L i)) l;
  Printf.sprintf "%Lx" !v
let sb = function true -> "1" | false -> "0"
let ios = int_of_string

exception Bad_op of string
let ops : (string, string list -> string) Hashtbl.t = Hashtbl.create 64
let reg name f = Hashtbl.replace ops name f
(* the same input is usually evaluated for several entry points in a row: remember the answers of
   an op keyed by its first [n] arguments (the remaining arguments are labels) *)
let reg_memo n name f =
  let cache : (string, string) Hashtbl.t = Hashtbl.create 64 in
  let rec firstn k l = if k = 0 then [] else match l with [] -> [] | x :: r -> x :: firstn (k - 1) r in
  Hashtbl.replace ops name (fun args ->
      let key = String.concat "\t" (firstn n args) in
      match Hashtbl.find_opt cache key with
      | Some r -> r
      | None ->
        let r = f args in
        if Hashtbl.length cache > 256 then Hashtbl.reset cache;
        Hashtbl.replace cache key r; r)
