(* C15: operation histories on the reference model of the mutable DOM *)
open Driver
open Datatypes

exception Hist_error of string

(* trees travel in the canonical dump format: leaves are tokens, [a,b], {hexkey:v,...} *)
let parse_tree (s : string) (pos : int ref) : DomOps.tree =
  let n = String.length s in
  let rec value () : DomOps.tree =
    if !pos >= n then raise (Hist_error "eof in tree");
    match s.[!pos] with
    | '[' ->
      incr pos;
      let items = ref [] in
      if s.[!pos] = ']' then incr pos else begin
        items := [value ()];
        while s.[!pos] = ',' do incr pos; items := value () :: !items done;
        if s.[!pos] <> ']' then raise (Hist_error "expected ]"); incr pos end;
      DomOps.Arr (Stdlib.List.rev !items)
    | '{' ->
      incr pos;
      let items = ref [] in
      let entry () =
        let st = !pos in
        while s.[!pos] <> ':' do incr pos done;
        let k = bytes_of_hex (String.sub s st (!pos - st)) in
        incr pos; let v = value () in (k, v) in
      if s.[!pos] = '}' then incr pos else begin
        items := [entry ()];
        while s.[!pos] = ',' do incr pos; items := entry () :: !items done;
        if s.[!pos] <> '}' then raise (Hist_error "expected }"); incr pos end;
      DomOps.Obj (Stdlib.List.rev !items)
    | _ ->
      let st = !pos in
      while !pos < n && not (Stdlib.List.mem s.[!pos] [','; ']'; '}'; '='; ' ']) do incr pos done;
      DomOps.Leaf (Stdlib.List.map (fun c -> n_of_int (Char.code c)) (Stdlib.List.init (!pos - st) (fun i -> s.[st + i]))) in
  value ()

let tree_of_string s = let pos = ref 0 in let t = parse_tree s pos in t

let rec dump_tree (t : DomOps.tree) : string =
  match t with
  | DomOps.Leaf d -> String.concat "" (Stdlib.List.map (fun c -> String.make 1 (Char.chr (int_of_n c))) d)
  | DomOps.Arr l -> "[" ^ String.concat "," (Stdlib.List.map dump_tree l) ^ "]"
  | DomOps.Obj l ->
    let ms = Stdlib.List.sort compare (Stdlib.List.map (fun (k, v) -> (hex_of_bytes k, dump_tree v)) l) in
    "{" ^ String.concat "," (Stdlib.List.map (fun (k, v) -> k ^ ":" ^ v) ms) ^ "}"

let path_of (s : string) : DomOps.pe list =
  if s = "-" then [] else
  Stdlib.List.map (fun e ->
      if e.[0] = 'k' then DomOps.Key (bytes_of_hex (String.sub e 1 (String.length e - 1)))
      else DomOps.Idx (nat_of_int (ios (String.sub e 1 (String.length e - 1)))))
    (String.split_on_char '/' s)

let split1 c s = match String.index_opt s c with Some i -> (String.sub s 0 i, String.sub s (i + 1) (String.length s - i - 1)) | None -> (s, "")

let cop_of (s : string) : DomOps.cop =
  let (name, rest) = split1 '=' s in
  match name with
  | "push" -> DomOps.CPush (tree_of_string rest)
  | "pop" -> DomOps.CPop
  | "ins" -> let (i, t) = split1 '=' rest in DomOps.CInsertAt (nat_of_int (ios i), tree_of_string t)
  | "rem" -> DomOps.CRemoveAt (nat_of_int (ios rest))
  | "swaprem" -> DomOps.CSwapRemove (nat_of_int (ios rest))
  | "trunc" -> DomOps.CTruncate (nat_of_int (ios rest))
  | "clear" -> DomOps.CClear
  | "len" -> DomOps.CLen
  | "oins" -> let (k, t) = split1 '=' rest in DomOps.CObjInsert (bytes_of_hex k, tree_of_string t)
  | "orem" -> DomOps.CObjRemove (bytes_of_hex rest)
  | "oget" -> DomOps.CObjGet (bytes_of_hex rest)
  | "ohas" -> DomOps.CContains (bytes_of_hex rest)
  | "entry" -> let (k, t) = split1 '=' rest in DomOps.CEntryOrInsert (bytes_of_hex k, tree_of_string t)
  | "idx" -> let (k, t) = split1 '=' rest in DomOps.CIndexOrInsert (bytes_of_hex k, tree_of_string t)
  | "set" -> DomOps.CSet (tree_of_string rest)
  | "take" -> DomOps.CTake
  | "aappend" -> (match tree_of_string rest with DomOps.Arr xs -> DomOps.CArrAppend xs | _ -> raise (Hist_error "aappend"))
  | "oappend" -> (match tree_of_string rest with DomOps.Obj ms -> DomOps.CObjAppend ms | _ -> raise (Hist_error "oappend"))
  | "retain" -> DomOps.CRetainNonNull
  | "splitoff" -> DomOps.CSplitOff (nat_of_int (ios rest))
  | "resize" -> let (n, t) = split1 '=' rest in DomOps.CResize (nat_of_int (ios n), tree_of_string t)
  | "extwithin" -> let (a, b) = split1 '=' rest in DomOps.CExtendWithin (nat_of_int (ios a), nat_of_int (ios b))
  | "drain" -> let (a, b) = split1 '=' rest in DomOps.CDrain (nat_of_int (ios a), nat_of_int (ios b))
  | "swap" -> let (a, b) = split1 '=' rest in DomOps.CSwap (nat_of_int (ios a), nat_of_int (ios b))
  | "rementry" -> DomOps.CRemoveEntry (bytes_of_hex rest)
  | "emod" -> let (k, r2) = split1 '=' rest in
              let pos = ref 0 in let x = parse_tree r2 pos in
              if !pos >= String.length r2 || r2.[!pos] <> '=' then raise (Hist_error "emod");
              let y = tree_of_string (String.sub r2 (!pos + 1) (String.length r2 - !pos - 1)) in
              DomOps.CEntryAndModify (bytes_of_hex k, x, y)
  | "edef" -> DomOps.CEntryOrDefault (bytes_of_hex rest)
  | "erem" -> DomOps.CEntryRemove (bytes_of_hex rest)
  | "eins" -> let (k, t) = split1 '=' rest in DomOps.CEntryInsert (bytes_of_hex k, tree_of_string t)
  | "fillnulls" -> DomOps.CFillNulls (tree_of_string rest)
  | _ -> raise (Hist_error ("cop " ^ name))

let op_of (s : string) : DomOps.op =
  let body = String.sub s 1 (String.length s - 1) in
  match s.[0] with
  | 'N' -> DomOps.ONew (tree_of_string body)
  | 'D' -> DomOps.ODrop (nat_of_int (ios body))
  | 'C' -> let (h, p) = split1 ':' body in DomOps.OClone (nat_of_int (ios h), path_of p)
  | 'G' -> let (h, p) = split1 ':' body in DomOps.OGet (nat_of_int (ios h), path_of p)
  | 'O' -> let (h, r) = split1 ':' body in let (p, c) = split1 ':' r in DomOps.OOn (nat_of_int (ios h), path_of p, cop_of c)
  | _ -> raise (Hist_error "op")

let res_string = function
  | DomOps.RUnit -> "u" | DomOps.RNone -> "none" | DomOps.RTree t -> dump_tree t
  | DomOps.RNat n -> "#" ^ string_of_int (int_of_nat n) | DomOps.RBool b -> if b then "b1" else "b0"
  | DomOps.RReject -> "reject"

let () =
  reg "domhist" (function ops :: _ ->
      let ops = Stdlib.List.map op_of (String.split_on_char ' ' ops) in
      let state = ref [] in
      let outs = Stdlib.List.map (fun o ->
          let (s', r) = DomOps.step !state o in
          state := s';
          let dumps = String.concat ";" (Stdlib.List.map (function Some t -> dump_tree t | None -> "-") s') in
          res_string r ^ "@" ^ dumps) ops in
      String.concat "|" outs | _ -> raise (Bad_op "domhist"));
  (* C16: the invariant is evaluated by the harness on the real counters; the expected verdict is "ok" *)
  reg "arcinv" (function _ -> "ok")

(* C18: a schedule of the publish-once cache replayed in the model (Model/Cas.v, strong CAS) *)
let () =
  reg "cassched" (function n :: sched :: _ ->
      let n = ios n in
      let grants = Stdlib.List.map (fun g ->
          let spur = String.length g > 0 && g.[String.length g - 1] = '!' in
          let t = ios (if spur then String.sub g 0 (String.length g - 1) else g) in
          (nat_of_int t, spur)) (if sched = "" then [] else String.split_on_char ',' sched) in
      (* per-thread outcome while replaying: what each step of the model does *)
      let st = ref (Cas.init (nat_of_int n)) in
      let outs = Array.make n "" in
      let add i s = outs.(i) <- (if outs.(i) = "" then s else outs.(i) ^ "+" ^ s) in
      Stdlib.List.iter (fun (tid, spur) ->
          let i = int_of_nat tid in
          let before = Stdlib.List.nth (!st).Cas.thr i in
          let cell_before = (!st).Cas.cell in
          st := Cas.step Cas.Strong !st tid spur;
          let after = Stdlib.List.nth (!st).Cas.thr i in
          (match before, after with
           | Cas.TStart, Cas.TDone _ -> add i "hit"
           | Cas.TStart, Cas.TAlloc _ -> add i "miss"
           | Cas.TAlloc own, Cas.TDone r -> if cell_before = None && r = own then add i "win" else add i "lose"
           | Cas.TDone _, Cas.TDone _ -> add i "hit"      (* a later load of a finished reader sees the published value *)
           | _, Cas.TCrash -> add i "CRASH"
           | _, _ -> add i "?")) grants;
      let crash = Stdlib.List.exists (fun t -> t = Cas.TCrash) (!st).Cas.thr in
      let all_done = Stdlib.List.for_all (function Cas.TDone _ -> true | _ -> false) (!st).Cas.thr in
      String.concat "," (Array.to_list outs) ^ ";vals=" ^ (if crash || not all_done then "WRONG" else "ok") ^ ";leak=0;cas=strong"
    | _ -> raise (Bad_op "cassched"))
