(* C05 / C19: values of the serde data model *)
open Driver
open Ops_spec

exception Parse_error of string
let parse_sval (s : string) : SerVal.sval =
  let n = String.length s in
  let pos = ref 0 in
  let peek () = if !pos < n then s.[!pos] else '\000' in
  let ishex c = (c >= '0' && c <= '9') || (c >= 'a' && c <= 'f') in
  let hexrun () = let st = !pos in while !pos < n && ishex s.[!pos] do incr pos done; String.sub s st (!pos - st) in
  let expect c = if peek () = c then incr pos else raise (Parse_error (Printf.sprintf "expected %c at %d" c !pos)) in
  let rec value () : SerVal.sval =
    let c = peek () in
    incr pos;
    match c with
    | 'b' -> let d = peek () in incr pos; SerVal.VBool (d = '1')
    | 'i' -> let neg = (peek () = '-') in if neg then incr pos; let h = hexrun () in SerVal.VInt (z_of_hex ((if neg then "-" else "") ^ h))
    | 'g' -> SerVal.VF32 (z_of_hex (hexrun ()))
    | 'f' -> SerVal.VF64 (z_of_hex (hexrun ()))
    | 's' -> SerVal.VStr (bytes_of_hex (hexrun ()))
    | 'n' -> SerVal.VNull
    | '[' ->
      let items = ref [] in
      if peek () = ']' then incr pos else begin
        items := [value ()];
        while peek () = ',' do incr pos; items := value () :: !items done;
        expect ']' end;
      SerVal.VSeq (Stdlib.List.rev !items)
    | '<' ->
      let items = ref [] in
      let entry () = let k = value () in expect '='; let v = value () in (k, v) in
      if peek () = '>' then incr pos else begin
        items := [entry ()];
        while peek () = ',' do incr pos; items := entry () :: !items done;
        expect '>' end;
      SerVal.VMap (Stdlib.List.rev !items)
    | '{' ->
      let items = ref [] in
      let entry () = let k = bytes_of_hex (hexrun ()) in expect '='; let v = value () in (k, v) in
      if peek () = '}' then incr pos else begin
        items := [entry ()];
        while peek () = ',' do incr pos; items := entry () :: !items done;
        expect '}' end;
      SerVal.VStruct (Stdlib.List.rev !items)
    | 'V' -> let name = bytes_of_hex (hexrun ()) in expect ';'; SerVal.VVariant (name, None)
    | 'W' -> let name = bytes_of_hex (hexrun ()) in expect '('; let v = value () in expect ')'; SerVal.VVariant (name, Some v)
    | c -> raise (Parse_error (Printf.sprintf "unexpected %c at %d" c (!pos - 1))) in
  let v = value () in
  if !pos <> n then raise (Parse_error "trailing input");
  v

let big = nat_of_int 200

let () =
  reg "fmtstr" (function h :: _ -> hex_of_bytes (SerAll.quote_string (bytes_of_hex h)) | _ -> raise (Bad_op "fmtstr"));
  (* pretty output = the prescribed layout of the compact output's tree *)
  reg "prettyof" (function ch :: ph :: _ ->
      (match Ref.ref_text true (bytes_of_hex ch) with
       | Some ((t, _), _) -> if hex_of_bytes (SerAll.ser_pretty t) = ph then "ok" else "bad:pretty output is not the re-indented compact output"
       | None -> "bad:compact output does not parse") | _ -> raise (Bad_op "prettyof"));
  reg "sercheck2" (function enc :: oh :: mode :: _ ->
      let v = try parse_sval enc with Parse_error m -> raise (Failure ("sval encoding: " ^ m)) in
      (match SerVal.expect big v with
       | None -> "error"      (* a key that is not a scalar: the serializer must refuse *)
       | Some e ->
         if oh = "" then "bad:serializer failed on a serializable value" else
         let bytes = bytes_of_hex oh in
         if not (Ref.utf8_valid bytes) then "bad:output is not valid UTF-8" else
         (match Ref.ref_text true bytes with
          | None -> "bad:output is not well-formed JSON"
          | Some ((t, _), _) ->
            if not (SerVal.matches big e t) then "bad:output denotes another value: " ^ dump_string t
            else
              let canon = if mode = "pretty" then SerAll.ser_pretty t else SerAll.ser_compact t in
              if hex_of_bytes canon <> oh then "bad:not the canonical " ^ mode ^ " form (escaping / separators / layout)"
              else "ok")) | _ -> raise (Bad_op "sercheck2"))

(* ---------- C19: to_value ---------- *)
let two k = BinInt.Z.pow (z_of_int 2) (z_of_int k)
let rec etree_dump (e : SerVal.etree) : string option =
  match e with
  | SerVal.ENull -> Some "n"
  | SerVal.EBool true -> Some "t" | SerVal.EBool false -> Some "f"
  | SerVal.EInt z ->
    if BinInt.Z.leb BinNums.Z0 z && BinInt.Z.ltb z (two 64) then Some ("u" ^ hex_of_z z)
    else if BinInt.Z.ltb z BinNums.Z0 && BinInt.Z.leb (BinInt.Z.opp (two 63)) z then Some ("i" ^ hex_of_z z)
    else None                                 (* not representable in the DOM *)
  | SerVal.EF64 b -> let h = hex_of_z b in Some ("f" ^ String.make (16 - String.length h) '0' ^ h)
  | SerVal.EF32 b -> let h = hex_of_z (Num.widen_f32 b) in Some ("f" ^ String.make (16 - String.length h) '0' ^ h)
  | SerVal.EStr s -> Some ("s" ^ hex_of_bytes s)
  | SerVal.EArr l ->
    let parts = Stdlib.List.map etree_dump l in
    if Stdlib.List.exists (fun x -> x = None) parts then None
    else Some ("[" ^ String.concat "," (Stdlib.List.map (function Some x -> x | None -> "") parts) ^ "]")
  | SerVal.EObj l ->
    let parts = Stdlib.List.map (fun (k, v) -> (hex_of_bytes k, etree_dump v)) l in
    if Stdlib.List.exists (fun (_, x) -> x = None) parts then None
    else
      (* later duplicates of a key replace earlier ones in a map; members compared sorted *)
      let tbl = Hashtbl.create 8 in
      Stdlib.List.iter (fun (k, v) -> Hashtbl.replace tbl k (match v with Some x -> x | None -> "")) parts;
      let ms = Stdlib.List.sort compare (Hashtbl.fold (fun k v acc -> (k, v) :: acc) tbl []) in
      Some ("{" ^ String.concat "," (Stdlib.List.map (fun (k, v) -> k ^ ":" ^ v) ms) ^ "}")

(* re-sort a dump produced in iteration order *)
let () =
  reg "same" (function _ :: _ :: r :: _ -> r | _ -> raise (Bad_op "same"));
  reg "tovalue" (function enc :: d :: _ ->
      let v = parse_sval enc in
      (match SerVal.expect big v with
       | None -> "bad:the value is not serializable but to_value succeeded"
       | Some e ->
         (match etree_dump e with
          | None -> "bad:the value holds a 128-bit integer beyond 64 bits but to_value succeeded"
          | Some want ->
            let got = Ops_hist.dump_tree (Ops_hist.tree_of_string d) in
            if got = want then "ok" else "bad:to_value built " ^ got ^ " expected " ^ want)) | _ -> raise (Bad_op "tovalue"));
  reg "tovalue_text" (function _ -> "same");
  (* the documented counterparts: to_value refuses exactly when the value holds an integer beyond 64 bits
     or a non-finite float (the text route prints digits / null) *)
  reg "tovalue_fail" (function enc :: _ ->
      let v = parse_sval enc in
      let rec bad (v : SerVal.sval) = match v with
        | SerVal.VInt z -> not (BinInt.Z.leb (BinInt.Z.opp (two 63)) z && BinInt.Z.ltb z (two 64))
        | SerVal.VF64 b -> not (SerVal.f64_finite b)
        | SerVal.VF32 b -> not (SerVal.f32_finite b)
        | SerVal.VSeq l -> Stdlib.List.exists bad l
        | SerVal.VMap l -> Stdlib.List.exists (fun (k, x) -> bad k || bad x) l
        | SerVal.VStruct l -> Stdlib.List.exists (fun (_, x) -> bad x) l
        | SerVal.VVariant (_, Some p) -> bad p
        | _ -> false in
      if bad v then "dom-rejects" else "dom-accepts" | _ -> raise (Bad_op "tovalue_fail"))
