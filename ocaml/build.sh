#!/bin/sh
# build the model runner from the extracted code: ocaml/gen/*.ml (written by coqc Extract.v) + driver
set -e
cd "$(dirname "$0")"
mkdir -p _build
cp gen/*.ml gen/*.mli driver.ml ops_*.ml main.ml _build/
cd _build
ORDER=$(ocamlfind ocamldep -sort $(ls *.mli *.ml | grep -v '^main.ml$'))
ocamlfind ocamlopt -O2 -w -a -package str -linkpkg $ORDER main.ml -o ../vmodel 2>/dev/null || \
ocamlfind ocamlopt -w -a -package str -linkpkg $ORDER main.ml -o ../vmodel
