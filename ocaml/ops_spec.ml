(* Spec-level oracles: acceptance (C02), reference get (C10/C14), tree dumps (C03) *)
open Driver
open Datatypes

let rec all_finite (v : Ref.jv) : bool =
  match v with
  | Ref.JNum lit -> Num.finite_lit lit
  | Ref.JArr xs -> Stdlib.List.for_all (fun ((_, _), x) -> all_finite x) xs
  | Ref.JObj ms -> Stdlib.List.for_all (fun (((_, _), _), x) -> all_finite x) ms
  | _ -> true

let path_of_arg (s : string) : Ref.pelem list =
  if s = "-" then [] else
  Stdlib.List.map (fun e ->
      if e.[0] = 'k' then Ref.PKey (bytes_of_hex (String.sub e 1 (String.length e - 1)))
      else Ref.PIdx (nat_of_int (ios (String.sub e 1 (String.length e - 1)))))
    (String.split_on_char '/' s)

let skip_verdict limit bytes =
  let a = SkipAll.skip_text bytes in
  let b = Ref.rfc_text bytes in
  if a <> b then "!specmismatch(skip_text vs rfc_text)" else
  if not (a && Ref.utf8_valid bytes) then "0" else
  match Ref.ref_text false bytes with
  | Some ((v, _), _) -> if int_of_nat (Ref.depth v) > limit then "0" else "1"
  | None -> "!impossible"

let full_verdict limit bytes =
  if not (Ref.utf8_valid bytes) then "0" else
  match Ref.ref_text true bytes with
  | None -> "0"
  | Some ((v, _), _) -> if all_finite v && int_of_nat (Ref.depth v) <= limit then "1" else "0"

let rec take n l = if n = 0 then [] else match l with [] -> [] | x :: r -> x :: take (n - 1) r
(* the first value of the input: only the consumed prefix has to be valid UTF-8 *)
let first_verdict strict limit bytes =
  match Ref.ref_first strict bytes with
  | None -> "0"
  | Some ((v, _), b) ->
    if Ref.utf8_valid (take (int_of_nat b) bytes) && (not strict || all_finite v) && int_of_nat (Ref.depth v) <= limit then "1" else "0"

let () =
  reg "skipfirst" (function limit :: h :: _ -> first_verdict false (ios limit) (bytes_of_hex h) | _ -> raise (Bad_op "skipfirst"));
  reg "fullfirst" (function limit :: h :: _ -> first_verdict true (ios limit) (bytes_of_hex h) | _ -> raise (Bad_op "fullfirst"));
  reg "skipacc" (function limit :: h :: _ -> skip_verdict (ios limit) (bytes_of_hex h) | _ -> raise (Bad_op "skipacc"));
  reg "fullacc" (function limit :: h :: _ -> full_verdict (ios limit) (bytes_of_hex h) | _ -> raise (Bad_op "fullacc"));
  reg "utf8" (function [h] -> sb (Ref.utf8_valid (bytes_of_hex h)) | _ -> raise (Bad_op "utf8"));
  (* reference get on arbitrary bytes: "a,b" span or "none" *)
  reg "refget" (function [p; h] ->
      (match Ref.ref_get (bytes_of_hex h) (path_of_arg p) with
       | Some (a, b) -> Printf.sprintf "%d,%d" (int_of_nat a) (int_of_nat b)
       | None -> "none") | _ -> raise (Bad_op "refget"))
