(* Spec-level oracles: acceptance (C02), reference get (C10/C14), tree dumps (C03) *)
open Driver
open Datatypes

let rec all_finite (v : Ref.jv) : bool =
  match v with
  | Ref.JNum lit -> Num.finite_lit lit
  | Ref.JArr xs -> Stdlib.List.for_all (fun ((_, _), x) -> all_finite x) xs
  | Ref.JObj ms -> Stdlib.List.for_all (fun (((_, _), _), x) -> all_finite x) ms
  | _ -> true

let path_of_arg (s : string) : Ref.pelem list =
  if s = "-" then [] else
  Stdlib.List.map (fun e ->
      if e.[0] = 'k' then Ref.PKey (bytes_of_hex (String.sub e 1 (String.length e - 1)))
      else Ref.PIdx (nat_of_int (ios (String.sub e 1 (String.length e - 1)))))
    (String.split_on_char '/' s)

let skip_verdict limit bytes =
  let a = SkipAll.skip_text bytes in
  let b = Ref.rfc_text bytes in
  if a <> b then "!specmismatch(skip_text vs rfc_text)" else
  if not (a && Ref.utf8_valid bytes) then "0" else
  match Ref.ref_text false bytes with
  | Some ((v, _), _) -> if int_of_nat (Ref.depth v) > limit then "0" else "1"
  | None -> "!impossible"

let full_verdict limit bytes =
  if not (Ref.utf8_valid bytes) then "0" else
  match Ref.ref_text true bytes with
  | None -> "0"
  | Some ((v, _), _) -> if all_finite v && int_of_nat (Ref.depth v) <= limit then "1" else "0"

let rec take n l = if n = 0 then [] else match l with [] -> [] | x :: r -> x :: take (n - 1) r
(* the first value of the input: only the consumed prefix has to be valid UTF-8 *)
(* "0" directly followed by a digit at the start: the scanners disagree on whether this is the value 0
   followed by garbage or a malformed token; for first-value entry points both answers are accepted *)
let leading_zero_digit bytes =
  let l = Ref.ws bytes in
  let l = match l with c :: r when int_of_n c = 45 -> r | _ -> l in
  match l with c :: d :: _ when int_of_n c = 48 && Ref.digit d -> true | _ -> false

let first_verdict strict limit bytes =
  match Ref.ref_first strict bytes with
  | None -> if leading_zero_digit bytes then "0||1" else "0"
  | Some ((v, _), b) ->
    if Ref.utf8_valid (take (int_of_nat b) bytes) && (not strict || all_finite v) && int_of_nat (Ref.depth v) <= limit then "1" else "0"

let () =
  reg_memo 2 "skipfirst" (function limit :: h :: _ -> first_verdict false (ios limit) (bytes_of_hex h) | _ -> raise (Bad_op "skipfirst"));
  reg_memo 2 "fullfirst" (function limit :: h :: _ -> first_verdict true (ios limit) (bytes_of_hex h) | _ -> raise (Bad_op "fullfirst"));
  reg_memo 2 "skipacc" (function limit :: h :: _ -> skip_verdict (ios limit) (bytes_of_hex h) | _ -> raise (Bad_op "skipacc"));
  reg_memo 2 "fullacc" (function limit :: h :: _ -> full_verdict (ios limit) (bytes_of_hex h) | _ -> raise (Bad_op "fullacc"));
  reg "utf8" (function [h] -> sb (Ref.utf8_valid (bytes_of_hex h)) | _ -> raise (Bad_op "utf8"));
  (* reference get on arbitrary bytes: "a,b" span or "none" *)
  (* C14 is the soundness direction: a returned span must be the reference one and its prefix valid
     UTF-8; the implementation may reject more (e.g. it looks one byte past a number): "x||none" *)
  reg_memo 2 "refget" (function p :: h :: _ ->
      let bytes = bytes_of_hex h in
      (match Ref.ref_get bytes (path_of_arg p) with
       | Some (a, b) when Ref.utf8_valid (take (int_of_nat b) bytes) -> Printf.sprintf "%d,%d||none" (int_of_nat a) (int_of_nat b)
       | _ -> "none") | _ -> raise (Bad_op "refget"))

(* ---------- canonical dump of a reference tree (same format as harness/src/dump.rs) ---------- *)
let dump_num (lit : BinNums.coq_N list) : string =
  match Num.classify lit with
  | Num.CU64 v -> "u" ^ hex_of_z v
  | Num.CI64 v -> "i" ^ hex_of_z v
  | Num.CF64 b -> let h = hex_of_z b in "f" ^ String.make (16 - String.length h) '0' ^ h
  | Num.CInf -> "inf"

let rec dump_jv ?(raw = false) (b : Buffer.t) (v : Ref.jv) : unit =
  match v with
  | Ref.JNull -> Buffer.add_char b 'n'
  | Ref.JBool true -> Buffer.add_char b 't'
  | Ref.JBool false -> Buffer.add_char b 'f'
  | Ref.JNum lit -> if raw then (Buffer.add_char b 'r'; Buffer.add_string b (hex_of_bytes lit)) else Buffer.add_string b (dump_num lit)
  | Ref.JStr (d, _) -> Buffer.add_char b 's'; Buffer.add_string b (hex_of_bytes d)
  | Ref.JArr xs ->
    Buffer.add_char b '[';
    Stdlib.List.iteri (fun i ((_, _), x) -> if i > 0 then Buffer.add_char b ','; dump_jv ~raw b x) xs;
    Buffer.add_char b ']'
  | Ref.JObj ms ->
    Buffer.add_char b '{';
    Stdlib.List.iteri (fun i (((k, _), _), x) -> if i > 0 then Buffer.add_char b ','; Buffer.add_string b (hex_of_bytes k); Buffer.add_char b ':'; dump_jv ~raw b x) ms;
    Buffer.add_char b '}'
let dump_string ?(raw = false) v = let b = Buffer.create 256 in dump_jv ~raw b v; Buffer.contents b

let rec drop n l = if n = 0 then l else match l with [] -> [] | _ :: r -> drop (n - 1) r
let sub_bytes l a b = take (b - a) (drop a l)

(* lookup on a well-formed text *)
let lookup_text bytes path =
  match Ref.ref_text false bytes with
  | None -> None
  | Some ((v, a), b) -> Some (Ref.lookup v a b path)

let () =
  reg_memo 1 "dump" (function h :: _ ->
      let b = bytes_of_hex h in
      (match (if Ref.utf8_valid b then Ref.ref_text true b else None) with Some ((v, _), _) when all_finite v -> dump_string v | _ -> "reject") | _ -> raise (Bad_op "dump"));
  reg_memo 1 "dumpraw" (function h :: _ ->
      let b = bytes_of_hex h in
      (match (if Ref.utf8_valid b then Ref.ref_text true b else None) with Some ((v, _), _) -> dump_string ~raw:true v | _ -> "reject") | _ -> raise (Bad_op "dumpraw"));
  (* get on a well-formed text: ok:a,b | notfound | type | malformed *)
  reg_memo 2 "get" (function p :: h :: _ ->
      (match lookup_text (bytes_of_hex h) (path_of_arg p) with
       | None -> "malformed"
       | Some (Ref.Found (a, b, _)) -> Printf.sprintf "ok:%d,%d" (int_of_nat a) (int_of_nat b)
       | Some Ref.Missing -> "err" | Some Ref.WrongKind -> "err") | _ -> raise (Bad_op "get"));
  reg_memo 2 "getdump" (function p :: h :: _ ->
      (match lookup_text (bytes_of_hex h) (path_of_arg p) with
       | None -> "malformed"
       | Some (Ref.Found (_, _, v)) -> "ok:" ^ dump_string v
       | Some _ -> "none") | _ -> raise (Bad_op "getdump"));
  reg_memo 2 "gettext" (function p :: h :: _ ->
      let bytes = bytes_of_hex h in
      (match lookup_text bytes (path_of_arg p) with
       | None -> "malformed"
       | Some (Ref.Found (a, b, _)) -> "ok:" ^ hex_of_bytes (sub_bytes bytes (int_of_nat a) (int_of_nat b))
       | Some _ -> "none") | _ -> raise (Bad_op "gettext"));
  reg_memo 2 "refgettext" (function p :: h :: _ ->
      let bytes = bytes_of_hex h in
      (match Ref.ref_get bytes (path_of_arg p) with
       | Some (a, b) when Ref.utf8_valid (take (int_of_nat b) bytes) -> "ok:" ^ hex_of_bytes (sub_bytes bytes (int_of_nat a) (int_of_nat b)) ^ "||none"
       | _ -> "none") | _ -> raise (Bad_op "refgettext"));
  reg "hasdup" (function h :: _ ->
      (match Ref.ref_text false (bytes_of_hex h) with Some ((v, _), _) -> sb (Ref.has_dup_keys (nat_of_int 1000) v) | None -> "malformed") | _ -> raise (Bad_op "hasdup"))

(* ---------- C12: iterator transcripts ---------- *)
let items_string ?(text = None) ~with_key (items : Ref.item list) : string =
  let sp a b = match text with
    | None -> Printf.sprintf "%d,%d" (int_of_nat a) (int_of_nat b)
    | Some bytes -> "=" ^ hex_of_bytes (sub_bytes bytes (int_of_nat a) (int_of_nat b)) in
  let parts = Stdlib.List.map (function
      | Ref.IOk (k, a, b) -> if with_key then Printf.sprintf "%s:%s" (hex_of_bytes k) (sp a b) else sp a b
      | Ref.IErr -> "err" | Ref.IEnd -> "end") items in
  String.concat ";" (parts @ ["end"; "end"; "end"])

(* ---------- C11: get_many verdicts ---------- *)
let split_on c s = if s = "" then [] else String.split_on_char c s

(* impl result: "err" | "ok:slot;slot;..." with slot = "a,b" | "none" *)
let many_verdict ~wellformed paths_arg h impl =
  let bytes = bytes_of_hex h in
  let paths = Stdlib.List.map path_of_arg (split_on ';' paths_arg) in
  let expect p =
    if wellformed then
      (match lookup_text bytes p with
       | Some (Ref.Found (a, b, _)) -> `Span (int_of_nat a, int_of_nat b)
       | Some Ref.Missing -> `Missing | Some Ref.WrongKind -> `Wrong | None -> `Wrong)
    else
      (match Ref.ref_get bytes p with Some (a, b) -> `Span (int_of_nat a, int_of_nat b) | None -> `Wrong) in
  let exps = Stdlib.List.map expect paths in
  let all_found = Stdlib.List.for_all (function `Span _ -> true | _ -> false) exps in
  if String.length impl >= 5 && String.sub impl 0 5 = "panic" then "panic"
  else if impl = "err" then (if wellformed && all_found then "bad:error although every path resolves" else "ok")
  else if String.length impl >= 3 && String.sub impl 0 3 = "ok:" then begin
    let slots = split_on ';' (String.sub impl 3 (String.length impl - 3)) in
    if Stdlib.List.length slots <> Stdlib.List.length paths then "bad:slot count"
    else begin
      let bad = ref "" in
      Stdlib.List.iteri (fun i slot ->
          let e = Stdlib.List.nth exps i in
          match slot, e with
          | "none", `Span _ -> if wellformed then bad := Printf.sprintf "bad:slot %d empty although the path resolves" i
          | "none", _ -> ()
          | s, `Span (a, b) -> if s <> Printf.sprintf "%d,%d" a b then bad := Printf.sprintf "bad:slot %d holds %s, get finds %d,%d" i s a b
          | s, _ -> bad := Printf.sprintf "bad:slot %d filled (%s) although the path does not resolve" i s) slots;
      if !bad = "" then "ok" else !bad
    end end
  else "bad:unparsable result"

(* ---------- C14 / C01 on documents that repeat member names: every filled slot of get_many is the span of exactly one
   well-formed value inside the input (which occurrence of a repeated name is chosen is not prescribed for get_many) ---------- *)
let manyfrag_verdict h impl =
  let bytes = bytes_of_hex h in
  let n = Stdlib.List.length bytes in
  if String.length impl >= 5 && String.sub impl 0 5 = "panic" then "panic"
  else if impl = "err" then "ok"
  else if String.length impl >= 3 && String.sub impl 0 3 = "ok:" then begin
    let slots = split_on ';' (String.sub impl 3 (String.length impl - 3)) in
    let bad = ref "" in
    Stdlib.List.iteri (fun i slot ->
        if slot <> "none" then
          match String.split_on_char ',' slot with
          | [a; b] ->
            let a = ios a and b = ios b in
            if not (0 <= a && a < b && b <= n) then bad := Printf.sprintf "bad:slot %d span %s outside the input" i slot
            else begin
              let sub = sub_bytes bytes a b in
              match (if Ref.utf8_valid sub then Ref.ref_text false sub else None) with
              | Some ((_, a'), b') when int_of_nat a' = 0 && int_of_nat b' = b - a -> ()
              | _ -> bad := Printf.sprintf "bad:slot %d (%s) is not exactly one well-formed value" i slot
            end
          | _ -> bad := Printf.sprintf "bad:slot %d unparsable (%s)" i slot) slots;
    if !bad = "" then "ok" else !bad end
  else "bad:unparsable result"

(* ---------- C11: the search model itself (Model/ManySeen.rec2 over the tree ManyBuild.build makes of the paths), run
   on the reference parse of the document and compared slot by slot with what get_many returned. Paths of member
   names only (the model has objects; everything else is a leaf). ---------- *)
let manyrec_verdict paths_arg h impl =
  let bytes = bytes_of_hex h in
  let paths = Stdlib.List.map path_of_arg (split_on ';' paths_arg) in
  let keys_only = Stdlib.List.for_all (Stdlib.List.for_all (function Ref.PKey _ -> true | _ -> false)) paths in
  if not keys_only then "same" else
  match Ref.ref_text false bytes with
  | None -> "same"
  | Some ((v, a), b) ->
    let spans : (Obj.t * (int * int)) list ref = ref [] in
    let next = ref 0 in
    let rec conv (v : Ref.jv) (a : int) (b : int) : BinNums.coq_N list Many.jv =
      let node = match v with
        | Ref.JObj ms -> Many.JObj (Stdlib.List.map (fun (((k, a'), b'), x) -> (k, conv x (int_of_nat a') (int_of_nat b'))) ms)
        | _ -> incr next; Many.JS (nat_of_int !next) in
      spans := (Obj.repr node, (a, b)) :: !spans; node in
    let doc = conv v (int_of_nat a) (int_of_nat b) in
    let keq (x : BinNums.coq_N list) (y : BinNums.coq_N list) = (x = y) in
    let kpaths = Stdlib.List.map (Stdlib.List.map (function Ref.PKey k -> k | _ -> [])) paths in
    let tree = ManyBuild.build keq kpaths in
    let n = Stdlib.List.length paths in
    let fuel = nat_of_int (Stdlib.List.length bytes + 8) in
    let model =
      match ManySeen.rec2 keq fuel tree doc (fun _ -> None) (nat_of_int n) with
      | None -> "err"
      | Some (out, _) ->
        "ok:" ^ String.concat ";" (Stdlib.List.init n (fun i ->
            match out (nat_of_int i) with
            | None -> "none"
            | Some x -> (match Stdlib.List.find_opt (fun (o, _) -> o == Obj.repr x) !spans with
                | Some (_, (a, b)) -> Printf.sprintf "%d,%d" a b
                | None -> "unknown-node"))) in
    if model = impl then "same" else "model:" ^ model

(* ---------- C19: Value == Value as the code computes it (value/partial_eq.rs hands objects and arrays to the
   container comparison with the operands exchanged; value/object.rs compares by `get`), with Model/ObjEq.obj_eq at
   every object: the model of the symmetry theorem and of its refutation with repeated names, run against `==` ---------- *)
let rec value_eq (x : Ref.jv) (y : Ref.jv) : bool =
  match x, y with
  | Ref.JNull, Ref.JNull -> true
  | Ref.JBool a, Ref.JBool b -> a = b
  | Ref.JStr (a, _), Ref.JStr (b, _) -> a = b
  | Ref.JNum a, Ref.JNum b ->
    (match Num.classify a, Num.classify b with
     | Num.CU64 u, Num.CU64 v -> u = v
     | Num.CI64 u, Num.CI64 v -> u = v
     | Num.CF64 u, Num.CF64 v -> u = v || (let z w = (hex_of_z w = "0" || hex_of_z w = "8000000000000000") in z u && z v)
     | _ -> false)
  | Ref.JArr xs, Ref.JArr ys ->
    (* other.as_value_slice() == self.as_value_slice(): the elements meet with the operands exchanged *)
    Stdlib.List.length xs = Stdlib.List.length ys && Stdlib.List.for_all2 (fun (_, xi) (_, yi) -> value_eq yi xi) xs ys
  | Ref.JObj xs, Ref.JObj ys ->
    (* other.as_object() == self.as_object(): Object::eq(self = y, other = x) *)
    let strip ms = Stdlib.List.map (fun (((k, _), _), v) -> (k, v)) ms in
    ObjEq.obj_eq (fun (a : BinNums.coq_N list) b -> a = b) value_eq (strip ys) (strip xs)
  | _ -> false

let valeq_verdict h1 h2 =
  let parse h = match Ref.ref_text false (bytes_of_hex h) with Some ((v, _), _) when all_finite v -> Some v | _ -> None in
  match parse h1, parse h2 with
  | Some x, Some y -> (if value_eq x y then "t" else "f") ^ (if value_eq y x then "t" else "f")
  | _ -> "parse-error"

let sorted_dump_string (v : Ref.jv) : string =
  let rec go v =
    match v with
    | Ref.JArr xs -> "[" ^ String.concat "," (Stdlib.List.map (fun ((_, _), x) -> go x) xs) ^ "]"
    | Ref.JObj ms ->
      let l = Stdlib.List.map (fun (((k, _), _), x) -> (hex_of_bytes k, go x)) ms in
      let l = Stdlib.List.sort compare l in
      "{" ^ String.concat "," (Stdlib.List.map (fun (k, x) -> k ^ ":" ^ x) l) ^ "}"
    | _ -> dump_string v in
  go v

let () =
  reg_memo 1 "iterarr" (function h :: _ -> items_string ~with_key:false (Ref.ref_array_iter (bytes_of_hex h)) | _ -> raise (Bad_op "iterarr"));
  reg_memo 1 "iterobj" (function h :: _ -> items_string ~with_key:true (Ref.ref_object_iter (bytes_of_hex h)) | _ -> raise (Bad_op "iterobj"));
  reg_memo 1 "iterarr_text" (function h :: _ -> let b = bytes_of_hex h in items_string ~text:(Some b) ~with_key:false (Ref.ref_array_iter b) | _ -> raise (Bad_op "iterarr_text"));
  reg_memo 1 "iterobj_text" (function h :: _ -> let b = bytes_of_hex h in items_string ~text:(Some b) ~with_key:true (Ref.ref_object_iter b) | _ -> raise (Bad_op "iterobj_text"));
  reg "valeq" (function h1 :: h2 :: _ -> valeq_verdict h1 h2 | _ -> raise (Bad_op "valeq"));
  reg "manyfrag" (function _ :: h :: impl :: _ -> manyfrag_verdict h impl | _ -> raise (Bad_op "manyfrag"));
  reg "manyrec" (function p :: h :: impl :: _ -> manyrec_verdict p h impl | _ -> raise (Bad_op "manyrec"));
  reg "manyok" (function p :: h :: impl :: _ -> many_verdict ~wellformed:true p h impl | _ -> raise (Bad_op "manyok"));
  reg "manysound" (function p :: h :: impl :: _ -> many_verdict ~wellformed:false p h impl | _ -> raise (Bad_op "manysound"));
  reg "schema" (function sh :: dh :: _ ->
      (match Ref.ref_text true (bytes_of_hex sh), Ref.ref_text true (bytes_of_hex dh) with
       | Some ((s, _), _), Some ((d, _), _) ->
         (match s with Ref.JObj _ -> "ok:" ^ sorted_dump_string (Ref.merge (nat_of_int 1000) s d) | _ -> "err")
       | _ -> "err") | _ -> raise (Bad_op "schema"))
