(* C17 / C10: vector primitives and bitmap scanners against their lane-wise definitions *)
open Driver
let n_of_int64_hex s = n_of_hex s
let bits_of_n width (v : BinNums.coq_N) : bool list =
  let l = (match v with BinNums.N0 -> [] | BinNums.Npos p -> bits_of_pos p) in
  let a = Array.of_list l in
  Stdlib.List.init width (fun i -> i < Array.length a && a.(i))
let n_of_bits (l : bool list) = Simd.bits_to_N l
let () =
  reg "simdcmp" (function kind :: ah :: bh :: _ ->
      let a = bytes_of_hex ah and b = bytes_of_hex bh in
      hex_of_n (match kind with
          | "eq_u" | "eq_i" -> Simd.mask_eq a b
          | "le_u" -> Simd.mask_le_u a b | "gt_u" -> Simd.mask_gt_u a b
          | "le_i" -> Simd.mask_le_i a b | "gt_i" -> Simd.mask_gt_i a b
          | _ -> raise (Bad_op "simdcmp kind")) | _ -> raise (Bad_op "simdcmp"));
  reg "bitmask" (function w :: a :: b :: k :: _ ->
      let len = n_of_int (ios w) in
      let a = n_of_hex a and b = n_of_hex b in
      Printf.sprintf "%d,%s,%s" (int_of_n (Simd.first_offset len a))
        (if (match b with BinNums.N0 -> a <> BinNums.N0 | _ -> Simd.before a b) then "1" else "0")
        (hex_of_n (Simd.clear_high_bits len (n_of_int (ios k)) a)) | _ -> raise (Bad_op "bitmask"));
  reg "prefixxor" (function x :: _ ->
      let bits = bits_of_n 64 (n_of_hex x) in
      hex_of_n (n_of_bits (PrefixXor.prefix_xor_spec false bits)) | _ -> raise (Bad_op "prefixxor"));
  reg "nonspace" (function h :: _ -> hex_of_n (Simd.nonspace_bits (bytes_of_hex h)) | _ -> raise (Bad_op "nonspace"));
  reg "escbits" (function w :: prev :: bs :: _ ->
      let width = ios w in
      let (e, p) = Bitmap.get_escaped (prev = "1") (bits_of_n width (n_of_hex bs)) in
      Printf.sprintf "%s,%s" (hex_of_n (n_of_bits e)) (if p then "1" else "0") | _ -> raise (Bad_op "escbits"));
  (* get_string_bits: escaped bits, unescaped quotes, running parity carried in *)
  reg "strbits" (function h :: pi :: pe :: _ ->
      let bytes = Stdlib.List.map int_of_n (bytes_of_hex h) in
      let bs = Stdlib.List.map (fun c -> c = 92) bytes in
      let (esc, e2) = Bitmap.escaped_spec (pe = "1") bs in
      let quotes = Stdlib.List.map2 (fun c e -> c = 34 && not e) bytes esc in
      let instr = PrefixXor.prefix_xor_spec (pi = "1") quotes in
      let last = Stdlib.List.nth instr 63 in
      Printf.sprintf "%s,%s,%s" (hex_of_n (n_of_bits instr)) (if last then "1" else "0") (if e2 then "1" else "0") | _ -> raise (Bad_op "strbits"))
