open BinNat
open BinNums
open Tables

(** val pack : coq_N -> coq_N -> coq_N -> coq_N **)

let pack kind idx len =
  N.modulo
    (N.add
      (N.add kind
        (N.mul idx (N.pow (Npos (Coq_xO Coq_xH)) coq_META_KIND_BITS)))
      (N.mul len (N.pow (Npos (Coq_xO Coq_xH)) coq_META_LEN_OFFSET)))
    (N.pow (Npos (Coq_xO Coq_xH)) (Npos (Coq_xO (Coq_xO (Coq_xO (Coq_xO
      (Coq_xO (Coq_xO Coq_xH))))))))

(** val unpack_idx : coq_N -> coq_N **)

let unpack_idx w =
  N.div (N.modulo w (N.pow (Npos (Coq_xO Coq_xH)) coq_META_LEN_OFFSET))
    (N.pow (Npos (Coq_xO Coq_xH)) coq_META_KIND_BITS)

(** val unpack_len : coq_N -> coq_N **)

let unpack_len w =
  N.div w (N.pow (Npos (Coq_xO Coq_xH)) coq_META_LEN_OFFSET)
