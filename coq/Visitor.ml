open Datatypes
open List
open PeanoNat

type ('scalar, 'key) jv =
| JS of 'scalar
| JArr of ('scalar, 'key) jv list
| JObj of ('key * ('scalar, 'key) jv) list

type ('scalar, 'key) ev =
| EScalar of 'scalar
| EKey of 'key
| EStart of bool
| EEnd of bool * nat

(** val events : ('a1, 'a2) jv -> ('a1, 'a2) ev list **)

let rec events = function
| JS s -> (EScalar s) :: []
| JArr xs ->
  (EStart
    false) :: (app
                (let rec go = function
                 | [] -> []
                 | x :: r -> app (events x) (go r)
                 in go xs) ((EEnd (false, (length xs))) :: []))
| JObj ms ->
  (EStart
    true) :: (app
               (let rec go = function
                | [] -> []
                | y :: r ->
                  let (k, x) = y in (EKey k) :: (app (events x) (go r))
                in go ms) ((EEnd (true, (length ms))) :: []))

type ('scalar, 'key) node =
| NS of 'scalar
| NK of 'key
| NPending of nat
| NEmpty of bool
| NCont of bool * nat * ('scalar, 'key) node list

type ('scalar, 'key) vis = { stack : ('scalar, 'key) node list; parent : nat }

(** val step : ('a1, 'a2) vis -> ('a1, 'a2) ev -> ('a1, 'a2) vis option **)

let step st = function
| EScalar s ->
  Some { stack = (app st.stack ((NS s) :: [])); parent = st.parent }
| EKey k -> Some { stack = (app st.stack ((NK k) :: [])); parent = st.parent }
| EStart _ ->
  Some { stack = (app st.stack ((NPending st.parent) :: [])); parent =
    (length st.stack) }
| EEnd (o, count) ->
  let p = st.parent in
  (match nth_error st.stack p with
   | Some n ->
     (match n with
      | NPending old ->
        let children = skipn (S p) st.stack in
        let n0 =
          if Nat.eqb count O then NEmpty o else NCont (o, count, children)
        in
        Some { stack = (app (firstn p st.stack) (n0 :: [])); parent = old }
      | _ -> None)
   | None -> None)

(** val run :
    ('a1, 'a2) vis -> ('a1, 'a2) ev list -> ('a1, 'a2) vis option **)

let rec run st = function
| [] -> Some st
| e :: r -> (match step st e with
             | Some st' -> run st' r
             | None -> None)

(** val node_of : ('a1, 'a2) jv -> ('a1, 'a2) node **)

let rec node_of = function
| JS s -> NS s
| JArr xs ->
  (match xs with
   | [] -> NEmpty false
   | _ :: _ -> NCont (false, (length xs), (map node_of xs)))
| JObj ms ->
  (match ms with
   | [] -> NEmpty true
   | _ :: _ ->
     NCont (true, (length ms),
       (flat_map (fun m -> (NK (fst m)) :: ((node_of (snd m)) :: [])) ms)))
