open BinNat
open BinNums
open Datatypes
open PeanoNat

val is_hex : coq_N -> bool

val simple_escape : coq_N -> bool

val skip_str : bool -> nat -> coq_N list -> coq_N list option
