open BinNat
open BinNums
open Datatypes
open List
open Nat

(** val nl : coq_N **)

let nl =
  Npos (Coq_xO (Coq_xI (Coq_xO Coq_xH)))

(** val count_nl : coq_N list -> nat **)

let rec count_nl = function
| [] -> O
| c :: r -> add (if N.eqb c nl then S O else O) (count_nl r)

(** val col_of : coq_N list -> nat -> nat **)

let rec col_of l acc =
  match l with
  | [] -> acc
  | c :: r -> col_of r (if N.eqb c nl then O else S acc)

(** val pos_of : coq_N list -> nat -> nat * nat **)

let pos_of input off =
  let p = firstn off input in ((add (S O) (count_nl p)), (col_of p O))

(** val from_index_loop : coq_N list -> nat -> nat -> nat * nat **)

let rec from_index_loop l line col =
  match l with
  | [] -> (line, col)
  | c :: r ->
    if N.eqb c nl
    then from_index_loop r (S line) O
    else from_index_loop r line (S col)

(** val from_index : nat -> coq_N list -> nat * nat **)

let from_index i data =
  from_index_loop (firstn (PeanoNat.Nat.min i (length data)) data) (S O) O

type 'a res =
| Ok of 'a
| Crash

(** val cont : coq_N -> bool **)

let cont b =
  N.eqb
    (N.coq_land b (Npos (Coq_xO (Coq_xO (Coq_xO (Coq_xO (Coq_xO (Coq_xO
      (Coq_xI Coq_xH))))))))) (Npos (Coq_xO (Coq_xO (Coq_xO (Coq_xO (Coq_xO
    (Coq_xO (Coq_xO Coq_xH))))))))

(** val at_ : coq_N list -> nat -> coq_N res **)

let at_ json i =
  match nth_error json i with
  | Some b -> Ok b
  | None -> Crash

(** val sub : nat -> nat -> nat res **)

let sub a b =
  if PeanoNat.Nat.leb b a then Ok (sub a b) else Crash

(** val back : nat -> coq_N list -> nat -> nat -> nat res **)

let rec back fuel json index start =
  match fuel with
  | O -> Ok start
  | S f ->
    if PeanoNat.Nat.ltb O start
    then (match sub index start with
          | Ok d ->
            if PeanoNat.Nat.leb d (S (S (S (S (S (S (S (S (S (S (S (S (S (S
                 (S (S O))))))))))))))))
            then (match at_ json start with
                  | Ok b ->
                    if cont b
                    then back f json index (Nat.sub start (S O))
                    else Ok start
                  | Crash -> Crash)
            else Ok start
          | Crash -> Crash)
    else Ok start

(** val fwd : nat -> coq_N list -> nat -> nat -> nat res **)

let rec fwd fuel json index e =
  match fuel with
  | O -> Ok e
  | S f ->
    if PeanoNat.Nat.ltb e (length json)
    then (match sub e index with
          | Ok d ->
            if PeanoNat.Nat.leb d (S (S (S (S (S (S (S (S (S (S (S (S (S (S
                 (S (S O))))))))))))))))
            then (match sub e (S O) with
                  | Ok e1 ->
                    (match at_ json e1 with
                     | Ok b -> if cont b then fwd f json index (S e) else Ok e
                     | Crash -> Crash)
                  | Crash -> Crash)
            else Ok e
          | Crash -> Crash)
    else Ok e

(** val syntax_bounds :
    coq_N list -> nat -> (((nat * nat) * nat) * nat) res **)

let syntax_bounds json index =
  let len = length json in
  let start0 = Nat.sub index (S (S (S (S (S (S (S (S O)))))))) in
  let end0 =
    if PeanoNat.Nat.ltb len (add index (S (S (S (S (S (S (S (S O)))))))))
    then len
    else add index (S (S (S (S (S (S (S (S O))))))))
  in
  (match back (S (S (S (S (S (S (S (S (S (S (S (S (S (S (S (S (S (S (S (S (S
           (S (S (S (S (S (S (S (S (S (S (S (S (S (S (S (S (S (S (S
           O)))))))))))))))))))))))))))))))))))))))) json index start0 with
   | Ok start ->
     (match fwd (S (S (S (S (S (S (S (S (S (S (S (S (S (S (S (S (S (S (S (S
              (S (S (S (S (S (S (S (S (S (S (S (S (S (S (S (S (S (S (S (S
              O)))))))))))))))))))))))))))))))))))))))) json index end0 with
      | Ok e ->
        if (&&) (PeanoNat.Nat.leb start e) (PeanoNat.Nat.leb e len)
        then (match sub index start with
              | Ok lft ->
                (match sub e index with
                 | Ok d ->
                   if PeanoNat.Nat.ltb (S O) d
                   then (match sub e (add index (S O)) with
                         | Ok rgt -> Ok (((start, e), lft), rgt)
                         | Crash -> Crash)
                   else Ok (((start, e), lft), O)
                 | Crash -> Crash)
              | Crash -> Crash)
        else Crash
      | Crash -> Crash)
   | Crash -> Crash)

(** val parser_error_index : nat -> nat -> nat -> nat **)

let parser_error_index error_index reader_index len =
  let i = PeanoNat.Nat.min error_index (Nat.sub reader_index (S O)) in
  if PeanoNat.Nat.ltb len i then len else i
