open Datatypes

val pred : nat -> nat

val add : nat -> nat -> nat

val sub : nat -> nat -> nat
