open BinNat
open BinNums
open Datatypes
open List
open PeanoNat

val find_first : (coq_N -> bool) -> coq_N list -> nat option

val find_blocks : (coq_N -> bool) -> nat -> nat -> coq_N list -> nat option

val mask_of : (coq_N -> bool) -> coq_N list -> coq_N

val tz : coq_N -> nat option
