open BinInt
open BinNat
open BinNums
open Blocks
open Datatypes
open List

val bits_to_N : bool list -> coq_N

val map2 : ('a1 -> 'a2 -> 'a3) -> 'a1 list -> 'a2 list -> 'a3 list

val signed : coq_N -> coq_Z

val mask_eq : coq_N list -> coq_N list -> coq_N

val mask_le_u : coq_N list -> coq_N list -> coq_N

val mask_gt_u : coq_N list -> coq_N list -> coq_N

val mask_le_i : coq_N list -> coq_N list -> coq_N

val mask_gt_i : coq_N list -> coq_N list -> coq_N

val first_offset : coq_N -> coq_N -> coq_N

val before : coq_N -> coq_N -> bool

val clear_high_bits : coq_N -> coq_N -> coq_N -> coq_N

val is_space : coq_N -> bool

val nonspace_bits : coq_N list -> coq_N
