open BinInt
open BinNums
open Datatypes
open List

val coq_W : coq_Z

val dvalue : coq_Z list -> coq_Z

type num =
| Unsigned of coq_Z
| Signed of coq_Z
| FloatOfInt of coq_Z
| FloatPath of coq_Z * coq_Z * bool

val wrap_acc : coq_Z list -> coq_Z

val parse_int : bool -> coq_Z list -> num

val spec_int : bool -> coq_Z -> num
