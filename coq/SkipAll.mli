open BinNat
open BinNums
open Datatypes
open Skip
open SkipNum
open SkipStr

val skip_str_c : coq_N list -> coq_N list option

val skip_num_c : coq_N -> coq_N list -> coq_N list option

val skip_value : nat -> coq_N list -> coq_N list option

val skip_text : coq_N list -> bool
