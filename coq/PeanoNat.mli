open Datatypes

module Nat :
 sig
  val add : nat -> nat -> nat

  val eqb : nat -> nat -> bool

  val leb : nat -> nat -> bool

  val ltb : nat -> nat -> bool

  val max : nat -> nat -> nat

  val min : nat -> nat -> nat
 end
