open Datatypes
open List
open Nat

type st = { count : (nat -> nat); freed : (nat -> bool); nxt : nat;
            handles : nat option list }

val upd : (nat -> 'a1) -> nat -> 'a1 -> nat -> 'a1

val set_nth : nat option list -> nat -> nat option -> nat option list

type op =
| Parse
| Clone of nat
| Promote of nat * nat
| Drop of nat

type res =
| Next of st
| UseAfterFree
| DoubleFree

val dec : st -> nat -> nat option list -> res

val step : st -> op -> res

val runh : st -> op list -> res
