open BinInt
open BinNums
open Bool
open Datatypes
open List
open Num
open Ref

type sval =
| VBool of bool
| VInt of coq_Z
| VF64 of coq_Z
| VF32 of coq_Z
| VStr of coq_N list
| VNull
| VSeq of sval list
| VMap of (sval * sval) list
| VStruct of (coq_N list * sval) list
| VVariant of coq_N list * sval option

type etree =
| ENull
| EBool of bool
| EInt of coq_Z
| EF64 of coq_Z
| EF32 of coq_Z
| EStr of coq_N list
| EArr of etree list
| EObj of (coq_N list * etree) list

(** val f64_finite : coq_Z -> bool **)

let f64_finite bits =
  negb
    (Z.eqb
      (Z.modulo
        (Z.div bits
          (Z.pow (Zpos (Coq_xO Coq_xH)) (Zpos (Coq_xO (Coq_xO (Coq_xI (Coq_xO
            (Coq_xI Coq_xH))))))))
        (Z.pow (Zpos (Coq_xO Coq_xH)) (Zpos (Coq_xI (Coq_xI (Coq_xO
          Coq_xH)))))) (Zpos (Coq_xI (Coq_xI (Coq_xI (Coq_xI (Coq_xI (Coq_xI
      (Coq_xI (Coq_xI (Coq_xI (Coq_xI Coq_xH))))))))))))

(** val f32_finite : coq_Z -> bool **)

let f32_finite bits =
  negb
    (Z.eqb
      (Z.modulo
        (Z.div bits
          (Z.pow (Zpos (Coq_xO Coq_xH)) (Zpos (Coq_xI (Coq_xI (Coq_xI (Coq_xO
            Coq_xH)))))))
        (Z.pow (Zpos (Coq_xO Coq_xH)) (Zpos (Coq_xO (Coq_xO (Coq_xO
          Coq_xH)))))) (Zpos (Coq_xI (Coq_xI (Coq_xI (Coq_xI (Coq_xI (Coq_xI
      (Coq_xI Coq_xH)))))))))

(** val dec_digits : nat -> coq_Z -> coq_N list -> coq_N list **)

let rec dec_digits fuel n acc =
  match fuel with
  | O -> acc
  | S f ->
    let acc' =
      (Z.to_N
        (Z.add (Zpos (Coq_xO (Coq_xO (Coq_xO (Coq_xO (Coq_xI Coq_xH))))))
          (Z.modulo n (Zpos (Coq_xO (Coq_xI (Coq_xO Coq_xH))))))) :: acc
    in
    if Z.eqb (Z.div n (Zpos (Coq_xO (Coq_xI (Coq_xO Coq_xH))))) Z0
    then acc'
    else dec_digits f (Z.div n (Zpos (Coq_xO (Coq_xI (Coq_xO Coq_xH))))) acc'

(** val z_to_dec : coq_Z -> coq_N list **)

let z_to_dec z =
  let a = Z.abs z in
  let d = dec_digits (S (Z.to_nat (Z.log2 a))) a [] in
  if Z.ltb z Z0
  then (Npos (Coq_xI (Coq_xO (Coq_xI (Coq_xI (Coq_xO Coq_xH)))))) :: d
  else d

(** val key_of : sval -> coq_N list option **)

let key_of = function
| VBool b ->
  if b
  then Some ((Npos (Coq_xO (Coq_xO (Coq_xI (Coq_xO (Coq_xI (Coq_xI
         Coq_xH))))))) :: ((Npos (Coq_xO (Coq_xI (Coq_xO (Coq_xO (Coq_xI
         (Coq_xI Coq_xH))))))) :: ((Npos (Coq_xI (Coq_xO (Coq_xI (Coq_xO
         (Coq_xI (Coq_xI Coq_xH))))))) :: ((Npos (Coq_xI (Coq_xO (Coq_xI
         (Coq_xO (Coq_xO (Coq_xI Coq_xH))))))) :: []))))
  else Some ((Npos (Coq_xO (Coq_xI (Coq_xI (Coq_xO (Coq_xO (Coq_xI
         Coq_xH))))))) :: ((Npos (Coq_xI (Coq_xO (Coq_xO (Coq_xO (Coq_xO
         (Coq_xI Coq_xH))))))) :: ((Npos (Coq_xO (Coq_xO (Coq_xI (Coq_xI
         (Coq_xO (Coq_xI Coq_xH))))))) :: ((Npos (Coq_xI (Coq_xI (Coq_xO
         (Coq_xO (Coq_xI (Coq_xI Coq_xH))))))) :: ((Npos (Coq_xI (Coq_xO
         (Coq_xI (Coq_xO (Coq_xO (Coq_xI Coq_xH))))))) :: [])))))
| VInt z -> Some (z_to_dec z)
| VStr s -> Some s
| VVariant (name, payload) ->
  (match payload with
   | Some _ -> None
   | None -> Some name)
| _ -> None

(** val opt_all : 'a1 option list -> 'a1 list option **)

let rec opt_all = function
| [] -> Some []
| o :: r ->
  (match o with
   | Some x -> (match opt_all r with
                | Some xs -> Some (x :: xs)
                | None -> None)
   | None -> None)

(** val expect : nat -> sval -> etree option **)

let rec expect fuel v =
  match fuel with
  | O -> None
  | S f ->
    (match v with
     | VBool b -> Some (EBool b)
     | VInt z -> Some (EInt z)
     | VF64 b -> Some (if f64_finite b then EF64 b else ENull)
     | VF32 b -> Some (if f32_finite b then EF32 b else ENull)
     | VStr s -> Some (EStr s)
     | VNull -> Some ENull
     | VSeq l -> option_map (fun x -> EArr x) (opt_all (map (expect f) l))
     | VMap l ->
       option_map (fun x -> EObj x)
         (opt_all
           (map (fun kv ->
             match key_of (fst kv) with
             | Some k ->
               (match expect f (snd kv) with
                | Some t -> Some (k, t)
                | None -> None)
             | None -> None) l))
     | VStruct l ->
       option_map (fun x -> EObj x)
         (opt_all
           (map (fun kv ->
             match expect f (snd kv) with
             | Some t -> Some ((fst kv), t)
             | None -> None) l))
     | VVariant (name, payload) ->
       (match payload with
        | Some p ->
          (match expect f p with
           | Some t -> Some (EObj ((name, t) :: []))
           | None -> None)
        | None -> Some (EStr name)))

(** val matches : nat -> etree -> jv -> bool **)

let rec matches fuel e j =
  match fuel with
  | O -> false
  | S f ->
    (match e with
     | ENull -> (match j with
                 | JNull -> true
                 | _ -> false)
     | EBool b -> (match j with
                   | JBool b' -> eqb b b'
                   | _ -> false)
     | EInt z ->
       (match j with
        | JNum lit ->
          let d = parse_lit lit in
          (&&) d.plain_int (Z.eqb (if d.neg then Z.opp d.mant else d.mant) z)
        | _ -> false)
     | EF64 bits ->
       (match j with
        | JNum lit ->
          (match round_f64 (parse_lit lit) with
           | Bits b -> Z.eqb b bits
           | Infinite -> false)
        | _ -> false)
     | EF32 bits ->
       (match j with
        | JNum lit ->
          (match round_f64 (parse_lit lit) with
           | Bits b ->
             (match narrow_f32 b with
              | Some x -> Z.eqb x bits
              | None -> false)
           | Infinite -> false)
        | _ -> false)
     | EStr s -> (match j with
                  | JStr (d, _) -> bytes_eqb s d
                  | _ -> false)
     | EArr l ->
       (match j with
        | JArr xs ->
          let rec go a b =
            match a with
            | [] -> (match b with
                     | [] -> true
                     | _ :: _ -> false)
            | x :: a' ->
              (match b with
               | [] -> false
               | p :: b' -> let (_, y) = p in (&&) (matches f x y) (go a' b'))
          in go l xs
        | _ -> false)
     | EObj l ->
       (match j with
        | JObj ms ->
          let rec go a b =
            match a with
            | [] -> (match b with
                     | [] -> true
                     | _ :: _ -> false)
            | p :: a' ->
              let (k, x) = p in
              (match b with
               | [] -> false
               | p0 :: b' ->
                 let (p1, y) = p0 in
                 let (p2, _) = p1 in
                 let (k', _) = p2 in
                 (&&) ((&&) (bytes_eqb k k') (matches f x y)) (go a' b'))
          in go l ms
        | _ -> false))
