(* Extraction of the executable Spec and Model definitions to OCaml (ExtrOcamlBasic only:
   bool, option, unit, list, prod, sumbool, comparison map to OCaml's; nat, N, Z, positive stay
   Coq datatypes). No Extract Constant of our own. Run from the output directory. *)
From Coq Require Import ExtrOcamlBasic.
From SonicV Require Import Base.Blocks Spec.Ref Spec.Num Spec.SortKeys
  Model.Err Model.Bitmap Model.PrefixXor Model.Bracket Model.Escape Model.SkipStr Model.SkipNum
  Model.Skip Model.Number Model.Inplace Model.Visitor Model.Cas Model.Arc Model.ObjEq Model.Many Model.ManySeen Model.ManyBuild
  Model.Promote Model.Pretty Model.SerRoundTrip Model.NodeBudget Model.Latch Model.SkipAll Model.Meta Model.SerAll Model.TablesDefs Model.SerVal Model.DomOps Model.Simd Gen.Funcs.
Set Extraction KeepSingleton.
Separate Extraction
  Spec.Ref Spec.Num Spec.SortKeys.sort_tree
  Base.Blocks.find_first Base.Blocks.find_blocks Base.Blocks.mask_of Base.Blocks.tz
  Model.Err.pos_of Model.Err.from_index Model.Err.syntax_bounds Model.Err.parser_error_index
  Model.Bitmap.get_escaped Model.Bitmap.escaped_spec
  Model.PrefixXor.prefix_xor_fallback Model.PrefixXor.prefix_xor_spec
  Model.Bracket.scan
  Model.Escape.fmt Model.Escape.spec_escape
  Model.SkipStr.skip_str Model.SkipNum.skip_num Model.Skip.skip_one
  Model.Number.parse_int Model.Number.spec_int
  Model.Inplace.inplace Model.Inplace.dec
  Model.Visitor.run Model.Visitor.node_of Model.Visitor.events
  Model.Cas.run Model.Cas.init Model.Cas.step Model.Arc.runh
  Model.ObjEq.obj_eq Model.Many.rec Model.ManySeen.rec2 Model.ManyBuild.build Model.Promote.promote Model.Promote.get_first
  Model.Pretty.run Model.Pretty.calls Model.Pretty.pretty
  Model.NodeBudget.peak Model.NodeBudget.len
  Model.Latch.latched Model.Latch.polls
  Model.SkipAll.skip_text Model.SkipAll.skip_value
  Model.Meta.pack Model.Meta.unpack_idx Model.Meta.unpack_len
  Model.SerAll.ser_compact Model.SerAll.ser_pretty Model.SerAll.quote_string
  Model.TablesDefs.hex_to_u32 Model.TablesDefs.quote_entry
  Model.SerVal.expect Model.SerVal.matches
  Model.DomOps.step Model.DomOps.run
  Model.Simd.mask_eq Model.Simd.mask_le_u Model.Simd.mask_gt_u Model.Simd.mask_le_i Model.Simd.mask_gt_i
  Model.Simd.first_offset Model.Simd.before Model.Simd.clear_high_bits Model.Simd.nonspace_bits
  Gen.Funcs.
