open BinNat
open BinNums
open Datatypes
open List
open Nat

val nl : coq_N

val count_nl : coq_N list -> nat

val col_of : coq_N list -> nat -> nat

val pos_of : coq_N list -> nat -> nat * nat

val from_index_loop : coq_N list -> nat -> nat -> nat * nat

val from_index : nat -> coq_N list -> nat * nat

type 'a res =
| Ok of 'a
| Crash

val cont : coq_N -> bool

val at_ : coq_N list -> nat -> coq_N res

val sub : nat -> nat -> nat res

val back : nat -> coq_N list -> nat -> nat -> nat res

val fwd : nat -> coq_N list -> nat -> nat -> nat res

val syntax_bounds : coq_N list -> nat -> (((nat * nat) * nat) * nat) res

val parser_error_index : nat -> nat -> nat -> nat
