open BinNat
open BinNums
open Datatypes
open List
open PeanoNat

(** val is_ws : coq_N -> bool **)

let is_ws c =
  (||)
    ((||)
      ((||)
        (N.eqb c (Npos (Coq_xO (Coq_xO (Coq_xO (Coq_xO (Coq_xO Coq_xH)))))))
        (N.eqb c (Npos (Coq_xI (Coq_xO (Coq_xO Coq_xH))))))
      (N.eqb c (Npos (Coq_xO (Coq_xI (Coq_xO Coq_xH))))))
    (N.eqb c (Npos (Coq_xI (Coq_xO (Coq_xI Coq_xH)))))

(** val ws : coq_N list -> coq_N list **)

let rec ws l = match l with
| [] -> []
| c :: r -> if is_ws c then ws r else l

(** val lit : coq_N list -> coq_N list -> coq_N list option **)

let lit word l =
  if (&&) (Nat.leb (length word) (length l))
       (if list_eq_dec N.eq_dec (firstn (length word) l) word
        then true
        else false)
  then Some (skipn (length word) l)
  else None

(** val numstart : coq_N -> bool **)

let numstart c =
  (||) (N.eqb c (Npos (Coq_xI (Coq_xO (Coq_xI (Coq_xI (Coq_xO Coq_xH)))))))
    ((&&)
      (N.leb (Npos (Coq_xO (Coq_xO (Coq_xO (Coq_xO (Coq_xI Coq_xH)))))) c)
      (N.leb c (Npos (Coq_xI (Coq_xO (Coq_xO (Coq_xI (Coq_xI Coq_xH))))))))

(** val skip_one :
    (coq_N list -> coq_N list option) -> (coq_N -> coq_N list -> coq_N list
    option) -> nat -> coq_N list -> coq_N list option **)

let skip_one skip_str skip_num =
  let rec skip_one0 fuel l =
    match fuel with
    | O -> None
    | S f ->
      (match ws l with
       | [] -> None
       | c :: r ->
         if N.eqb c (Npos (Coq_xO (Coq_xI (Coq_xO (Coq_xO (Coq_xO Coq_xH))))))
         then skip_str r
         else if N.eqb c (Npos (Coq_xI (Coq_xI (Coq_xO (Coq_xI (Coq_xI
                   (Coq_xO Coq_xH)))))))
              then (match ws r with
                    | [] -> arr_loop f r
                    | n :: r' ->
                      (match n with
                       | N0 -> arr_loop f r
                       | Npos p ->
                         (match p with
                          | Coq_xI p0 ->
                            (match p0 with
                             | Coq_xO p1 ->
                               (match p1 with
                                | Coq_xI p2 ->
                                  (match p2 with
                                   | Coq_xI p3 ->
                                     (match p3 with
                                      | Coq_xI p4 ->
                                        (match p4 with
                                         | Coq_xO p5 ->
                                           (match p5 with
                                            | Coq_xH -> Some r'
                                            | _ -> arr_loop f r)
                                         | _ -> arr_loop f r)
                                      | _ -> arr_loop f r)
                                   | _ -> arr_loop f r)
                                | _ -> arr_loop f r)
                             | _ -> arr_loop f r)
                          | _ -> arr_loop f r)))
              else if N.eqb c (Npos (Coq_xI (Coq_xI (Coq_xO (Coq_xI (Coq_xI
                        (Coq_xI Coq_xH)))))))
                   then (match ws r with
                         | [] -> None
                         | n :: r' ->
                           (match n with
                            | N0 -> None
                            | Npos p ->
                              (match p with
                               | Coq_xI p0 ->
                                 (match p0 with
                                  | Coq_xO p1 ->
                                    (match p1 with
                                     | Coq_xI p2 ->
                                       (match p2 with
                                        | Coq_xI p3 ->
                                          (match p3 with
                                           | Coq_xI p4 ->
                                             (match p4 with
                                              | Coq_xI p5 ->
                                                (match p5 with
                                                 | Coq_xH -> Some r'
                                                 | _ -> None)
                                              | _ -> None)
                                           | _ -> None)
                                        | _ -> None)
                                     | _ -> None)
                                  | _ -> None)
                               | Coq_xO p0 ->
                                 (match p0 with
                                  | Coq_xI p1 ->
                                    (match p1 with
                                     | Coq_xO p2 ->
                                       (match p2 with
                                        | Coq_xO p3 ->
                                          (match p3 with
                                           | Coq_xO p4 ->
                                             (match p4 with
                                              | Coq_xH -> obj_loop f (ws r)
                                              | _ -> None)
                                           | _ -> None)
                                        | _ -> None)
                                     | _ -> None)
                                  | _ -> None)
                               | Coq_xH -> None)))
                   else if N.eqb c (Npos (Coq_xO (Coq_xO (Coq_xI (Coq_xO
                             (Coq_xI (Coq_xI Coq_xH)))))))
                        then lit ((Npos (Coq_xO (Coq_xI (Coq_xO (Coq_xO
                               (Coq_xI (Coq_xI Coq_xH))))))) :: ((Npos
                               (Coq_xI (Coq_xO (Coq_xI (Coq_xO (Coq_xI
                               (Coq_xI Coq_xH))))))) :: ((Npos (Coq_xI
                               (Coq_xO (Coq_xI (Coq_xO (Coq_xO (Coq_xI
                               Coq_xH))))))) :: []))) r
                        else if N.eqb c (Npos (Coq_xO (Coq_xI (Coq_xI (Coq_xO
                                  (Coq_xO (Coq_xI Coq_xH)))))))
                             then lit ((Npos (Coq_xI (Coq_xO (Coq_xO (Coq_xO
                                    (Coq_xO (Coq_xI Coq_xH))))))) :: ((Npos
                                    (Coq_xO (Coq_xO (Coq_xI (Coq_xI (Coq_xO
                                    (Coq_xI Coq_xH))))))) :: ((Npos (Coq_xI
                                    (Coq_xI (Coq_xO (Coq_xO (Coq_xI (Coq_xI
                                    Coq_xH))))))) :: ((Npos (Coq_xI (Coq_xO
                                    (Coq_xI (Coq_xO (Coq_xO (Coq_xI
                                    Coq_xH))))))) :: [])))) r
                             else if N.eqb c (Npos (Coq_xO (Coq_xI (Coq_xI
                                       (Coq_xI (Coq_xO (Coq_xI Coq_xH)))))))
                                  then lit ((Npos (Coq_xI (Coq_xO (Coq_xI
                                         (Coq_xO (Coq_xI (Coq_xI
                                         Coq_xH))))))) :: ((Npos (Coq_xO
                                         (Coq_xO (Coq_xI (Coq_xI (Coq_xO
                                         (Coq_xI Coq_xH))))))) :: ((Npos
                                         (Coq_xO (Coq_xO (Coq_xI (Coq_xI
                                         (Coq_xO (Coq_xI
                                         Coq_xH))))))) :: []))) r
                                  else if numstart c
                                       then skip_num c r
                                       else None)
  and arr_loop fuel l =
    match fuel with
    | O -> None
    | S f ->
      (match skip_one0 f l with
       | Some r ->
         (match ws r with
          | [] -> None
          | n :: r' ->
            (match n with
             | N0 -> None
             | Npos p ->
               (match p with
                | Coq_xI p0 ->
                  (match p0 with
                   | Coq_xO p1 ->
                     (match p1 with
                      | Coq_xI p2 ->
                        (match p2 with
                         | Coq_xI p3 ->
                           (match p3 with
                            | Coq_xI p4 ->
                              (match p4 with
                               | Coq_xO p5 ->
                                 (match p5 with
                                  | Coq_xH -> Some r'
                                  | _ -> None)
                               | _ -> None)
                            | _ -> None)
                         | _ -> None)
                      | _ -> None)
                   | _ -> None)
                | Coq_xO p0 ->
                  (match p0 with
                   | Coq_xO p1 ->
                     (match p1 with
                      | Coq_xI p2 ->
                        (match p2 with
                         | Coq_xI p3 ->
                           (match p3 with
                            | Coq_xO p4 ->
                              (match p4 with
                               | Coq_xH -> arr_loop f r'
                               | _ -> None)
                            | _ -> None)
                         | _ -> None)
                      | _ -> None)
                   | _ -> None)
                | Coq_xH -> None)))
       | None -> None)
  and obj_loop fuel l =
    match fuel with
    | O -> None
    | S f ->
      (match l with
       | [] -> None
       | n :: k ->
         (match n with
          | N0 -> None
          | Npos p ->
            (match p with
             | Coq_xO p0 ->
               (match p0 with
                | Coq_xI p1 ->
                  (match p1 with
                   | Coq_xO p2 ->
                     (match p2 with
                      | Coq_xO p3 ->
                        (match p3 with
                         | Coq_xO p4 ->
                           (match p4 with
                            | Coq_xH ->
                              (match skip_str k with
                               | Some r ->
                                 (match ws r with
                                  | [] -> None
                                  | n0 :: r1 ->
                                    (match n0 with
                                     | N0 -> None
                                     | Npos p5 ->
                                       (match p5 with
                                        | Coq_xO p6 ->
                                          (match p6 with
                                           | Coq_xI p7 ->
                                             (match p7 with
                                              | Coq_xO p8 ->
                                                (match p8 with
                                                 | Coq_xI p9 ->
                                                   (match p9 with
                                                    | Coq_xI p10 ->
                                                      (match p10 with
                                                       | Coq_xH ->
                                                         (match skip_one0 f r1 with
                                                          | Some r2 ->
                                                            (match ws r2 with
                                                             | [] -> None
                                                             | n1 :: r3 ->
                                                               (match n1 with
                                                                | N0 -> None
                                                                | Npos p11 ->
                                                                  (match p11 with
                                                                   | Coq_xI p12 ->
                                                                    (match p12 with
                                                                    | Coq_xO p13 ->
                                                                    (match p13 with
                                                                    | Coq_xI p14 ->
                                                                    (match p14 with
                                                                    | Coq_xI p15 ->
                                                                    (match p15 with
                                                                    | Coq_xI p16 ->
                                                                    (match p16 with
                                                                    | Coq_xI p17 ->
                                                                    (match p17 with
                                                                    | Coq_xH ->
                                                                    Some r3
                                                                    | _ ->
                                                                    None)
                                                                    | _ ->
                                                                    None)
                                                                    | _ ->
                                                                    None)
                                                                    | _ ->
                                                                    None)
                                                                    | _ ->
                                                                    None)
                                                                    | _ ->
                                                                    None)
                                                                   | Coq_xO p12 ->
                                                                    (match p12 with
                                                                    | Coq_xO p13 ->
                                                                    (match p13 with
                                                                    | Coq_xI p14 ->
                                                                    (match p14 with
                                                                    | Coq_xI p15 ->
                                                                    (match p15 with
                                                                    | Coq_xO p16 ->
                                                                    (match p16 with
                                                                    | Coq_xH ->
                                                                    (match 
                                                                    ws r3 with
                                                                    | [] ->
                                                                    None
                                                                    | n2 :: _ ->
                                                                    (match n2 with
                                                                    | N0 ->
                                                                    None
                                                                    | Npos p17 ->
                                                                    (match p17 with
                                                                    | Coq_xO p18 ->
                                                                    (match p18 with
                                                                    | Coq_xI p19 ->
                                                                    (match p19 with
                                                                    | Coq_xO p20 ->
                                                                    (match p20 with
                                                                    | Coq_xO p21 ->
                                                                    (match p21 with
                                                                    | Coq_xO p22 ->
                                                                    (match p22 with
                                                                    | Coq_xH ->
                                                                    obj_loop
                                                                    f (ws r3)
                                                                    | _ ->
                                                                    None)
                                                                    | _ ->
                                                                    None)
                                                                    | _ ->
                                                                    None)
                                                                    | _ ->
                                                                    None)
                                                                    | _ ->
                                                                    None)
                                                                    | _ ->
                                                                    None)))
                                                                    | _ ->
                                                                    None)
                                                                    | _ ->
                                                                    None)
                                                                    | _ ->
                                                                    None)
                                                                    | _ ->
                                                                    None)
                                                                    | _ ->
                                                                    None)
                                                                   | Coq_xH ->
                                                                    None)))
                                                          | None -> None)
                                                       | _ -> None)
                                                    | _ -> None)
                                                 | _ -> None)
                                              | _ -> None)
                                           | _ -> None)
                                        | _ -> None)))
                               | None -> None)
                            | _ -> None)
                         | _ -> None)
                      | _ -> None)
                   | _ -> None)
                | _ -> None)
             | _ -> None)))
  in skip_one0
