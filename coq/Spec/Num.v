(* Spec/Num.v -- what a JSON number literal denotes: its exact decimal value m * 10^e,
   the integer classification of C07, and the nearest binary64 (round half to even) as a bit
   pattern. Definitions only (extracted). The literal is assumed to match the RFC grammar
   (Spec/Ref.v num_rest); on other input the functions are total but meaningless. *)
From Coq Require Import List NArith ZArith Bool.
Import ListNotations.
Open Scope Z_scope.

Definition dig (c : N) : bool := (48 <=? c)%N && (c <=? 57)%N.
Fixpoint take_digits (l : list N) : list N * list N :=
  match l with
  | c :: r => if dig c then let (d, rest) := take_digits r in (c :: d, rest) else ([], l)
  | [] => ([], [])
  end.
Definition dval (ds : list N) : Z := fold_left (fun a c => a * 10 + (Z.of_N c - 48)) ds 0.

Record decimal := { neg : bool; mant : Z; exp10 : Z; plain_int : bool }.

Definition parse_lit (lit : list N) : decimal :=
  let (ng, l0) := match lit with 45%N :: r => (true, r) | _ => (false, lit) end in
  let (ip, l1) := take_digits l0 in
  let (fp, l2) := match l1 with 46%N :: r => take_digits r | _ => ([], l1) end in
  let hasfrac := match l1 with 46%N :: _ => true | _ => false end in
  let (hasexp, ex) :=
    match l2 with
    | c :: r =>
      if (c =? 101)%N || (c =? 69)%N then
        match r with
        | 45%N :: r' => (true, - dval (fst (take_digits r')))
        | 43%N :: r' => (true, dval (fst (take_digits r')))
        | _ => (true, dval (fst (take_digits r)))
        end
      else (false, 0)
    | [] => (false, 0)
    end in
  {| neg := ng; mant := dval (ip ++ fp); exp10 := ex - Z.of_nat (length fp);
     plain_int := negb hasfrac && negb hasexp |}.

(* number of decimal digits of a positive integer, by fuel on its bit size *)
Fixpoint ndigits_f (fuel : nat) (m : Z) : Z :=
  match fuel with O => 0 | S f => if m <=? 0 then 0 else 1 + ndigits_f f (m / 10) end.
Definition ndigits (m : Z) : Z := ndigits_f (S (Z.to_nat (Z.log2 m))) m.

(* round-half-even quotient of positive integers *)
Definition rne_div (a b : Z) : Z :=
  let q := a / b in let r := a mod b in
  if 2 * r <? b then q else if b <? 2 * r then q + 1 else q + (q mod 2).

Inductive f64res := Bits (b : Z) | Infinite.

(* nearest binary floating-point number (precision p bits, largest exponent emax) of the positive
   rational num/den, as the bit pattern without sign: binary64 is p = 53, emax = 1023;
   binary32 is p = 24, emax = 127 *)
Definition round_rat (p emax : Z) (num den : Z) : f64res :=
  let bl := Z.log2 num - Z.log2 den in
  (* value in [2^E, 2^(E+1)) *)
  let ge := if 0 <=? bl then (den * 2 ^ bl <=? num) else (den <=? num * 2 ^ (- bl)) in
  let E := if ge then bl else bl - 1 in
  let emin := 1 - emax in
  if E <? emin then
    (* subnormal: unit 2^(emin - (p-1)) *)
    Bits (rne_div (num * 2 ^ (p - 1 - emin)) den)
  else
    let s := E - (p - 1) in
    let q := if 0 <=? s then rne_div num (den * 2 ^ s) else rne_div (num * 2 ^ (- s)) den in
    let '(E', q') := if q =? 2 ^ p then (E + 1, 2 ^ (p - 1)) else (E, q) in
    if emax <? E' then Infinite
    else Bits ((E' + emax) * 2 ^ (p - 1) + (q' - 2 ^ (p - 1))).

(* nearest binary64 of m * 10^e for m > 0 *)
Definition round_pos (m e : Z) : f64res :=
  let nd := ndigits m in
  if 400 <? e + nd then Infinite
  else if e + nd <? -400 then Bits 0
  else
    let num := if 0 <=? e then m * 10 ^ e else m in
    let den := if 0 <=? e then 1 else 10 ^ (- e) in
    round_rat 53 1023 num den.

Definition round_f64 (d : decimal) : f64res :=
  let sign := if neg d then 2 ^ 63 else 0 in
  if mant d =? 0 then Bits sign
  else match round_pos (mant d) (exp10 d) with
       | Bits b => Bits (sign + b)
       | Infinite => Infinite
       end.

(* binary64 bit pattern -> binary32 bit pattern, rounded once (as `x as f32`); None for NaN *)
Definition narrow_f32 (bits : Z) : option Z :=
  let sign := bits / 2 ^ 63 in
  let e := (bits / 2 ^ 52) mod 2 ^ 11 in
  let m := bits mod 2 ^ 52 in
  let s32 := sign * 2 ^ 31 in
  if e =? 2047 then (if m =? 0 then Some (s32 + 255 * 2 ^ 23) else None)
  else if (e =? 0) && (m =? 0) then Some s32
  else
    let '(num, den) :=
      if e =? 0 then (m, 2 ^ 1074)
      else if 1075 <=? e then ((2 ^ 52 + m) * 2 ^ (e - 1075), 1)
      else (2 ^ 52 + m, 2 ^ (1075 - e)) in
    match round_rat 24 127 num den with
    | Bits b => Some (s32 + b)
    | Infinite => Some (s32 + 255 * 2 ^ 23)
    end.

(* C07 classification of a literal *)
Inductive numclass := CU64 (v : Z) | CI64 (v : Z) | CF64 (bits : Z) | CInf.
Definition classify (lit : list N) : numclass :=
  let d := parse_lit lit in
  let v := mant d in
  if plain_int d && negb (neg d) && (v <? 2 ^ 64) then CU64 v
  else if plain_int d && neg d && (0 <? v) && (v <=? 2 ^ 63) then CI64 (- v)
  else match round_f64 d with Bits b => CF64 b | Infinite => CInf end.

Definition finite_lit (lit : list N) : bool :=
  match classify lit with CInf => false | _ => true end.

(* exact widening of a finite binary32 bit pattern to binary64 (`x as f64`) *)
Definition widen_f32 (bits : Z) : Z :=
  let sign := bits / 2 ^ 31 in
  let e := (bits / 2 ^ 23) mod 2 ^ 8 in
  let m := bits mod 2 ^ 23 in
  let s64 := sign * 2 ^ 63 in
  if (e =? 0) && (m =? 0) then s64
  else if e =? 0 then
    (* subnormal binary32: m * 2^-149 is a normal binary64 *)
    let k := Z.log2 m in
    s64 + (k - 149 + 1023) * 2 ^ 52 + (m - 2 ^ k) * 2 ^ (52 - k)
  else s64 + (e - 127 + 1023) * 2 ^ 52 + m * 2 ^ 29.
