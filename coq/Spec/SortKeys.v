(* Spec/SortKeys.v -- key sorting (the sort_keys feature): the members of every object in ascending
   byte-wise key order, stable for equal keys, values untouched. *)
From Coq Require Import List NArith Arith Bool Lia Sorting.Sorted Sorting.Permutation.
From SonicV Require Import Spec.Ref.
Import ListNotations.
Open Scope N_scope.

(* byte-wise lexicographic order (str::cmp on UTF-8) *)
Fixpoint ble (a b : list N) : bool :=
  match a, b with
  | [], _ => true
  | _ :: _, [] => false
  | x :: a', y :: b' => if x <? y then true else if y <? x then false else ble a' b'
  end.

Section Isort.
Variable A : Type.
Variable key : A -> list N.
Fixpoint insert (m : A) (l : list A) : list A :=
  match l with
  | [] => [m]
  | x :: r => if ble (key m) (key x) then m :: l else x :: insert m r    (* before equal keys: stable *)
  end.
Fixpoint isort (l : list A) : list A := match l with [] => [] | m :: r => insert m (isort r) end.

Lemma ble_total : forall a b, ble a b = true \/ ble b a = true.
Proof.
  induction a as [|x a IH]; intros [|y b]; cbn [ble]; auto.
  destruct (N.ltb_spec x y), (N.ltb_spec y x); auto; try lia.
Qed.
Lemma ble_trans : forall a b c, ble a b = true -> ble b c = true -> ble a c = true.
Proof.
  induction a as [|x a IH]; intros [|y b] [|z c] H1 H2; cbn [ble] in *; try reflexivity; try discriminate.
  destruct (N.ltb_spec x y), (N.ltb_spec y x), (N.ltb_spec y z), (N.ltb_spec z y), (N.ltb_spec x z), (N.ltb_spec z x); try reflexivity; try discriminate; try lia.
  eapply IH; eassumption.
Qed.

Definition le_key (x y : A) : Prop := ble (key x) (key y) = true.

Lemma insert_perm : forall m l, Permutation (m :: l) (insert m l).
Proof.
  induction l as [|x r IH]; cbn [insert]; [apply Permutation_refl|].
  destruct (ble (key m) (key x)); [apply Permutation_refl|].
  eapply Permutation_trans; [apply perm_swap|]. apply perm_skip. exact IH.
Qed.
Theorem isort_perm : forall l, Permutation l (isort l).
Proof.
  induction l as [|m r IH]; cbn [isort]; [constructor|].
  eapply Permutation_trans; [apply perm_skip; exact IH|]. apply insert_perm.
Qed.

Lemma insert_hd : forall m l y, HdRel le_key y l -> le_key y m -> HdRel le_key y (insert m l).
Proof.
  intros m [|x r] y H Hm; cbn [insert]; [constructor; exact Hm|].
  destruct (ble (key m) (key x)); constructor; [exact Hm | inversion H; assumption].
Qed.
Lemma insert_sorted : forall m l, Sorted le_key l -> Sorted le_key (insert m l).
Proof.
  induction l as [|x r IH]; intros S; cbn [insert]; [repeat constructor|].
  inversion S as [|? ? Sr Hr]; subst.
  destruct (ble (key m) (key x)) eqn:E.
  - constructor; [exact S|]. constructor. exact E.
  - constructor; [apply IH; exact Sr|]. apply insert_hd; [exact Hr|].
    destruct (ble_total (key m) (key x)) as [T|T]; [congruence|exact T].
Qed.
Theorem isort_sorted : forall l, Sorted le_key (isort l).
Proof. induction l as [|m r IH]; cbn [isort]; [constructor|]. apply insert_sorted. exact IH. Qed.
End Isort.

(* sort the members of every object of a tree *)
Fixpoint sort_tree (fuel : nat) (v : jv) : jv :=
  match fuel with O => v | S f =>
  match v with
  | JArr xs => JArr (map (fun x => (fst x, sort_tree f (snd x))) xs)
  | JObj ms => JObj (isort _ (fun m => fst (fst (fst m))) (map (fun m => (fst m, sort_tree f (snd m))) ms))
  | _ => v
  end end.
