(* Spec/Ref.v -- the executable reference for JSON texts (RFC 8259): recogniser, reference
   parser with source spans, decoded strings, path lookup, UTF-8 validity.
   Small, total, structurally or fuel recursive; a byte is an [N]. This file contains
   definitions only (it is extracted and it must keep running when a proof elsewhere breaks). *)
From Coq Require Import List NArith Arith Bool.
Import ListNotations.
Open Scope N_scope.

Definition is_ws (c : N) : bool := (c =? 32) || (c =? 9) || (c =? 10) || (c =? 13).
Definition digit (c : N) : bool := (48 <=? c) && (c <=? 57).
Definition is_hex (c : N) : bool :=
  ((48 <=? c) && (c <=? 57)) || ((65 <=? c) && (c <=? 70)) || ((97 <=? c) && (c <=? 102)).
Definition hexval (c : N) : N :=
  if (48 <=? c) && (c <=? 57) then c - 48
  else if (65 <=? c) && (c <=? 70) then c - 55
  else c - 87.

Fixpoint ws (l : list N) : list N :=
  match l with c :: r => if is_ws c then ws r else l | [] => [] end.

(* ---------- UTF-8 (RFC 3629: no overlongs, no surrogates, at most U+10FFFF) ---------- *)
Definition cont (c : N) : bool := (128 <=? c) && (c <=? 191).
Fixpoint utf8_valid_f (fuel : nat) (l : list N) : bool :=
  match fuel with O => false | S f =>
  match l with
  | [] => true
  | c :: r =>
    if c <? 128 then utf8_valid_f f r
    else if (194 <=? c) && (c <=? 223) then
      match r with c1 :: r1 => cont c1 && utf8_valid_f f r1 | _ => false end
    else if (224 <=? c) && (c <=? 239) then
      match r with
      | c1 :: c2 :: r2 =>
          cont c1 && cont c2
          && (if c =? 224 then 160 <=? c1 else true)
          && (if c =? 237 then c1 <=? 159 else true)
          && utf8_valid_f f r2
      | _ => false end
    else if (240 <=? c) && (c <=? 244) then
      match r with
      | c1 :: c2 :: c3 :: r3 =>
          cont c1 && cont c2 && cont c3
          && (if c =? 240 then 144 <=? c1 else true)
          && (if c =? 244 then c1 <=? 143 else true)
          && utf8_valid_f f r3
      | _ => false end
    else false
  end end.
Definition utf8_valid (l : list N) : bool := utf8_valid_f (S (length l)) l.

Definition utf8_encode (cp : N) : list N :=
  if cp <? 128 then [cp]
  else if cp <? 2048 then [192 + cp / 64; 128 + cp mod 64]
  else if cp <? 65536 then [224 + cp / 4096; 128 + (cp / 64) mod 64; 128 + cp mod 64]
  else [240 + cp / 262144; 128 + (cp / 4096) mod 64; 128 + (cp / 64) mod 64; 128 + cp mod 64].

(* ---------- numbers: the RFC 8259 grammar as a scanner returning the rest ---------- *)
Fixpoint digits (l : list N) : list N :=
  match l with c :: r => if digit c then digits r else l | [] => [] end.
Definition is_e (c : N) : bool := (c =? 101) || (c =? 69).
Definition is_sign (c : N) : bool := (c =? 43) || (c =? 45).
Definition num_exp (l : list N) : option (list N) :=          (* after e/E *)
  let l1 := match l with c :: r => if is_sign c then r else l | [] => l end in
  match l1 with d :: r => if digit d then Some (digits r) else None | [] => None end.
Definition num_after_frac (l : list N) : option (list N) :=
  match l with c :: r => if is_e c then num_exp r else Some l | [] => Some l end.
Definition num_after_int (l : list N) : option (list N) :=
  match l with
  | c :: r => if c =? 46 then match r with d :: r' => if digit d then num_after_frac (digits r') else None | [] => None end
              else if is_e c then num_exp r else Some l
  | [] => Some l
  end.
Definition num_int (l : list N) : option (list N) :=           (* at the first digit *)
  match l with
  | d :: r => if d =? 48 then
                (* a zero directly followed by a digit is a malformed token, not "0" and then garbage *)
                match r with d2 :: _ => if digit d2 then None else num_after_int r | [] => num_after_int r end
              else if digit d then num_after_int (digits r) else None
  | [] => None
  end.
Definition num_rest (l : list N) : option (list N) :=          (* at '-' or the first digit *)
  match l with
  | c :: r => if c =? 45 then num_int r else num_int l
  | [] => None
  end.

(* ---------- strings: body after the opening quote ---------- *)
Definition simple_escape (c : N) : option N :=
  if c =? 34 then Some 34 else if c =? 92 then Some 92 else if c =? 47 then Some 47
  else if c =? 98 then Some 8 else if c =? 102 then Some 12 else if c =? 110 then Some 10
  else if c =? 114 then Some 13 else if c =? 116 then Some 9 else None.
Definition hex4 (a b c d : N) : option N :=
  if is_hex a && is_hex b && is_hex c && is_hex d
  then Some (hexval a * 4096 + hexval b * 256 + hexval c * 16 + hexval d) else None.

(* [strict_cp = true]: every \u escape must denote a scalar value (surrogates paired);
   [strict_cp = false]: only the grammar is checked (validate-and-skip entry points).
   Returns (decoded bytes, has_escape, rest after the closing quote). Lone surrogates are
   dropped from the decoding when not strict (the decoding is then not used). *)
Fixpoint str_body (strict_cp : bool) (fuel : nat) (l : list N) : option (list N * bool * list N) :=
  match fuel with O => None | S f =>
  match l with
  | [] => None
  | c :: r =>
    if c =? 34 then Some ([], false, r)
    else if c =? 92 then
      match r with
      | [] => None
      | e :: r1 =>
        if e =? 117 then
          match r1 with
          | h1 :: h2 :: h3 :: h4 :: r2 =>
            match hex4 h1 h2 h3 h4 with
            | None => None
            | Some cp =>
              if (55296 <=? cp) && (cp <=? 56319) then        (* high surrogate *)
                (* a lone surrogate: rejected when strict, otherwise skipped *)
                let lone := if strict_cp then None
                            else match str_body strict_cp f r2 with Some (d, _, rest) => Some (d, true, rest) | None => None end in
                match r2 with
                | q1 :: q2 :: g1 :: g2 :: g3 :: g4 :: r3 =>
                  if (q1 =? 92) && (q2 =? 117) then
                    match hex4 g1 g2 g3 g4 with
                    | Some lo =>
                      if (56320 <=? lo) && (lo <=? 57343) then
                        match str_body strict_cp f r3 with
                        | Some (d, _, rest) => Some (utf8_encode (65536 + (cp - 55296) * 1024 + (lo - 56320)) ++ d, true, rest)
                        | None => None end
                      else lone
                    | None => lone
                    end
                  else lone
                | _ => lone
                end
              else if (56320 <=? cp) && (cp <=? 57343) then   (* lone low surrogate *)
                if strict_cp then None
                else match str_body strict_cp f r2 with Some (d, _, rest) => Some (d, true, rest) | None => None end
              else
                match str_body strict_cp f r2 with
                | Some (d, _, rest) => Some (utf8_encode cp ++ d, true, rest)
                | None => None end
            end
          | _ => None
          end
        else
          match simple_escape e with
          | Some o => match str_body strict_cp f r1 with Some (d, _, rest) => Some (o :: d, true, rest) | None => None end
          | None => None
          end
      end
    else if c <? 32 then None
    else match str_body strict_cp f r with Some (d, h, rest) => Some (c :: d, h, rest) | None => None end
  end end.

(* ---------- the data model with source spans ---------- *)
(* spans are byte offsets [start, stop) into the parsed text; children carry their spans *)
Inductive jv :=
| JNull | JBool (b : bool)
| JNum (lit : list N)
| JStr (dec : list N) (esc : bool)
| JArr (xs : list (nat * nat * jv))
| JObj (ms : list (list N * nat * nat * jv)).     (* decoded key, value span, value *)

Definition take_prefix (l rest : list N) : list N := firstn (length l - length rest) l.

Definition lit_match (word l : list N) : option (list N) :=
  if (length word <=? length l)%nat && (if list_eq_dec N.eq_dec (firstn (length word) l) word then true else false)
  then Some (skipn (length word) l) else None.

(* [pos] is the offset of the head of [l]; returns (value, start, stop, rest) with the
   value's own span free of surrounding whitespace *)
Fixpoint pvalue (strict_cp : bool) (fuel : nat) (pos : nat) (l : list N) : option (jv * nat * nat * list N) :=
  match fuel with O => None | S f =>
  let l1 := ws l in
  let p1 := (pos + (length l - length l1))%nat in
  match l1 with
  | [] => None
  | c :: r =>
    if c =? 34 then
      match str_body strict_cp (S (length r)) r with
      | Some (d, h, rest) => Some (JStr d h, p1, (p1 + (length l1 - length rest))%nat, rest)
      | None => None end
    else if c =? 91 then
      let r1 := ws r in
      match r1 with
      | 93 :: rest => Some (JArr [], p1, (p1 + (length l1 - length rest))%nat, rest)
      | _ => match pelems strict_cp f (S p1) r with
             | Some (xs, rest) => Some (JArr xs, p1, (p1 + (length l1 - length rest))%nat, rest)
             | None => None end
      end
    else if c =? 123 then
      let r1 := ws r in
      match r1 with
      | 125 :: rest => Some (JObj [], p1, (p1 + (length l1 - length rest))%nat, rest)
      | _ => match pmembers strict_cp f (S p1) r with
             | Some (ms, rest) => Some (JObj ms, p1, (p1 + (length l1 - length rest))%nat, rest)
             | None => None end
      end
    else if c =? 116 then
      match lit_match [114;117;101] r with Some rest => Some (JBool true, p1, (p1 + 4)%nat, rest) | None => None end
    else if c =? 102 then
      match lit_match [97;108;115;101] r with Some rest => Some (JBool false, p1, (p1 + 5)%nat, rest) | None => None end
    else if c =? 110 then
      match lit_match [117;108;108] r with Some rest => Some (JNull, p1, (p1 + 4)%nat, rest) | None => None end
    else if (c =? 45) || digit c then
      match num_rest l1 with
      | Some rest => Some (JNum (take_prefix l1 rest), p1, (p1 + (length l1 - length rest))%nat, rest)
      | None => None end
    else None
  end end
with pelems (strict_cp : bool) (fuel : nat) (pos : nat) (l : list N) : option (list (nat * nat * jv) * list N) :=
  match fuel with O => None | S f =>
  match pvalue strict_cp f pos l with
  | None => None
  | Some (v, a, b, rest) =>
    let r1 := ws rest in
    let p1 := (b + (length rest - length r1))%nat in
    match r1 with
    | 93 :: r2 => Some ([(a, b, v)], r2)
    | 44 :: r2 => match pelems strict_cp f (S p1) r2 with
                  | Some (xs, r3) => Some ((a, b, v) :: xs, r3)
                  | None => None end
    | _ => None
    end
  end end
with pmembers (strict_cp : bool) (fuel : nat) (pos : nat) (l : list N) : option (list (list N * nat * nat * jv) * list N) :=
  match fuel with O => None | S f =>
  let l1 := ws l in
  let p1 := (pos + (length l - length l1))%nat in
  match l1 with
  | 34 :: r =>
    match str_body strict_cp (S (length r)) r with
    | None => None
    | Some (k, _, rest) =>
      let pk := (p1 + (length l1 - length rest))%nat in
      let r1 := ws rest in
      let pc := (pk + (length rest - length r1))%nat in
      match r1 with
      | 58 :: r2 =>
        match pvalue strict_cp f (S pc) r2 with
        | None => None
        | Some (v, a, b, r3) =>
          let r4 := ws r3 in
          let p4 := (b + (length r3 - length r4))%nat in
          match r4 with
          | 125 :: r5 => Some ([(k, a, b, v)], r5)
          | 44 :: r5 => match pmembers strict_cp f (S p4) r5 with
                        | Some (ms, r6) => Some ((k, a, b, v) :: ms, r6)
                        | None => None end
          | _ => None
          end
        end
      | _ => None
      end
    end
  | _ => None
  end end.

Definition fuel_for (l : list N) : nat := S (S (length l)).

(* a whole text: ws value ws *)
Definition ref_text (strict_cp : bool) (l : list N) : option (jv * nat * nat) :=
  match pvalue strict_cp (fuel_for l) 0 l with
  | Some (v, a, b, rest) => match ws rest with [] => Some (v, a, b) | _ => None end
  | None => None
  end.
(* the first value of an input, anything may follow *)
Definition ref_first (strict_cp : bool) (l : list N) : option (jv * nat * nat) :=
  match pvalue strict_cp (fuel_for l) 0 l with
  | Some (v, a, b, _) => Some (v, a, b)
  | None => None
  end.

Definition rfc_text (l : list N) : bool := match ref_text false l with Some _ => true | None => false end.
Definition skip_accepts (l : list N) : bool := utf8_valid l && rfc_text l.
Definition full_accepts_grammar (l : list N) : bool :=   (* without the finite-number clause, see Num.v *)
  utf8_valid l && match ref_text true l with Some _ => true | None => false end.

Fixpoint depth (v : jv) : nat :=
  match v with
  | JArr xs => S (fold_right (fun x m => Nat.max (depth (snd x)) m) 0%nat xs)
  | JObj ms => S (fold_right (fun x m => Nat.max (depth (snd x)) m) 0%nat ms)
  | _ => 0%nat
  end.

(* ---------- paths and lookup: first member wins ---------- *)
Inductive pelem := PKey (k : list N) | PIdx (i : nat).
Fixpoint bytes_eqb (a b : list N) : bool :=
  match a, b with [], [] => true | x :: a', y :: b' => (x =? y) && bytes_eqb a' b' | _, _ => false end.
Fixpoint assoc_first (ms : list (list N * nat * nat * jv)) (k : list N) : option (nat * nat * jv) :=
  match ms with
  | [] => None
  | (k', a, b, v) :: r => if bytes_eqb k' k then Some (a, b, v) else assoc_first r k
  end.
Inductive lookup_res := Found (a b : nat) (v : jv) | Missing | WrongKind.
Fixpoint lookup (v : jv) (a b : nat) (p : list pelem) : lookup_res :=
  match p with
  | [] => Found a b v
  | PKey k :: p' =>
      match v with
      | JObj ms => match assoc_first ms k with Some (a', b', v') => lookup v' a' b' p' | None => Missing end
      | _ => WrongKind end
  | PIdx i :: p' =>
      match v with
      | JArr xs => match nth_error xs i with Some (a', b', v') => lookup v' a' b' p' | None => Missing end
      | _ => WrongKind end
  end.

Fixpoint has_dup_keys (fuel : nat) (v : jv) : bool :=
  match fuel with O => false | S f =>
  match v with
  | JArr xs => existsb (fun x => has_dup_keys f (snd x)) xs
  | JObj ms =>
      (fix go (l : list (list N * nat * nat * jv)) : bool :=
         match l with
         | [] => false
         | (k, _, _, x) :: r => existsb (fun m => bytes_eqb (fst (fst (fst m))) k) r || has_dup_keys f x || go r
         end) ms
  | _ => false
  end end.

(* ---------- reference get on arbitrary bytes (the decision procedure of C14's WfPrefix):
   walk the path through the text, requiring everything traversed before the target to be
   well-formed; nothing is required of the bytes after the returned value ---------- *)
Fixpoint skip_elems (i : nat) (pos : nat) (l : list N) : option (nat * list N) :=   (* after '[' *)
  match i with
  | O => Some (pos, l)
  | S j =>
    match pvalue false (fuel_for l) pos l with
    | None => None
    | Some (_, _, b, rest) =>
      let r1 := ws rest in
      match r1 with
      | 44 :: r2 => skip_elems j (S (b + (length rest - length r1)))%nat r2
      | _ => None
      end
    end
  end.

Fixpoint find_member (fuel : nat) (k : list N) (pos : nat) (l : list N) : option (nat * list N) :=   (* after '{' or ',' *)
  match fuel with O => None | S f =>
  let l1 := ws l in
  let p1 := (pos + (length l - length l1))%nat in
  match l1 with
  | 34 :: r =>
    match str_body true (S (length r)) r with
    | None => None
    | Some (key, _, rest) =>
      let pk := (p1 + (length l1 - length rest))%nat in
      let r1 := ws rest in
      let pc := (pk + (length rest - length r1))%nat in
      match r1 with
      | 58 :: r2 =>
        if bytes_eqb key k then Some (S pc, r2)
        else
          match pvalue false (fuel_for r2) (S pc) r2 with
          | None => None
          | Some (_, _, b, r3) =>
            let r4 := ws r3 in
            match r4 with
            | 44 :: r5 => find_member f k (S (b + (length r3 - length r4)))%nat r5
            | _ => None
            end
          end
      | _ => None
      end
    end
  | _ => None
  end end.

Fixpoint ref_get_at (p : list pelem) (pos : nat) (l : list N) : option (nat * nat) :=
  match p with
  | [] => match pvalue false (fuel_for l) pos l with Some (_, a, b, _) => Some (a, b) | None => None end
  | PIdx i :: p' =>
    let l1 := ws l in
    let p1 := (pos + (length l - length l1))%nat in
    match l1 with
    | 91 :: r => match skip_elems i (S p1) r with Some (p2, r2) => ref_get_at p' p2 r2 | None => None end
    | _ => None
    end
  | PKey k :: p' =>
    let l1 := ws l in
    let p1 := (pos + (length l - length l1))%nat in
    match l1 with
    | 123 :: r => match find_member (S (length r)) k (S p1) r with Some (p2, r2) => ref_get_at p' p2 r2 | None => None end
    | _ => None
    end
  end.
Definition ref_get (l : list N) (p : list pelem) : option (nat * nat) := ref_get_at p 0 l.

(* ---------- reference behaviour of the lazy iterators on arbitrary bytes (C12) ---------- *)
Inductive item := IOk (key : list N) (a b : nat) | IErr | IEnd.

Fixpoint arr_items (fuel : nat) (first : bool) (pos : nat) (l : list N) : list item :=
  match fuel with O => [IErr] | S f =>
  let l1 := ws l in
  let p1 := (pos + (length l - length l1))%nat in
  match l1 with
  | [] => [IErr]
  | c :: r =>
    if c =? 93 then [IEnd]
    else
      let '(p2, l2, ok) := if first then (p1, l1, true) else if c =? 44 then (S p1, r, true) else (p1, l1, false) in
      if ok then
        match pvalue false (fuel_for l2) p2 l2 with
        | None => [IErr]
        | Some (_, a, b, rest) => IOk [] a b :: arr_items f false b rest
        end
      else [IErr]
  end end.

Definition ref_array_iter (l : list N) : list item :=
  if utf8_valid l then
    match ws l with
    | 91 :: r => arr_items (S (length l)) true (S (length l - length (ws l))) r
    | _ => [IErr]
    end
  else [IErr].

Fixpoint obj_items (fuel : nat) (first : bool) (pos : nat) (l : list N) : list item :=
  match fuel with O => [IErr] | S f =>
  let l1 := ws l in
  let p1 := (pos + (length l - length l1))%nat in
  match l1 with
  | [] => [IErr]
  | c :: r =>
    if c =? 125 then [IEnd]
    else
      (* position of the key's opening quote *)
      let '(p2, l2, ok) :=
        if first then (p1, l1, true)
        else if c =? 44 then let r1 := ws r in ((S p1 + (length r - length r1))%nat, r1, true) else (p1, l1, false) in
      if ok then
        match l2 with
        | 34 :: kr =>
          match str_body true (S (length kr)) kr with
          | None => [IErr]
          | Some (k, _, rest) =>
            let pk := (p2 + (length l2 - length rest))%nat in
            let r1 := ws rest in
            let pc := (pk + (length rest - length r1))%nat in
            match r1 with
            | 58 :: r2 =>
              match pvalue false (fuel_for r2) (S pc) r2 with
              | None => [IErr]
              | Some (_, a, b, r3) => IOk k a b :: obj_items f false b r3
              end
            | _ => [IErr]
            end
          end
        | _ => [IErr]
        end
      else [IErr]
  end end.

Definition ref_object_iter (l : list N) : list item :=
  if utf8_valid l then
    match ws l with
    | 123 :: r => obj_items (S (length l)) true (S (length l - length (ws l))) r
    | _ => [IErr]
    end
  else [IErr].

(* ---------- get_by_schema: the schema with every key present in the document replaced
   (recursively for non-empty object schemas) by the document's value ---------- *)
Fixpoint merge (fuel : nat) (sch doc : jv) : jv :=
  match fuel with O => doc | S f =>
  match sch, doc with
  | JObj (sm :: sms), JObj dms =>
      JObj (map (fun m => match m with (k, a, b, sv) =>
                   match assoc_first dms k with
                   | Some (_, _, dv) => (k, a, b, merge f sv dv)
                   | None => (k, a, b, sv) end end) (sm :: sms))
  | _, _ => doc
  end end.

(* ---------- lossy mode (C09): invalid UTF-8 and unpaired surrogates become U+FFFD exactly as
   String::from_utf8_lossy would (one replacement per maximal invalid subpart) ---------- *)
Definition fffd : list N := [239; 191; 189].
Fixpoint utf8_lossy_f (fuel : nat) (l : list N) : list N :=
  match fuel with O => [] | S f =>
  match l with
  | [] => []
  | c :: r =>
    if c <? 128 then c :: utf8_lossy_f f r
    else if (194 <=? c) && (c <=? 223) then
      match r with
      | c1 :: r1 => if cont c1 then c :: c1 :: utf8_lossy_f f r1 else fffd ++ utf8_lossy_f f r
      | [] => fffd
      end
    else if (224 <=? c) && (c <=? 239) then
      match r with
      | c1 :: r1 =>
        if cont c1 && (if c =? 224 then 160 <=? c1 else true) && (if c =? 237 then c1 <=? 159 else true) then
          match r1 with
          | c2 :: r2 => if cont c2 then c :: c1 :: c2 :: utf8_lossy_f f r2 else fffd ++ utf8_lossy_f f r1
          | [] => fffd
          end
        else fffd ++ utf8_lossy_f f r
      | [] => fffd
      end
    else if (240 <=? c) && (c <=? 244) then
      match r with
      | c1 :: r1 =>
        if cont c1 && (if c =? 240 then 144 <=? c1 else true) && (if c =? 244 then c1 <=? 143 else true) then
          match r1 with
          | c2 :: r2 =>
            if cont c2 then
              match r2 with
              | c3 :: r3 => if cont c3 then c :: c1 :: c2 :: c3 :: utf8_lossy_f f r3 else fffd ++ utf8_lossy_f f r2
              | [] => fffd
              end
            else fffd ++ utf8_lossy_f f r1
          | [] => fffd
          end
        else fffd ++ utf8_lossy_f f r
      | [] => fffd
      end
    else fffd ++ utf8_lossy_f f r
  end end.
Definition utf8_lossy (l : list N) : list N := utf8_lossy_f (S (length l)) l.

(* string body decoding where an unpaired surrogate escape denotes U+FFFD *)
Fixpoint str_body_lossy (fuel : nat) (l : list N) : option (list N * bool * list N) :=
  match fuel with O => None | S f =>
  match l with
  | [] => None
  | c :: r =>
    if c =? 34 then Some ([], false, r)
    else if c =? 92 then
      match r with
      | [] => None
      | e :: r1 =>
        if e =? 117 then
          match r1 with
          | h1 :: h2 :: h3 :: h4 :: r2 =>
            match hex4 h1 h2 h3 h4 with
            | None => None
            | Some cp =>
              let continue_with (out : list N) (rest : list N) :=
                match str_body_lossy f rest with Some (d, _, rr) => Some (out ++ d, true, rr) | None => None end in
              if (55296 <=? cp) && (cp <=? 56319) then
                match r2 with
                | 92 :: 117 :: g1 :: g2 :: g3 :: g4 :: r3 =>
                  match hex4 g1 g2 g3 g4 with
                  | Some lo =>
                    if (56320 <=? lo) && (lo <=? 57343)
                    then continue_with (utf8_encode (65536 + (cp - 55296) * 1024 + (lo - 56320))) r3
                    else continue_with fffd r2
                  | None => None
                  end
                | _ => continue_with fffd r2
                end
              else if (56320 <=? cp) && (cp <=? 57343) then continue_with fffd r2
              else continue_with (utf8_encode cp) r2
            end
          | _ => None
          end
        else
          match simple_escape e with
          | Some o => match str_body_lossy f r1 with Some (d, _, rest) => Some (o :: d, true, rest) | None => None end
          | None => None
          end
      end
    else if c <? 32 then None
    else match str_body_lossy f r with Some (d, h, rest) => Some (c :: d, h, rest) | None => None end
  end end.

(* a whole string literal (with its quotes): Some (decoded, has_escape) *)
Definition decode_literal (lossy : bool) (lit : list N) : option (list N * bool) :=
  match lit with
  | 34 :: body =>
    if lossy then
      match str_body_lossy (S (length body)) body with
      | Some (d, h, []) => Some (utf8_lossy d, h)
      | _ => None end
    else if utf8_valid lit then
      match str_body true (S (length body)) body with
      | Some (d, h, []) => Some (d, h)
      | _ => None end
    else None
  | _ => None
  end.
Definition skip_literal (lit : list N) : bool :=
  match lit with
  | 34 :: body => utf8_valid lit && match str_body false (S (length body)) body with Some (_, _, []) => true | _ => false end
  | _ => false
  end.
