open BinNat
open BinNums
open Datatypes
open List
open Ref

val ble : coq_N list -> coq_N list -> bool

val insert : ('a1 -> coq_N list) -> 'a1 -> 'a1 list -> 'a1 list

val isort : ('a1 -> coq_N list) -> 'a1 list -> 'a1 list

val sort_tree : nat -> jv -> jv
