open BinNat
open BinNums
open Datatypes
open List
open Ref

(** val ble : coq_N list -> coq_N list -> bool **)

let rec ble a b =
  match a with
  | [] -> true
  | x :: a' ->
    (match b with
     | [] -> false
     | y :: b' ->
       if N.ltb x y then true else if N.ltb y x then false else ble a' b')

(** val insert : ('a1 -> coq_N list) -> 'a1 -> 'a1 list -> 'a1 list **)

let rec insert key m l = match l with
| [] -> m :: []
| x :: r -> if ble (key m) (key x) then m :: l else x :: (insert key m r)

(** val isort : ('a1 -> coq_N list) -> 'a1 list -> 'a1 list **)

let rec isort key = function
| [] -> []
| m :: r -> insert key m (isort key r)

(** val sort_tree : nat -> jv -> jv **)

let rec sort_tree fuel v =
  match fuel with
  | O -> v
  | S f ->
    (match v with
     | JArr xs -> JArr (map (fun x -> ((fst x), (sort_tree f (snd x)))) xs)
     | JObj ms ->
       JObj
         (isort (fun m -> fst (fst (fst m)))
           (map (fun m -> ((fst m), (sort_tree f (snd m)))) ms))
     | _ -> v)
