open BinInt
open BinNat
open BinNums
open Blocks
open Datatypes
open List

(** val bits_to_N : bool list -> coq_N **)

let rec bits_to_N = function
| [] -> N0
| b :: t ->
  N.add (if b then Npos Coq_xH else N0)
    (N.mul (Npos (Coq_xO Coq_xH)) (bits_to_N t))

(** val map2 : ('a1 -> 'a2 -> 'a3) -> 'a1 list -> 'a2 list -> 'a3 list **)

let rec map2 f a b =
  match a with
  | [] -> []
  | x :: a' -> (match b with
                | [] -> []
                | y :: b' -> (f x y) :: (map2 f a' b'))

(** val signed : coq_N -> coq_Z **)

let signed x =
  if N.ltb x (Npos (Coq_xO (Coq_xO (Coq_xO (Coq_xO (Coq_xO (Coq_xO (Coq_xO
       Coq_xH))))))))
  then Z.of_N x
  else Z.sub (Z.of_N x) (Zpos (Coq_xO (Coq_xO (Coq_xO (Coq_xO (Coq_xO (Coq_xO
         (Coq_xO (Coq_xO Coq_xH)))))))))

(** val mask_eq : coq_N list -> coq_N list -> coq_N **)

let mask_eq a b =
  bits_to_N (map2 N.eqb a b)

(** val mask_le_u : coq_N list -> coq_N list -> coq_N **)

let mask_le_u a b =
  bits_to_N (map2 N.leb a b)

(** val mask_gt_u : coq_N list -> coq_N list -> coq_N **)

let mask_gt_u a b =
  bits_to_N (map2 (fun x y -> N.ltb y x) a b)

(** val mask_le_i : coq_N list -> coq_N list -> coq_N **)

let mask_le_i a b =
  bits_to_N (map2 (fun x y -> Z.leb (signed x) (signed y)) a b)

(** val mask_gt_i : coq_N list -> coq_N list -> coq_N **)

let mask_gt_i a b =
  bits_to_N (map2 (fun x y -> Z.ltb (signed y) (signed x)) a b)

(** val first_offset : coq_N -> coq_N -> coq_N **)

let first_offset len m =
  match tz m with
  | Some k -> N.of_nat k
  | None -> len

(** val before : coq_N -> coq_N -> bool **)

let before a b =
  negb
    (N.eqb
      (N.coq_land a
        (match b with
         | N0 ->
           N.ones (Npos (Coq_xO (Coq_xO (Coq_xO (Coq_xO (Coq_xO (Coq_xO
             Coq_xH)))))))
         | Npos _ -> N.sub b (Npos Coq_xH))) N0)

(** val clear_high_bits : coq_N -> coq_N -> coq_N -> coq_N **)

let clear_high_bits len n m =
  N.coq_land m (N.ones (N.sub len n))

(** val is_space : coq_N -> bool **)

let is_space c =
  (||)
    ((||)
      ((||)
        (N.eqb c (Npos (Coq_xO (Coq_xO (Coq_xO (Coq_xO (Coq_xO Coq_xH)))))))
        (N.eqb c (Npos (Coq_xI (Coq_xO (Coq_xO Coq_xH))))))
      (N.eqb c (Npos (Coq_xO (Coq_xI (Coq_xO Coq_xH))))))
    (N.eqb c (Npos (Coq_xI (Coq_xO (Coq_xI Coq_xH)))))

(** val nonspace_bits : coq_N list -> coq_N **)

let nonspace_bits l =
  bits_to_N (map (fun c -> negb (is_space c)) l)
