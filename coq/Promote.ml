open Datatypes
open List

(** val get_first :
    ('a1 -> 'a1 -> bool) -> ('a1 * 'a2) list -> 'a1 -> 'a2 option **)

let rec get_first keq ps k =
  match ps with
  | [] -> None
  | p :: r ->
    let (k', v) = p in if keq k' k then Some v else get_first keq r k

type ('key, 'val0) map_ = 'key -> 'val0 option

(** val empty : ('a1, 'a2) map_ **)

let empty _ =
  None

(** val insert :
    ('a1 -> 'a1 -> bool) -> ('a1, 'a2) map_ -> 'a1 -> 'a2 -> ('a1, 'a2) map_ **)

let insert keq m k v q =
  if keq k q then Some v else m q

(** val promote :
    ('a1 -> 'a1 -> bool) -> ('a1 * 'a2) list -> ('a1, 'a2) map_ **)

let promote keq ps =
  fold_left (fun m p -> insert keq m (fst p) (snd p)) ps empty
