(* C06 -- parse then serialize is lossless and reaches a fixpoint. Statements only. *)
From Coq Require Import List NArith Arith.
From Coq Require Import Sorting.Sorted Sorting.Permutation.
From SonicV Require Import Spec.SortKeys Model.SerRoundTrip Model.Pretty Spec.Ref Model.SerAll.
From SonicV Require Model.SerClosed.
Import ListNotations.
Open Scope N_scope.

(* parsing the compact serialization of any tree gives the tree back (order and duplicates included),
   for every scalar/key token printer that round-trips on its own *)
Theorem parse_of_print : forall (scalar key : Type) print_scalar parse_scalar print_key parse_key,
  (forall s rest, follow_ok rest -> parse_scalar (print_scalar s ++ rest) = Some (s, rest)) ->
  (forall s : scalar, exists c r, print_scalar s = c :: r /\ structural c = false) ->
  (forall k : key, exists c r, print_key k = c :: r /\ structural c = false) ->
  (forall k rest, parse_key (print_key k ++ 58 :: rest) = Some (k, 58 :: rest)) ->
  forall v fuel rest, (size scalar key v < fuel)%nat -> follow_ok rest ->
  parse scalar key parse_scalar parse_key fuel (print scalar key print_scalar print_key v ++ rest) = Some (v, rest).
Proof.
  intros scalar key ps pas pk pak H1 H2 H3 H4 v.
  exact (parse_print scalar key ps pas pk pak H1 H2 H3 H4 v).
Qed.

(* the pretty formatter's state machine prints exactly the prescribed layout *)
Theorem pretty_is_layout : forall (scalar key : Type) pscalar pkey (v : Pretty.jv scalar key) st,
  exists h, Pretty.run scalar key pscalar pkey st (Pretty.calls scalar key v)
    = {| cur := cur st; hasv := h; out := out st ++ Pretty.pretty scalar key pscalar pkey (cur st) v |}.
Proof. intros scalar key pscalar pkey v st. exact (formatter_is_layout scalar key pscalar pkey v st). Qed.

(* key sorting: ascending byte-wise key order, a permutation of the members (nothing added, dropped
   or changed), for every member list *)
Theorem sorted_keys_ascending : forall (A : Type) (key : A -> list N) l, Sorted (le_key A key) (isort A key l).
Proof. exact isort_sorted. Qed.
Theorem sorted_keys_same_members : forall (A : Type) (key : A -> list N) l, Permutation l (isort A key l).
Proof. exact isort_perm. Qed.

(* closed form of the fixpoint: what the reference parser reads back from a compact serialization
   serializes to the same bytes again *)
Theorem compact_serialization_is_a_fixpoint : forall v, SerClosed.wf (SerClosed.erase v) ->
  exists v', Ref.ref_text true (ser_compact v) = Some (v', 0%nat, length (ser_compact v)) /\ ser_compact v' = ser_compact v.
Proof. exact SerClosed.ser_compact_fixpoint. Qed.
