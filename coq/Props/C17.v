(* C17 -- results do not depend on the SIMD backend compiled in. Statements only.
   Every model in this development is written against the scalar, lane-wise meaning of the vector
   primitives (Model/Simd.v); both builds of the library are compared with those definitions and
   with each other, case by case, in the correspondence run. *)
From Coq Require Import List NArith Arith Bool.
From SonicV Require Import Base.Blocks Model.Simd Model.PrefixXor Model.Bitmap.
Import ListNotations.
Local Close Scope N_scope.
Local Open Scope nat_scope.

(* a vector compare against a splatted byte followed by movemask + trailing_zeros is "first byte with
   the property", for every lane count *)
Theorem eq_mask_locates_first : forall c l, tz (mask_eq l (repeat c (length l))) = find_first (fun x => N.eqb x c) l.
Proof. exact eq_splat_first. Qed.
Theorem le_mask_locates_first : forall c l, tz (mask_le_u l (repeat c (length l))) = find_first (fun x => N.leb x c) l.
Proof. exact le_splat_first. Qed.

(* the portable prefix_xor (shift-xor ladder) equals the carry-less-multiply specification *)
Theorem prefix_xor_backends_agree : forall x, length x = 64 -> forall i, i < 64 ->
  bit (prefix_xor_fallback x) i = bit (prefix_xor_spec false x) i.
Proof. exact prefix_xor_fallback_correct. Qed.

(* the escaped-character bitmap is the same function on 32- and 64-bit words (u32 / u64 variants) *)
Theorem escaped_bits_any_width : forall prev bs, bs <> [] -> Nat.even (length bs) = true ->
  get_escaped prev bs = escaped_spec prev bs.
Proof. exact get_escaped_correct. Qed.
