(* C12 -- lazy iterators yield exactly the members of the container, then stop. Statements only. *)
From Coq Require Import List Bool Arith NArith.
From SonicV Require Import Model.Latch Model.SkipAll Model.Skip Spec.Ref Model.IterSound Model.IterObjSound.
From SonicV Require Model.IterComplete.
Import ListNotations.

(* after yielding an error or the end an iterator yields nothing more, for every poll sequence *)
Theorem iterator_latched : forall (S : Type) (inner : S -> S * poll) n s, latched (polls S inner n s) = true.
Proof. exact polls_latched. Qed.

(* each element a checked iterator yields was stepped over by the validating skipper: it is
   whitespace followed by a well-formed value *)
Theorem yielded_element_is_value : forall fuel l rest, skip_value fuel l = Some rest ->
  exists w v, l = w ++ v ++ rest /\ all_ws w /\ Value v.
Proof. exact skip_value_sound. Qed.

(* the reference iterators (what every checked iterator transcript is compared with), on arbitrary
   bytes: every item is a well-formed value located exactly at its span inside the input, and the
   transcript is items followed by exactly one terminal *)
Theorem reference_array_items_located : forall l k a b, In (IOk k a b) (ref_array_iter l) -> located l a b.
Proof. exact array_iterator_items_located. Qed.
Theorem reference_array_transcript_shape : forall l, shape (ref_array_iter l) = true.
Proof. exact array_iterator_shape. Qed.
Theorem reference_object_items_located : forall l k a b, In (IOk k a b) (ref_object_iter l) -> located l a b.
Proof. exact object_iterator_items_located. Qed.
Theorem reference_object_transcript_shape : forall l, shape (ref_object_iter l) = true.
Proof. exact object_iterator_shape. Qed.

(* ... and on a text the strict reference parser accepts as an array (object), the reference iterator
   yields, in order, exactly one item per element (member) of the parsed tree, with that element's span
   (and the member's decoded key), and then the end marker *)
Theorem reference_array_iterator_yields_the_elements : forall l xs a b, utf8_valid l = true ->
  ref_text true l = Some (Ref.JArr xs, a, b) -> ref_array_iter l = map IterComplete.arr_item xs ++ [IEnd].
Proof. exact IterComplete.array_iterator_complete. Qed.
Theorem reference_object_iterator_yields_the_members : forall l ms a b, utf8_valid l = true ->
  ref_text true l = Some (Ref.JObj ms, a, b) -> ref_object_iter l = map IterComplete.obj_item ms ++ [IEnd].
Proof. exact IterComplete.object_iterator_complete. Qed.
