(* C12 -- lazy iterators yield exactly the members of the container, then stop. Statements only. *)
From Coq Require Import List Bool Arith NArith.
From SonicV Require Import Model.Latch Model.SkipAll Model.Skip.
Import ListNotations.

(* after yielding an error or the end an iterator yields nothing more, for every poll sequence *)
Theorem iterator_latched : forall (S : Type) (inner : S -> S * poll) n s, latched (polls S inner n s) = true.
Proof. exact polls_latched. Qed.

(* each element a checked iterator yields was stepped over by the validating skipper: it is
   whitespace followed by a well-formed value *)
Theorem yielded_element_is_value : forall fuel l rest, skip_value fuel l = Some rest ->
  exists w v, l = w ++ v ++ rest /\ all_ws w /\ Value v.
Proof. exact skip_value_sound. Qed.
