(* C12 -- lazy iterators yield exactly the members of the container, then stop. Statements only. *)
From Coq Require Import List Bool Arith NArith.
From SonicV Require Import Model.Latch Model.SkipAll Model.Skip Spec.Ref Model.IterSound Model.IterObjSound.
Import ListNotations.

(* after yielding an error or the end an iterator yields nothing more, for every poll sequence *)
Theorem iterator_latched : forall (S : Type) (inner : S -> S * poll) n s, latched (polls S inner n s) = true.
Proof. exact polls_latched. Qed.

(* each element a checked iterator yields was stepped over by the validating skipper: it is
   whitespace followed by a well-formed value *)
Theorem yielded_element_is_value : forall fuel l rest, skip_value fuel l = Some rest ->
  exists w v, l = w ++ v ++ rest /\ all_ws w /\ Value v.
Proof. exact skip_value_sound. Qed.

(* the reference iterators (what every checked iterator transcript is compared with), on arbitrary
   bytes: every item is a well-formed value located exactly at its span inside the input, and the
   transcript is items followed by exactly one terminal *)
Theorem reference_array_items_located : forall l k a b, In (IOk k a b) (ref_array_iter l) -> located l a b.
Proof. exact array_iterator_items_located. Qed.
Theorem reference_array_transcript_shape : forall l, shape (ref_array_iter l) = true.
Proof. exact array_iterator_shape. Qed.
Theorem reference_object_items_located : forall l k a b, In (IOk k a b) (ref_object_iter l) -> located l a b.
Proof. exact object_iterator_items_located. Qed.
Theorem reference_object_transcript_shape : forall l, shape (ref_object_iter l) = true.
Proof. exact object_iterator_shape. Qed.
