(* C03 -- a parsed document equals the reference data model of its text. Statements only. *)
From Coq Require Import List NArith Arith.
From SonicV Require Import Model.Visitor Model.NodeBudget Model.Meta Model.Inplace.
Import ListNotations.
Local Close Scope N_scope.
Local Open Scope nat_scope.

(* the DOM visitor turns the parser's event stream for any value into exactly the node of that value
   (nesting, order, duplicates) and restores its parent pointer *)
Theorem visitor_builds_the_tree : forall (scalar key : Type) (v : Visitor.jv scalar key) (st : Visitor.vis scalar key),
  Visitor.run scalar key st (Visitor.events scalar key v)
  = Some {| Visitor.stack := Visitor.stack scalar key st ++ [Visitor.node_of scalar key v]; Visitor.parent := Visitor.parent scalar key st |}.
Proof. intros scalar key v st. exact (Visitor.visitor_builds_node scalar key v st). Qed.

(* the node buffer of len/2+2 entries never refuses a push for a document that fits the text *)
Theorem node_budget : forall v total, NodeBudget.len v <= total -> 1 + NodeBudget.peak v <= total / 2 + 2.
Proof. exact NodeBudget.node_budget_sufficient. Qed.

(* packed node metadata round-trips while the child index fits 29 bits ... *)
Theorem meta_word_roundtrip : forall kind idx len, (kind < 8)%N -> (idx < 2 ^ 29)%N -> (len < 2 ^ 32)%N ->
  unpack_idx (pack kind idx len) = idx /\ unpack_len (pack kind idx len) = len.
Proof. exact meta_roundtrip. Qed.
(* ... and does not beyond that, although inputs up to 4 GB are admitted (known finding F14) *)
Theorem meta_word_roundtrip_refuted : exists kind idx len, (kind < 8)%N /\ (idx < 2 ^ 32)%N /\ (len < 2 ^ 32)%N /\ unpack_idx (pack kind idx len) <> idx.
Proof. exact meta_roundtrip_refuted. Qed.
