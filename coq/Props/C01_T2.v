(* C01, statements about the source functions as translated on every run (T2, Gen/Funcs.v): None is a panic
   of the build with overflow checks and debug assertions. Statements only. *)
From Coq Require Import ZArith List Bool.
From SonicV Require Import Base.RustInt Gen.Funcs Model.FuncsNum Model.FuncsUni Model.FuncsMisc.
Import ListNotations.
Open Scope Z_scope.

(* sonic-number/src/lemire.rs compute_float::<f64>: for every i64 exponent and u64 significand no arithmetic
   overflow, shift overflow, table index out of range or failed debug assertion; the result can be assembled *)
Theorem eisel_lemire_never_panics : forall q w, - 2 ^ 63 <= q < 2 ^ 63 -> 0 <= w < W64 ->
  exists r, compute_float_f64 q w = Some r /\ fp_ok r.
Proof. exact compute_float_never_panics. Qed.

(* src/util/unicode.rs codepoint_to_utf8: writes at most the first four bytes of its output buffer, leaves
   the rest untouched, for every u32 *)
Theorem utf8_encoder_stays_in_four_bytes : forall cp b0 b1 b2 b3 rest, 0 <= cp <= 1114111 ->
  codepoint_to_utf8 cp (b0 :: b1 :: b2 :: b3 :: rest) =
    Some (Z.of_nat (length (enc_Z cp)), enc_Z cp ++ skipn (length (enc_Z cp)) (b0 :: b1 :: b2 :: b3 :: rest)).
Proof. exact codepoint_to_utf8_translated. Qed.
Theorem utf8_encoder_rejects_without_writing : forall cp buf, 1114111 < cp -> codepoint_to_utf8 cp buf = Some (0, buf).
Proof. exact codepoint_to_utf8_rejects. Qed.

(* hex_to_u32_nocheck: every table index is in range for every four bytes *)
Theorem hex_reader_total : forall a b c d, 0 <= a < 256 -> 0 <= b < 256 -> 0 <= c < 256 -> 0 <= d < 256 ->
  hex_to_u32_nocheck [a; b; c; d] =
    Some (Z.of_N (Model.TablesDefs.hex_to_u32 (Z.to_N a) (Z.to_N b) (Z.to_N c) (Z.to_N d))).
Proof. exact hex_to_u32_translated. Qed.

(* BitMask::clear_high_bits panics (debug assertion) exactly outside its documented domain *)
Theorem clear_high_bits_domain : forall m n, 64 < n -> bitmask_u64_clear_high_bits m n = None.
Proof. exact bitmask_u64_clear_high_bits_domain. Qed.
