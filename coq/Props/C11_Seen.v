(* C11 -- get_many as the code stands after the repair of F37 (a repeated member name is stepped over). Statements only. *)
From Coq Require Import List Arith.
From SonicV Require Import Model.Many Model.ManySeen.
From SonicV Require Model.ManyBuild Model.ManyComplete Model.ManySeenComplete.
Import ListNotations.

(* every slot the search fills holds exactly what single-path lookup (first occurrence) finds for that slot's
   path: for EVERY document tree, repeated member names included, every pointer tree, every counter *)
Theorem get_many_slots_sound_on_every_document : forall (key : Type) (keq : forall a b : key, {a = b} + {a <> b}) fuel
  t v out remain out' rem', rec2 key keq fuel t v out remain = Some (out', rem') -> sound key keq (slots key t) v out out'.
Proof. intros key keq fuel. exact (proj1 (get_many_sound_every_document key keq fuel)). Qed.

(* without repeated names the list of walked nodes never matters: the search is the one of Model/Many.v *)
Theorem seen_is_invisible_without_repeats : forall (key : Type) (keq : forall a b : key, {a = b} + {a <> b}) fuel t v out remain,
  dupfree key v -> rec2 key keq fuel t v out remain = rec key keq fuel t v out remain.
Proof. intros key keq fuel. exact (proj1 (rec2_is_rec_without_repeats key keq fuel)). Qed.

(* all paths resolve => the search over the tree built by add_path succeeds, uses up the counter exactly, and
   slot i holds what single-path lookup finds for path i *)
Theorem get_many_agrees_with_get_as_repaired : forall (key : Type) (keq : forall a b : key, {a = b} + {a <> b}) (paths : list (list key)) v,
  dupfree key v -> (forall p, In p paths -> lookup key keq v p <> None) ->
  exists fuel out', rec2 key keq fuel (ManyBuild.build key keq paths) v (fun _ => None) (length paths) = Some (out', 0) /\
    forall i p, nth_error paths i = Some p -> out' i = lookup key keq v p.
Proof. exact get_many_seen_agrees_with_get. Qed.

(* completeness for EVERY document: a tree with distinct sibling names whose paths all resolve, a counter at least the
   number of slots => the search succeeds, decreases the counter by exactly that number, fills every slot, un-fills none *)
Theorem get_many_search_complete_on_every_document : forall (key : Type) (keq : forall a b : key, {a = b} + {a <> b}) t,
  ManyComplete.wf key t -> forall v out remain, ManyComplete.resolves key keq t v -> ManyComplete.need key t <= remain ->
  exists fuel out', rec2 key keq fuel t v out remain = Some (out', remain - ManyComplete.need key t) /\
    ManyComplete.keeps key out out' /\ ManyComplete.filled key (slots key t) out'.
Proof. exact ManySeenComplete.rec2_complete. Qed.

(* C11's first sentence on the model, without any restriction on the document: all paths resolve individually =>
   the search over the tree built by add_path succeeds with the counter used up exactly, and slot i holds what
   single-path lookup finds for path i *)
Theorem get_many_agrees_with_get_on_every_document : forall (key : Type) (keq : forall a b : key, {a = b} + {a <> b}) (paths : list (list key)) v,
  (forall p, In p paths -> lookup key keq v p <> None) ->
  exists fuel out', rec2 key keq fuel (ManyBuild.build key keq paths) v (fun _ => None) (length paths) = Some (out', 0) /\
    forall i p, nth_error paths i = Some p -> out' i = lookup key keq v p.
Proof. exact ManySeenComplete.get_many_correct_on_every_document. Qed.

(* the search without the list (the code before the repair): on {0:{1:a,1:b},2:c} with paths 0.1 and 2 it ends
   "complete" with slot 0 = b where get finds a, and slot 1 empty where get finds c (finding F37) *)
Theorem get_many_before_the_repair_refuted :
  exists out', rec nat Nat.eq_dec 10 f37_tree f37_doc (fun _ => None) 2 = Some (out', 0) /\
    out' 0 = Some (JS _ 2) /\ lookup nat Nat.eq_dec f37_doc [0; 1] = Some (JS _ 1) /\
    out' 1 = None /\ lookup nat Nat.eq_dec f37_doc [2] = Some (JS _ 4).
Proof. exact get_many_without_seen_refuted. Qed.
