(* C02 -- validating entry points accept exactly the well-formed JSON texts.
   Statements only; proofs live in Model/. *)
From Coq Require Import List NArith Arith.
From SonicV Require Import Spec.Ref Model.SkipStr Model.SkipNum Model.Skip Model.SkipAll Model.RefSound Model.SkipComplete Model.RefComplete Model.StrictStr Model.StrictVal.
Import ListNotations.
Open Scope N_scope.

(* whatever the validating skipper accepts, for arbitrary bytes, is whitespace, one RFC 8259 value,
   whitespace (strings with checked hex digits: the F2 repair) *)
Theorem skip_accepts_only_wf : forall l, skip_text l = true ->
  exists w1 v w2, l = w1 ++ v ++ w2 /\ all_ws w1 /\ Value v /\ all_ws w2.
Proof. exact skip_text_sound. Qed.

(* strings: the skipper is sound and complete for the RFC string grammar *)
Theorem string_skip_sound : forall fuel l rest, skip_str true fuel l = Some rest ->
  exists body, l = body ++ 34 :: rest /\ str_body body.
Proof. exact skip_sound_strict. Qed.
Theorem string_skip_complete : forall strict body rest fuel, str_body body -> (length body + 1 < fuel)%nat ->
  skip_str strict fuel (body ++ 34 :: rest) = Some rest.
Proof. exact skip_complete. Qed.

(* numbers: do_skip_number accepts exactly the RFC numbers *)
Theorem number_skip_sound : forall first l rest, (first = 45 \/ digit first = true) -> skip_num first l = Some rest ->
  exists num, first :: l = num ++ rest /\ is_number num.
Proof. exact skip_num_sound. Qed.
Theorem number_skip_complete : forall num rest, is_number num -> stops rest ->
  exists first l, num ++ rest = first :: l /\ skip_num first l = Some rest.
Proof. exact skip_num_complete. Qed.

(* the code before the F2 repair accepted a string that is not an RFC string: kept as the record of
   why the strict skipper is the model *)
Theorem unrepaired_string_skip_refuted : exists body rest, skip_str false 100 (body ++ 34 :: rest) = Some rest /\ ~ str_body body.
Proof. exact skip_sound_refuted. Qed.

(* the executable reference every acceptance answer is compared with (Spec/Ref.v: ref_text, strict or
   not) accepts only whitespace + one RFC 8259 value + whitespace, and reports its exact extent *)
Theorem reference_accepts_only_wf : forall strict l v a b, ref_text strict l = Some (v, a, b) ->
  exists w1 tok w2, l = w1 ++ tok ++ w2 /\ all_ws w1 /\ Value tok /\ all_ws w2 /\ a = length w1 /\ b = (a + length tok)%nat.
Proof. exact ref_text_sound. Qed.

(* ... and it accepts all of them: every RFC 8259 value, preceded by whitespace and followed by a byte
   that may follow a value, is skipped exactly, with fuel bounded by its length ... *)
Theorem skip_accepts_every_value : forall v w rest fuel, Value v -> all_ws w -> follows rest -> (length v <= fuel)%nat ->
  skip_value fuel (w ++ v ++ rest) = Some rest.
Proof. exact skip_value_complete. Qed.
(* ... so the model of the validate-and-skip entry points accepts EXACTLY whitespace value whitespace *)
Theorem skip_accepts_exactly_wf : forall l, skip_text l = true <->
  exists w1 v w2, l = w1 ++ v ++ w2 /\ all_ws w1 /\ Value v /\ all_ws w2.
Proof. exact skip_text_iff. Qed.

(* the executable reference recogniser (Spec/Ref.v, what every validate-and-skip verdict of the
   implementation is compared with) IS the verified skipper on every byte string, hence accepts
   exactly whitespace value whitespace *)
Theorem reference_is_the_verified_recogniser : forall l, rfc_text l = skip_text l.
Proof. exact rfc_text_is_skip_text. Qed.
Theorem reference_accepts_exactly_wf : forall l, rfc_text l = true <->
  exists w1 v w2, l = w1 ++ v ++ w2 /\ all_ws w1 /\ Value v /\ all_ws w2.
Proof. exact rfc_text_iff. Qed.

(* ---------- the fully-decoding entry points ---------- *)
(* strings: the strict reference decoder accepts exactly the RFC string bodies in which every \u escape
   denotes a scalar value (surrogates only as a high surrogate immediately followed by a low one) *)
Theorem strict_string_decoder_accepts_exactly : forall r rest,
  (exists d h, Ref.str_body true (S (length r)) r = Some (d, h, rest)) <-> (exists body, r = body ++ 34 :: rest /\ sbody body).
Proof. exact strict_decoder_iff. Qed.
(* texts: the strict reference parser (what every full-decoding verdict is compared with, together
   with UTF-8 validity and finiteness of the numbers) accepts exactly whitespace, one value whose strings
   are all strict, whitespace *)
Theorem strict_reference_accepts_exactly : forall l, (exists v a b, ref_text true l = Some (v, a, b)) <->
  (exists w1 tok w2, l = w1 ++ tok ++ w2 /\ all_ws w1 /\ SValue tok /\ all_ws w2).
Proof. exact strict_text_iff. Qed.
(* and a strict value is in particular an RFC 8259 value: full decoding accepts less, never more *)
Theorem strict_values_are_values : forall v, SValue v -> Value v.
Proof. exact (proj1 strict_value_is_value). Qed.
