(* C05 -- serialization always emits well-formed JSON that denotes the serialized value.
   Statements only. *)
From Coq Require Import List NArith Arith Bool.
From SonicV Require Import Base.Blocks Model.Escape Model.TablesDefs Model.TablesOk Model.Pretty Model.SerRoundTrip Gen.Tables Spec.Ref Model.EscRoundTrip Model.SerAll.
From SonicV Require Model.SerClosed Model.PrettyClosed.
Import ListNotations.
Local Close Scope N_scope.
Local Open Scope nat_scope.

(* format_string's 32-byte block algorithm (copy a block, find the first byte that needs an escape
   with a bitmask, emit escapes while the next byte needs one, continue) equals the per-byte
   specification escaper, for every string length and every NEED_ESCAPED / QUOTE_TAB *)
Theorem escape_blocks_are_spec : forall (need : N -> bool) (quote : N -> list N) fuel s, length s < fuel ->
  Escape.fmt need quote fuel s = Escape.spec_escape need quote s.
Proof. exact fmt_correct. Qed.

(* the tables regenerated from the source on this run: exactly quote, backslash and the C0 controls
   are escaped, with exactly the short forms and \u00XX *)
Theorem need_escaped_table : forall c, (c < 256)%N -> negb (tab NEED_ESCAPED c =? 0)%N = need_spec c.
Proof. exact need_escaped_correct. Qed.
Theorem quote_table : forall c, (c < 256)%N -> need_spec c = true -> quote_entry c = quote_spec c.
Proof. exact quote_tab_correct. Qed.

(* the pretty formatter prints exactly the prescribed layout: pretty output differs from compact
   output only by the indentation whitespace *)
Theorem pretty_layout : forall (scalar key : Type) pscalar pkey (v : Pretty.jv scalar key) st,
  exists h, Pretty.run scalar key pscalar pkey st (Pretty.calls scalar key v)
    = {| cur := cur st; hasv := h; out := out st ++ Pretty.pretty scalar key pscalar pkey (cur st) v |}.
Proof. intros scalar key pscalar pkey v st. exact (formatter_is_layout scalar key pscalar pkey v st). Qed.

(* compact output of any tree parses back to that tree *)
Theorem compact_output_denotes_the_value : forall (scalar key : Type) print_scalar parse_scalar print_key parse_key,
  (forall s rest, follow_ok rest -> parse_scalar (print_scalar s ++ rest) = Some (s, rest)) ->
  (forall s : scalar, exists c r, print_scalar s = c :: r /\ structural c = false) ->
  (forall k : key, exists c r, print_key k = c :: r /\ structural c = false) ->
  (forall k rest, parse_key (print_key k ++ 58%N :: rest) = Some (k, 58%N :: rest)) ->
  forall v fuel rest, (size scalar key v < fuel) -> follow_ok rest ->
  parse scalar key parse_scalar parse_key fuel (print scalar key print_scalar print_key v ++ rest) = Some (v, rest).
Proof.
  intros scalar key ps pas pk pak H1 H2 H3 H4 v.
  exact (parse_print scalar key ps pas pk pak H1 H2 H3 H4 v).
Qed.

(* what the escaper writes for ANY byte string, the reference string decoder reads back as that
   string (and reports an escape exactly when one was written), whatever follows the closing quote *)
Theorem escaped_string_decodes_back : forall s fuel rest, length s < fuel ->
  Ref.str_body true fuel (escape s ++ 34%N :: rest) = Some (s, existsb need_spec s, rest).
Proof. exact decode_escape. Qed.

(* closed form, against the executable reference parser itself: the compact serialization of ANY
   reference tree whose numbers are RFC 8259 literals (strings: arbitrary bytes) is accepted by the
   fully-decoding reference parser, which consumes exactly the text and returns the same plain tree *)
Theorem compact_serialization_denotes_the_tree : forall v, SerClosed.wf (SerClosed.erase v) ->
  exists v', Ref.ref_text true (ser_compact v) = Some (v', 0, length (ser_compact v)) /\ SerClosed.erase v' = SerClosed.erase v.
Proof. exact SerClosed.ser_compact_reads_back. Qed.

(* the pretty serialization is read back by the reference parser as the same tree, hence pretty and
   compact output denote the same tree: they differ only by insignificant whitespace *)
Theorem pretty_serialization_denotes_the_tree : forall v, SerClosed.wf (SerClosed.erase v) ->
  exists v' a b, Ref.ref_text true (ser_pretty v) = Some (v', a, b) /\ SerClosed.erase v' = SerClosed.erase v.
Proof. exact PrettyClosed.ser_pretty_reads_back. Qed.
Theorem pretty_and_compact_agree : forall v, SerClosed.wf (SerClosed.erase v) ->
  exists vp ap bp vc, Ref.ref_text true (ser_pretty v) = Some (vp, ap, bp) /\
                      Ref.ref_text true (ser_compact v) = Some (vc, 0, length (ser_compact v)) /\ SerClosed.erase vp = SerClosed.erase vc.
Proof. exact PrettyClosed.pretty_and_compact_denote_the_same_tree. Qed.
