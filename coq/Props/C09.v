(* C09 -- string literals decode exactly, at every length and alignment. Statements only. *)
From Coq Require Import List NArith Arith Bool.
From SonicV Require Import Base.Blocks Spec.Ref Model.SkipStr Model.Inplace Model.TablesDefs Model.TablesOk Gen.Tables Model.EscRoundTrip.
From SonicV Require Model.Utf8 Model.Lossy.
From SonicV Require Model.InplaceClosed.
Import ListNotations.
Local Close Scope N_scope.
Local Open Scope nat_scope.

(* 32-byte block scanning finds the same first interesting byte as byte-by-byte scanning, for every
   block width, classifier, input length and start offset: the result of every string scanner does
   not depend on the literal's length or offset *)
Theorem block_scan_is_byte_scan : forall (interesting : N -> bool) fuel w l, 0 < w -> length l < fuel ->
  find_blocks interesting fuel w l = find_first interesting l.
Proof. exact find_blocks_correct. Qed.
Theorem bitmask_tz_is_first : forall (interesting : N -> bool) l, tz (mask_of interesting l) = find_first interesting l.
Proof. exact tz_mask_is_find_first. Qed.

(* the in-place decoder over the padded buffer equals the copying decoder, writes only behind its
   read position and keeps the unread bytes intact, for every escape form that does not grow *)
Theorem inplace_decode_correct : forall (esc : list N -> option (list N * nat)),
  (forall l o n, esc l = Some (o, n) -> 1 <= n /\ n <= length l /\ length o <= n) ->
  forall fuel b0 b src dst out rest,
  dst <= src -> skipn src b = skipn src b0 -> length b = length b0 ->
  dec esc fuel (skipn src b0) = Some (out, rest) ->
  exists b' src', inplace esc fuel b src dst = Done (dst + length out) b' src' /\
     firstn (dst + length out) b' = firstn dst b ++ out /\
     skipn src' b' = rest /\ skipn src' b' = skipn src' b0 /\
     dst + length out < src' /\ length b' = length b0.
Proof. exact inplace_correct. Qed.

(* tables regenerated from the source on this run *)
Theorem escape_letters_correct : forall c, (c < 256)%N ->
  tab ESCAPED_TAB c = match Ref.simple_escape c with Some o => o | None => 0%N end.
Proof. exact escaped_tab_correct. Qed.
Theorem hex_digits_correct : forall a b c d, (a < 256)%N -> (b < 256)%N -> (c < 256)%N -> (d < 256)%N ->
  forall v, hex4 a b c d = Some v -> hex_to_u32 a b c d = v.
Proof. exact hex_table_valid. Qed.

(* the string scanner accepts exactly the RFC string bodies *)
Theorem string_scanner_sound : forall fuel l rest, skip_str true fuel l = Some rest ->
  exists body, l = body ++ 34%N :: rest /\ SkipStr.str_body body.
Proof. exact skip_sound_strict. Qed.
Theorem string_scanner_complete : forall strict body rest fuel, SkipStr.str_body body -> (length body + 1 < fuel) ->
  skip_str strict fuel (body ++ 34%N :: rest) = Some rest.
Proof. exact skip_complete. Qed.

(* the reference decoder inverts the escaper on every byte string: decoding does not depend on what
   follows the literal, and has_escape is reported exactly when an escape is present *)
Theorem decode_inverts_escape : forall s fuel rest, length s < fuel ->
  Ref.str_body true fuel (EscRoundTrip.escape s ++ 34%N :: rest) = Some (s, existsb need_spec s, rest).
Proof. exact decode_escape. Qed.

(* closed over the concrete escape decoder of the reference: every escape form shrinks, the copying
   decoder is the reference string decoder, so decoding in place yields exactly the reference decoding,
   behind the read position, with the unread bytes untouched *)
Theorem every_escape_shrinks : forall l o n, InplaceClosed.esc_strict l = Some (o, n) -> 1 <= n /\ n <= length l /\ length o <= n.
Proof. exact InplaceClosed.esc_strict_shrinks. Qed.
Theorem copying_decoder_is_reference : forall fuel l,
  dec InplaceClosed.esc_strict fuel l = InplaceClosed.proj_dr (Ref.str_body true fuel l).
Proof. exact InplaceClosed.dec_is_reference. Qed.
Theorem inplace_decoder_is_reference : forall fuel b0 b src dst out h rest,
  dst <= src -> skipn src b = skipn src b0 -> length b = length b0 ->
  Ref.str_body true fuel (skipn src b0) = Some (out, h, rest) ->
  exists b' src', inplace InplaceClosed.esc_strict fuel b src dst = Done (dst + length out) b' src' /\
     firstn (dst + length out) b' = firstn dst b ++ out /\
     skipn src' b' = rest /\ skipn src' b' = skipn src' b0 /\
     dst + length out < src' /\ length b' = length b0.
Proof. exact InplaceClosed.inplace_decodes_reference. Qed.

(* UTF-8: the reference validator is the byte-wise automaton of the Unicode standard's table 3-7; the
   encoding of every scalar value is accepted; and strict decoding of a literal taken from valid UTF-8
   input yields valid UTF-8 (raw bytes are copied in order, escapes are ASCII and are replaced by the
   encoding of a scalar value) -- what building a &str without re-validation relies on *)
Theorem utf8_validator_is_the_automaton : forall l, utf8_valid l = Utf8.is_S0 (Utf8.run Utf8.S0 l).
Proof. exact Utf8.utf8_valid_is_automaton. Qed.
Theorem scalar_encodings_are_valid : forall cp, Utf8.is_scalar cp -> Utf8.run Utf8.S0 (utf8_encode cp) = Some Utf8.S0.
Proof. exact Utf8.run_encode. Qed.
Theorem decoded_text_is_valid_utf8 : forall fuel l d h rest,
  utf8_valid l = true -> Ref.str_body true fuel l = Some (d, h, rest) -> utf8_valid d = true /\ utf8_valid rest = true.
Proof. exact Utf8.decoded_string_is_valid_utf8. Qed.

(* lossy mode: the replacement conversion always yields valid UTF-8, changes nothing in valid UTF-8,
   and a literal the strict decoder accepts decodes to the same text in lossy mode *)
Theorem lossy_conversion_is_always_valid : forall l, utf8_valid (utf8_lossy l) = true.
Proof. exact Lossy.lossy_output_is_valid. Qed.
Theorem lossy_conversion_keeps_valid_text : forall l, utf8_valid l = true -> utf8_lossy l = l.
Proof. exact Lossy.lossy_is_identity_on_valid. Qed.
Theorem lossy_mode_changes_nothing_else : forall lit d h,
  decode_literal false lit = Some (d, h) -> decode_literal true lit = Some (d, h).
Proof. exact Lossy.lossy_literal_agrees_with_strict. Qed.
