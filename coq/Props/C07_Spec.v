(* C07, the specification itself: the exact-decimal oracle (Spec/Num.v) against Flocq's IEEE 754 rounding.
   Statements only. *)
From Coq Require Import ZArith Reals.
From Flocq Require Import Core.Core.
From SonicV Require Import Spec.Num Model.NumSpec Model.NumFlocq.
Open Scope Z_scope.

(* the round-half-even quotient of the specification is Flocq's ZnearestE of the ratio *)
Theorem spec_quotient_is_ZnearestE : forall a b, 0 <= a -> 0 < b -> ZnearestE (IZR a / IZR b) = rne_div a b.
Proof. exact ZnearestE_ratio. Qed.
(* the binade the specification selects is Flocq's magnitude ... *)
Theorem spec_binade_is_magnitude : forall num den, 0 < num -> 0 < den ->
  mag_val radix2 _ (mag radix2 (IZR num / IZR den)) = binade num den + 1.
Proof. exact binade_is_mag. Qed.
(* ... and for every positive rational in the normal range of binary64 the significand round_rat computes, scaled by
   its binade, IS round-to-nearest-even in the format FLT(-1074, 53) *)
Theorem spec_rounding_is_IEEE_nearest_even : forall num den, 0 < num -> 0 < den -> -1022 <= binade num den ->
  let s := binade num den - 52 in
  let q := if 0 <=? s then rne_div num (den * 2 ^ s) else rne_div (num * 2 ^ (- s)) den in
  round radix2 (FLT_exp (-1074) 53) ZnearestE (IZR num / IZR den) = (IZR q * bpow radix2 s)%R.
Proof. exact round_rat_quotient_is_flocq. Qed.
(* both ranges: the quantity round_rat 53 1023 computes before packing bits (the subnormal quotient in units of
   2^-1074, the normal one scaled by its binade) is Flocq's rounding of the exact rational, for every positive rational *)
Theorem spec_rounding_is_IEEE_everywhere : forall num den, 0 < num -> 0 < den ->
  round radix2 (FLT_exp (-1074) 53) ZnearestE (IZR num / IZR den) =
    if binade num den <? -1022 then (IZR (rne_div (num * 2 ^ (53 - 1 - (1 - 1023))) den) * bpow radix2 (-1074))%R
    else let s := binade num den - 52 in
         (IZR (if 0 <=? s then rne_div num (den * 2 ^ s) else rne_div (num * 2 ^ (- s)) den) * bpow radix2 s)%R.
Proof. exact round_rat_is_flocq. Qed.
