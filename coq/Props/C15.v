(* C15 -- mutable DOM matches a plain array/map model under every operation history.
   Statements only. The reference (Model/DomOps.v) is what the implementation is compared with
   after every step of every generated history; the theorems are about the reference and about the
   one place where representation decides behaviour (promotion of an arena object to a map). *)
From Coq Require Import List NArith Arith.
From SonicV Require Import Model.DomOps Model.Promote Model.DomLens.
Import ListNotations.
Local Close Scope N_scope.

(* mutating one value never changes any other live value *)
Theorem isolation : forall s o j, j < length s -> target o <> Some j -> nth_error (fst (step s o)) j = nth_error s j.
Proof. exact step_frame. Qed.

(* operations the reference rejects leave all values as they were *)
Theorem rejected_ops_do_not_corrupt : forall s o, snd (step s o) = RReject -> fst (step s o) = s.
Proof. exact rejected_keeps_state. Qed.

(* copy-on-write promotion of an arena object (first match wins) to an owned map keeps every lookup,
   for documents without duplicate names ... *)
Theorem promotion_keeps_lookups : forall (key val : Type) (keq : forall a b : key, {a = b} + {a <> b}) ps,
  NoDup (map fst ps) -> forall k, promote key val keq ps k = get_first key val keq ps k.
Proof. exact promote_preserves_get. Qed.
(* ... and does not with them: known finding F6 *)
Theorem promotion_with_duplicates_refuted : forall (key val : Type) (keq : forall a b : key, {a = b} + {a <> b}) (a : key) (v1 v2 : val),
  v1 <> v2 -> promote key val keq [(a, v1); (a, v2)] a <> get_first key val keq [(a, v1); (a, v2)] a.
Proof. exact promote_refuted. Qed.

(* the reference model is a lens: what is written at a path is what a later read at that path
   returns, and a write resolves exactly where a read does *)
Theorem reference_write_then_read : forall p t x t', upd_at t p (fun _ => Some x) = Some t' -> get_at t' p = Some x.
Proof. exact write_then_read. Qed.
Theorem reference_write_resolves_iff_read : forall p t x,
  (exists t', upd_at t p (fun _ => Some x) = Some t') <-> (exists v, get_at t p = Some v).
Proof. exact write_resolves_iff_read. Qed.
