(* C01 -- safe entry points never panic, abort or touch invalid memory on any input.
   Statements only. PARTIAL: what is proved is the index / capacity / count / protocol arithmetic that
   decides safety, on the models; undefined behaviour inside unsafe blocks that happens not to crash,
   the allocator and SIMD loads are outside the reach of this technique and are only exercised by the
   correspondence run (every safe entry point on every generated input, allocation ledger, child
   process for deep nesting). *)
From Coq Require Import List NArith Arith.
From SonicV Require Import Model.Err Model.NodeBudget Model.Inplace Model.Meta Model.Arc Model.Cas Model.Latch.
Import ListNotations.
Local Close Scope N_scope.

(* rendering an error never indexes outside the input and never underflows *)
Theorem error_snippet_in_bounds : forall json index, index <= length json ->
  exists s e l r, syntax_bounds json index = Err.Ok (s, e, l, r) /\ s <= index <= e /\ e <= length json /\ l = index - s.
Proof. exact syntax_never_crashes. Qed.
Theorem error_index_within_input : forall a b len, parser_error_index a b len <= len.
Proof. exact parser_error_index_le. Qed.

(* the refusing node buffer (len/2 + 2 entries) is never too small for a document that fits the text *)
Theorem node_buffer_suffices : forall v total, NodeBudget.len v <= total -> 1 + peak v <= total / 2 + 2.
Proof. exact node_budget_sufficient. Qed.

(* in-place unescaping writes strictly behind its read position, inside the buffer, and leaves the
   unread bytes (and the padding behind them) untouched *)
Theorem inplace_writes_behind_reads : forall (esc : list N -> option (list N * nat)),
  (forall l o n, esc l = Some (o, n) -> 1 <= n /\ n <= length l /\ length o <= n) ->
  forall fuel b0 b src dst out rest,
  dst <= src -> skipn src b = skipn src b0 -> length b = length b0 ->
  Inplace.dec esc fuel (skipn src b0) = Some (out, rest) ->
  exists b' src', Inplace.inplace esc fuel b src dst = Inplace.Done (dst + length out) b' src' /\
     firstn (dst + length out) b' = firstn dst b ++ out /\
     skipn src' b' = rest /\ skipn src' b' = skipn src' b0 /\
     dst + length out < src' /\ length b' = length b0.
Proof. exact inplace_correct. Qed.

(* arena handles: never used after free, never freed twice, for every history *)
Theorem arena_memory_safe : forall os s, Arc.Inv s -> exists s', runh s os = Next s' /\ Arc.Inv s'.
Proof. exact history_safe. Qed.
(* lazily published caches: no null / dangling dereference under any schedule *)
Theorem cache_memory_safe : forall n sched i, nth_error (thr (Cas.run Strong (Cas.init n) sched)) i <> Some TCrash.
Proof. exact strong_no_crash. Qed.
