(* C01 -- safe entry points never panic, abort or touch invalid memory on any input.
   Statements only. PARTIAL: what is proved is the index / capacity / count / protocol arithmetic that
   decides safety, on the models; undefined behaviour inside unsafe blocks that happens not to crash,
   the allocator and SIMD loads are outside the reach of this technique and are only exercised by the
   correspondence run (every safe entry point on every generated input, allocation ledger, child
   process for deep nesting). *)
From Coq Require Import List NArith Arith.
From SonicV Require Import Model.Err Model.NodeBudget Model.Inplace Model.Meta Model.Arc Model.Cas Model.Latch.
From SonicV Require Spec.Ref Model.Utf8.
From Coq Require Import ZArith.
From SonicV Require Import Gen.Guards Gen.Tables Model.GuardsOk.
Import ListNotations.
Local Close Scope N_scope.

(* rendering an error never indexes outside the input and never underflows *)
Theorem error_snippet_in_bounds : forall json index, index <= length json ->
  exists s e l r, syntax_bounds json index = Err.Ok (s, e, l, r) /\ s <= index <= e /\ e <= length json /\ l = index - s.
Proof. exact syntax_never_crashes. Qed.
Theorem error_index_within_input : forall a b len, parser_error_index a b len <= len.
Proof. exact parser_error_index_le. Qed.

(* the refusing node buffer (len/2 + 2 entries) is never too small for a document that fits the text *)
Theorem node_buffer_suffices : forall v total, NodeBudget.len v <= total -> 1 + peak v <= total / 2 + 2.
Proof. exact node_budget_sufficient. Qed.

(* in-place unescaping writes strictly behind its read position, inside the buffer, and leaves the
   unread bytes (and the padding behind them) untouched *)
Theorem inplace_writes_behind_reads : forall (esc : list N -> option (list N * nat)),
  (forall l o n, esc l = Some (o, n) -> 1 <= n /\ n <= length l /\ length o <= n) ->
  forall fuel b0 b src dst out rest,
  dst <= src -> skipn src b = skipn src b0 -> length b = length b0 ->
  Inplace.dec esc fuel (skipn src b0) = Some (out, rest) ->
  exists b' src', Inplace.inplace esc fuel b src dst = Inplace.Done (dst + length out) b' src' /\
     firstn (dst + length out) b' = firstn dst b ++ out /\
     skipn src' b' = rest /\ skipn src' b' = skipn src' b0 /\
     dst + length out < src' /\ length b' = length b0.
Proof. exact inplace_correct. Qed.

(* arena handles: never used after free, never freed twice, for every history *)
Theorem arena_memory_safe : forall os s, Arc.Inv s -> exists s', runh s os = Next s' /\ Arc.Inv s'.
Proof. exact history_safe. Qed.
(* lazily published caches: no null / dangling dereference under any schedule *)
Theorem cache_memory_safe : forall n sched i, nth_error (thr (Cas.run Strong (Cas.init n) sched)) i <> Some TCrash.
Proof. exact strong_no_crash. Qed.

(* the same, for the reservation formula read from the source text on this run (lib/guards.py):
   json_len / G_NODE_DIV + G_NODE_ADD entries are enough for every document that fits the text *)
Theorem node_buffer_formula_in_source_suffices : forall v total, NodeBudget.len v <= total ->
  (Z.of_nat (1 + peak v) <= Z.of_nat total / G_NODE_DIV + G_NODE_ADD)%Z.
Proof. exact node_buffer_guard_suffices. Qed.

(* every index the number fast paths form into POW10_FLOAT and POWER_OF_FIVE_128, for every exponent
   that passes the guards found in the source on this run, is inside the table dumped on this run *)
Theorem float_table_indices_in_bounds :
  (0 <= - G_CL_LO < POW10_FLOAT_LEN /\ G_CL_SPLIT < POW10_FLOAT_LEN /\ G_CL_SPLIT_MUL < POW10_FLOAT_LEN /\
   G_CL_HI - G_CL_SPLIT_SUB < POW10_FLOAT_LEN /\ 0 < G_CL_SPLIT + 1 - G_CL_SPLIT_SUB /\
   0 <= (G_NF_LO + 1) + G_NF_IDX /\ (G_NF_HI - 1) + G_NF_IDX < POW5_LEN)%Z.
Proof. exact float_table_indices. Qed.

(* memory safety of the string results: the decoders hand out &str built without re-validation; the
   decoded bytes of a literal taken from valid UTF-8 input are valid UTF-8 *)
Theorem unchecked_str_construction_is_sound : forall fuel l d h rest,
  Ref.utf8_valid l = true -> Ref.str_body true fuel l = Some (d, h, rest) -> Ref.utf8_valid d = true /\ Ref.utf8_valid rest = true.
Proof. exact Utf8.decoded_string_is_valid_utf8. Qed.

(* block loads of the scanners stay inside the padding appended behind the text: the widest block found in
   the source on this run fits PADDING_SIZE as dumped from the crate on this run *)
Theorem block_loads_stay_in_the_padding : forall len i, (0 <= i < len -> i + G_MAX_BLOCK <= len + Z.of_N PADDING_SIZE)%Z.
Proof. exact padding_covers_block_loads. Qed.
