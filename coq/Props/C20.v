(* C20 -- errors locate themselves inside the input and end streams cleanly.
   Statements only; proofs live in Model/Err.v and Model/Latch.v. *)
From Coq Require Import List NArith Arith.
From SonicV Require Import Model.Err Model.Latch.
Import ListNotations.

(* line and column reported for an offset are exactly the line and column of that offset *)
Theorem linecol_is_pos_of : forall i data, i <= length data -> from_index i data = pos_of data i.
Proof. exact from_index_is_pos_of. Qed.

(* the index handed to Error::syntax by Parser::error never exceeds the input length *)
Theorem offset_le_len : forall error_index reader_index len, parser_error_index error_index reader_index len <= len.
Proof. exact parser_error_index_le. Qed.

(* rendering the snippet never indexes outside the input and never underflows: Display is total *)
Theorem display_total : forall json index, index <= length json ->
  exists s e l r, syntax_bounds json index = Ok (s, e, l, r) /\ s <= index <= e /\ e <= length json /\ l = index - s.
Proof. exact syntax_never_crashes. Qed.

(* after an error or the end, a stream deserializer / lazy iterator reports nothing further,
   for every behaviour of the underlying parser and every number of polls *)
Theorem stream_and_iterator_latched : forall (S : Type) (inner : S -> S * poll) n s, latched (polls S inner n s) = true.
Proof. exact polls_latched. Qed.

Check linecol_is_pos_of : forall i data, i <= length data -> from_index i data = pos_of data i.
Check offset_le_len : forall a b len, parser_error_index a b len <= len.
