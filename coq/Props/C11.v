(* C11 -- multi-path extraction agrees with single-path get. Statements only. *)
From Coq Require Import List Arith.
From SonicV Require Import Model.Many.
Import ListNotations.

(* every slot get_many fills holds exactly what single-path lookup finds for that slot's path
   (document tree without duplicate names; early exit included) *)
Theorem get_many_slots_sound : forall (key : Type) (keq : forall a b : key, {a = b} + {a <> b}) fuel
  t v out remain out' rem', dupfree key v -> rec key keq fuel t v out remain = Some (out', rem') ->
  sound key keq (slots key t) v out out'.
Proof. intros key keq fuel. exact (proj1 (get_many_sound key keq fuel)). Qed.
