(* C11 -- multi-path extraction agrees with single-path get. Statements only.
   `rec` (Model/Many.v) is the search as the code had it before the repair of F37: without the list of walked nodes.
   The statements of this file therefore assume documents without repeated member names; on those `rec` is the
   search of the current code (C11_Seen.seen_is_invisible_without_repeats), and C11_Seen.v states soundness,
   completeness and the end-to-end agreement for the current code on every document. *)
From Coq Require Import List Arith.
From SonicV Require Import Model.Many.
From SonicV Require Spec.Ref Model.MergeSpec Model.ManyComplete Model.ManyBuild.
Import ListNotations.

(* every slot get_many fills holds exactly what single-path lookup finds for that slot's path
   (document tree without duplicate names; early exit included) *)
Theorem get_many_slots_sound : forall (key : Type) (keq : forall a b : key, {a = b} + {a <> b}) fuel
  t v out remain out' rem', dupfree key v -> rec key keq fuel t v out remain = Some (out', rem') ->
  sound key keq (slots key t) v out out'.
Proof. intros key keq fuel. exact (proj1 (get_many_sound key keq fuel)). Qed.

(* completeness of the search: for a tree with distinct sibling keys (every subtree holding a slot) whose
   paths all resolve, and a counter at least the number of slots, the search succeeds, decreases the
   counter by exactly the number of slots, fills every slot and un-fills none *)
Theorem get_many_search_complete : forall (key : Type) (keq : forall a b : key, {a = b} + {a <> b}) t,
  ManyComplete.wf key t -> forall v out remain, dupfree key v -> ManyComplete.resolves key keq t v -> ManyComplete.need key t <= remain ->
  exists fuel out', rec key keq fuel t v out remain = Some (out', remain - ManyComplete.need key t) /\
    ManyComplete.keeps key out out' /\ ManyComplete.filled key (slots key t) out'.
Proof. exact ManyComplete.rec_complete. Qed.

(* PointerTree::add_path: the tree built from a list of paths has exactly one slot per path, slot i for the
   i-th path (repeated paths included), and distinct sibling keys *)
Theorem pointer_tree_slots : forall (key : Type) (keq : forall a b : key, {a = b} + {a <> b}) paths,
  Permutation.Permutation (slots key (ManyBuild.build key keq paths)) (combine (seq 0 (length paths)) paths) /\
  ManyBuild.wf_trie key (ManyBuild.build key keq paths).
Proof. exact ManyBuild.build_slots. Qed.

(* the whole of C11's first sentence on the model: all paths resolve => the search over the built tree
   succeeds, uses up the counter exactly, and slot i holds what single-path lookup finds for path i *)
Theorem get_many_agrees_with_get : forall (key : Type) (keq : forall a b : key, {a = b} + {a <> b}) (paths : list (list key)) v,
  dupfree key v -> (forall p, In p paths -> lookup key keq v p <> None) ->
  exists fuel out', rec key keq fuel (ManyBuild.build key keq paths) v (fun _ => None) (length paths) = Some (out', 0) /\
    forall i p, nth_error paths i = Some p -> out' i = lookup key keq v p.
Proof. exact ManyBuild.get_many_model_correct. Qed.

(* get_by_schema: the specification (Spec/Ref.v merge) keeps exactly the schema's keys in the schema's
   order; an absent key keeps its default, a present key holds the document's value (merged recursively
   under a non-empty object schema); any other schema or document kind yields the document's value *)
Theorem schema_keys_are_kept : forall f sm sms dms ms,
  Ref.merge (S f) (Ref.JObj (sm :: sms)) (Ref.JObj dms) = Ref.JObj ms -> map MergeSpec.mkey ms = map MergeSpec.mkey (sm :: sms).
Proof. exact MergeSpec.merged_keys_are_schema_keys. Qed.
Theorem schema_member_semantics : forall f sm sms dms k a b sv, In (k, a, b, sv) (sm :: sms) ->
  In (match Ref.assoc_first dms k with Some (_, _, dv) => (k, a, b, Ref.merge f sv dv) | None => (k, a, b, sv) end)
     (match Ref.merge (S f) (Ref.JObj (sm :: sms)) (Ref.JObj dms) with Ref.JObj ms => ms | _ => [] end).
Proof. exact MergeSpec.merged_member. Qed.
Theorem schema_of_other_kind_is_replaced : forall f sch doc,
  (match sch with Ref.JObj (_ :: _) => False | _ => True end) -> Ref.merge f sch doc = doc.
Proof. exact MergeSpec.merge_non_object_schema. Qed.
