(* C13 -- lazy values are faithful views of their source text. Statements only. *)
From Coq Require Import List NArith Arith.
From SonicV Require Import Model.SkipAll Model.Skip Model.LazyOwned Model.ValueEdges.
Import ListNotations.
Local Close Scope N_scope.
Local Open Scope nat_scope.

(* the span captured for a lazy value is whitespace followed by exactly one well-formed value *)
Theorem lazy_span_is_a_value : forall fuel l rest, skip_value fuel l = Some rest ->
  exists w v, l = w ++ v ++ rest /\ all_ws w /\ Value v.
Proof. exact skip_value_sound. Qed.

(* mutation of a loaded owned-lazy container: the touched element holds the new value, every other
   element is what it was *)
Theorem mutation_frame : forall (A : Type) i j (x : A) l, j <> i -> nth_error (replace A i x l) j = nth_error l j.
Proof. exact replace_frame. Qed.
Theorem mutation_hit : forall (A : Type) i (x : A) l, i < length l -> nth_error (replace A i x l) i = Some x.
Proof. exact replace_hit. Qed.
Theorem push_keeps_members : forall (A : Type) j (x : A) l, j < length l -> nth_error (push A x l) j = nth_error l j.
Proof. exact push_frame. Qed.

(* a lazy value's raw text is the trimmed input: a well-formed value has no whitespace at its edges *)
Theorem raw_text_is_trimmed : forall v, Value v -> edge_ok v.
Proof. exact value_edges. Qed.
