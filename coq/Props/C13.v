(* C13 -- lazy values are faithful views of their source text. Statements only. *)
From Coq Require Import List NArith Arith.
From SonicV Require Import Model.SkipAll Model.Skip Model.LazyOwned Model.ValueEdges.
From SonicV Require Spec.Ref Model.RawSpan.
Import ListNotations.
Local Close Scope N_scope.
Local Open Scope nat_scope.

(* the span captured for a lazy value is whitespace followed by exactly one well-formed value *)
Theorem lazy_span_is_a_value : forall fuel l rest, skip_value fuel l = Some rest ->
  exists w v, l = w ++ v ++ rest /\ all_ws w /\ Value v.
Proof. exact skip_value_sound. Qed.

(* mutation of a loaded owned-lazy container: the touched element holds the new value, every other
   element is what it was *)
Theorem mutation_frame : forall (A : Type) i j (x : A) l, j <> i -> nth_error (replace A i x l) j = nth_error l j.
Proof. exact replace_frame. Qed.
Theorem mutation_hit : forall (A : Type) i (x : A) l, i < length l -> nth_error (replace A i x l) i = Some x.
Proof. exact replace_hit. Qed.
Theorem push_keeps_members : forall (A : Type) j (x : A) l, j < length l -> nth_error (push A x l) j = nth_error l j.
Proof. exact push_frame. Qed.

(* a lazy value's raw text is the trimmed input: a well-formed value has no whitespace at its edges *)
Theorem raw_text_is_trimmed : forall v, Value v -> edge_ok v.
Proof. exact value_edges. Qed.

(* the raw text of a lazy value obtained from a whole input is the input with its surrounding whitespace
   removed: the reference span cuts out exactly one value, with nothing but whitespace around it *)
Theorem raw_text_is_the_trimmed_input : forall strict l v a b, Ref.ref_text strict l = Some (v, a, b) ->
  Value (RawSpan.sub l a b) /\ ValueEdges.edge_ok (RawSpan.sub l a b) /\ all_ws (firstn a l) /\ all_ws (skipn b l) /\
  l = firstn a l ++ RawSpan.sub l a b ++ skipn b l.
Proof. exact RawSpan.reference_span_cuts_the_value. Qed.
