(* C03, statement about the node metadata word as translated on every run (T2). Statements only. *)
From Coq Require Import ZArith List Bool.
From SonicV Require Import Base.RustInt Gen.Funcs Model.FuncsMisc.
Open Scope Z_scope.

(* Meta::pack_dom_node / unpack_dom_node as written in src/value/node.rs: the word is kind + idx*8 + len*2^32
   and unpacking returns the same child index and length, for every index below 2^29 (F14 beyond) *)
Theorem meta_word_as_written : forall kind idx len,
  (kind = 2 \/ kind = 3 \/ kind = 4 \/ kind = 5) -> 0 <= idx < 2 ^ 29 -> 0 <= len < 2 ^ 32 ->
  exists w, meta_pack_dom_node kind idx len = Some w /\ w = kind + idx * 8 + len * 2 ^ 32 /\ 0 <= w < 2 ^ 64 /\
            meta_unpack_dom_node w = Some (idx, len).
Proof. exact meta_roundtrip_translated. Qed.
