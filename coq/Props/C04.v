(* C04 -- typed deserialization agrees with serde_json on result and on accept/reject.
   Statements only. PARTIAL: serde's derive output and serde_json are outside the repository; the
   agreement itself is decided by the correspondence run (both libraries on the same text and type).
   What is proved are the decisions sonic-rs makes on its own before a serde visitor is called. *)
From Coq Require Import List NArith ZArith Lia.
From SonicV Require Import Model.Number Model.SkipAll Model.Skip Model.SkipStr Gen.Guards Gen.Tables Model.GuardsOk.
Import ListNotations.
Open Scope Z_scope.

(* number dispatch: an integer literal reaches the visitor as exactly its value (visit_u64 / visit_i64),
   so the width check of the target's visitor sees the true value: no wrap, no truncation *)
Theorem integer_literal_reaches_visitor_exactly : forall negative d ds, Forall is_dig (d :: ds) -> 1 <= d -> (length (d :: ds) <= 19)%nat ->
  parse_int negative (d :: ds) = spec_int negative (dvalue (d :: ds)).
Proof. exact int_exact_19. Qed.

(* unknown struct fields are stepped over by the validating skipper: what is skipped is a value *)
Theorem unknown_field_is_a_value : forall fuel l rest, skip_value fuel l = Some rest ->
  exists w v, l = w ++ v ++ rest /\ all_ws w /\ Value v.
Proof. exact skip_value_sound. Qed.

(* borrowed vs copied: a string without a backslash is found by the scanner exactly up to its quote *)
Theorem string_token_extent : forall strict body rest fuel, str_body body -> (length body + 1 < fuel)%nat ->
  skip_str strict fuel (body ++ 34%N :: rest) = Some rest.
Proof. exact skip_complete. Qed.

(* float targets: the fast-path guards found in the source on this run keep the significand exactly
   convertible (below 2^53) and every result of the normal fast path finite and normal, which is what
   makes the value equal to serde_json's correctly rounded one *)
Theorem float_fast_path_guards :
  2 ^ G_CL_SHIFT <= 2 ^ 53 /\ (2 ^ 64 - 1) * 10 ^ (G_NF_HI - 1) < 2 ^ 1024 - 2 ^ 970 /\ 10 ^ (- (G_NF_LO + 1)) <= 2 ^ 1022.
Proof. exact float_fast_path_guards_ok. Qed.
