(* C14 -- validating lazy APIs never hand out malformed fragments. Statements only. *)
From Coq Require Import List Bool Arith NArith.
From SonicV Require Import Spec.Ref Model.SkipStr Model.SkipNum Model.SkipAll Model.Skip Model.RefSound Model.IterSound Model.IterObjSound.
From SonicV Require Model.RawSpan Model.ValueEdges.
From SonicV Require Model.GetLookup.
Import ListNotations.
Open Scope N_scope.

(* every value the validating skipper steps over or returns, on arbitrary bytes, is
   whitespace followed by an RFC 8259 value; nothing is claimed about the bytes after it *)
Theorem checked_get_skips_only_wf : forall fuel l rest, skip_value fuel l = Some rest ->
  exists w v, l = w ++ v ++ rest /\ all_ws w /\ Value v.
Proof. exact skip_value_sound. Qed.

(* keys and string values: RFC string bodies, hex digits of \u included *)
Theorem skipped_string_is_wf : forall fuel l rest, skip_str true fuel l = Some rest ->
  exists body, l = body ++ 34 :: rest /\ str_body body.
Proof. exact skip_sound_strict. Qed.

Theorem skipped_number_is_wf : forall first l rest, (first = 45 \/ digit first = true) -> skip_num first l = Some rest ->
  exists num, first :: l = num ++ rest /\ is_number num.
Proof. exact skip_num_sound. Qed.

(* the reference get on arbitrary bytes (the oracle every returned span is compared with): whatever it
   returns is a well-formed value located exactly at [a, b) inside the input *)
Theorem reference_get_returns_wf_fragment : forall l p a b, ref_get l p = Some (a, b) ->
  exists pre tok post, l = pre ++ tok ++ post /\ a = length pre /\ b = (a + length tok)%nat /\ Value tok.
Proof. exact ref_get_sound. Qed.

(* the same for the reference iterators: every yielded item is a well-formed value inside the input *)
Theorem reference_iterators_return_wf_fragments : forall l k a b,
  (In (IOk k a b) (ref_array_iter l) \/ In (IOk k a b) (ref_object_iter l)) -> located l a b.
Proof. exact iterators_items_located. Qed.

(* on well-formed input the validating walker is the tree lookup (so it rejects nothing it should find) *)
Theorem reference_get_complete_on_wf : forall l v a b p a' b' v', ref_text true l = Some (v, a, b) ->
  lookup v a b p = Found a' b' v' -> ref_get l p = Some (a', b').
Proof. exact GetLookup.get_is_lookup. Qed.

(* the bytes the reference get hands out are one well-formed value with no whitespace at its edges *)
Theorem reference_get_hands_out_one_value : forall l p a b, ref_get l p = Some (a, b) ->
  Value (RawSpan.sub l a b) /\ ValueEdges.edge_ok (RawSpan.sub l a b).
Proof. exact RawSpan.reference_get_span_cuts_a_value. Qed.
