(* C14 -- validating lazy APIs never hand out malformed fragments. Statements only. *)
From Coq Require Import List Bool Arith NArith.
From SonicV Require Import Model.SkipStr Model.SkipNum Model.SkipAll Model.Skip.
Import ListNotations.
Open Scope N_scope.

(* every value the validating skipper steps over or returns, on arbitrary bytes, is
   whitespace followed by an RFC 8259 value; nothing is claimed about the bytes after it *)
Theorem checked_get_skips_only_wf : forall fuel l rest, skip_value fuel l = Some rest ->
  exists w v, l = w ++ v ++ rest /\ all_ws w /\ Value v.
Proof. exact skip_value_sound. Qed.

(* keys and string values: RFC string bodies, hex digits of \u included *)
Theorem skipped_string_is_wf : forall fuel l rest, skip_str true fuel l = Some rest ->
  exists body, l = body ++ 34 :: rest /\ str_body body.
Proof. exact skip_sound_strict. Qed.

Theorem skipped_number_is_wf : forall first l rest, (first = 45 \/ digit first = true) -> skip_num first l = Some rest ->
  exists num, first :: l = num ++ rest /\ is_number num.
Proof. exact skip_num_sound. Qed.
