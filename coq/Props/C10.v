(* C10 -- lazy get returns exactly what a full parse followed by lookup finds.
   Statements only. The unchecked skipper works on 64-byte bitmaps: the three theorems below are
   the facts it rests on, for every word width / every input; the checked walker skips siblings
   with the validating skipper (Model/SkipAll.v). *)
From Coq Require Import List Bool Arith NArith ZArith.
From SonicV Require Import Spec.Ref Model.Bitmap Model.PrefixXor Model.Bracket Model.SkipAll Model.Skip Model.RefSound Model.ValueEdges.
From SonicV Require Model.GetLookup.
Local Close Scope N_scope.
Local Open Scope nat_scope.
Import ListNotations.

(* escaped-character bitmap: bit i is set iff byte i-1 is a backslash that is not itself escaped,
   carried across blocks, for every even word width *)
Theorem escaped_bits_correct : forall prev bs, bs <> [] -> Nat.even (length bs) = true ->
  get_escaped prev bs = escaped_spec prev bs.
Proof. exact get_escaped_correct. Qed.

(* in-string mask: the shift-xor prefix_xor equals the running parity of the quote bits *)
Theorem prefix_xor_correct : forall x, length x = 64 -> forall i, i < 64 ->
  bit (prefix_xor_fallback x) i = bit (prefix_xor_spec false x) i.
Proof. exact prefix_xor_fallback_correct. Qed.

(* counting one bracket kind outside strings stops exactly at the matching bracket *)
Theorem skip_container_correct : forall body rest, bal body ->
  scan (body ++ R :: rest) 0%Z 0%Z 0 = Some (S (length body)).
Proof. exact scan_finds_matching. Qed.

(* what the checked walker skips over is a well-formed value *)
Theorem checked_skip_is_value : forall fuel l rest, skip_value fuel l = Some rest ->
  exists w v, l = w ++ v ++ rest /\ all_ws w /\ Value v.
Proof. exact skip_value_sound. Qed.

(* the span the reference reports for a value is its exact source span: no surrounding whitespace *)
Theorem reference_span_is_exact : forall strict fuel pos l v a b rest, pvalue strict fuel pos l = Some (v, a, b, rest) ->
  exists w tok, l = w ++ tok ++ rest /\ all_ws w /\ Value tok /\ a = pos + length w /\ b = a + length tok.
Proof. intros strict fuel. exact (proj1 (pvalue_sound strict fuel)). Qed.

(* ... and a well-formed value is non-empty with no whitespace at either edge, so a span that is
   exactly one value carries no surrounding whitespace *)
Theorem value_has_no_edge_whitespace : forall v, Value v -> edge_ok v.
Proof. exact value_edges. Qed.

(* the two reference functions agree: on a text the strict reference parser accepts, walking a path
   through the bytes (the reference get, validating what it traverses) finds exactly the span that
   looking the path up in the parsed tree finds (first member wins), and nothing where the lookup
   does not resolve: get succeeds if and only if the path resolves in the reference tree *)
Theorem reference_get_is_tree_lookup : forall l v a b p, ref_text true l = Some (v, a, b) ->
  ref_get l p = match lookup v a b p with Found a' b' _ => Some (a', b') | _ => None end.
Proof. exact GetLookup.get_iff_lookup. Qed.
