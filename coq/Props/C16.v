(* C16 -- values sharing a parsed arena stay valid in any clone, move and drop order.
   Statements only: the manual reference-counting protocol of value/node.rs (Model/Arc.v). *)
From Coq Require Import List Arith.
From SonicV Require Import Model.Arc.
Import ListNotations.

(* every history of parse / clone / promote / drop: no use-after-free, no double free; the count of an
   arena is the number of live handles into it; an arena nobody holds has been released *)
Theorem arena_history_safe : forall os s, Inv s -> exists s', runh s os = Next s' /\ Inv s'.
Proof. exact history_safe. Qed.
Theorem arena_step_safe : forall s o, Inv s -> exists s', step s o = Next s' /\ Inv s'.
Proof. exact step_safe. Qed.
Theorem initial_state_ok : Inv {| count := fun _ => 0; freed := fun _ => false; nxt := 0; handles := [] |}.
Proof. exact init_inv. Qed.
