(* C20, statement about Position::from_index as translated on every run (T2). Statements only. *)
From Coq Require Import ZArith NArith List Bool.
From SonicV Require Import Base.RustInt Gen.Funcs Model.Err Model.FuncsLoop.
Open Scope Z_scope.

(* src/reader.rs Position::from_index as written: the loop over the prefix never overflows its counters and
   returns the line / column model, i.e. (from_index_is_pos_of) exactly the line and column of the offset *)
Theorem from_index_as_written : forall i data, 0 <= i -> Z.of_nat (length data) < 2 ^ 63 ->
  let p := Err.from_index (Z.to_nat i) (map Z.to_N data) in
  position_from_index i data = Some (Z.of_nat (fst p), Z.of_nat (snd p)).
Proof. exact position_from_index_is_model. Qed.
