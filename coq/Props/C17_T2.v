(* C17, statements about the source functions as translated on every run (T2, Gen/Funcs.v). Statements only. *)
From Coq Require Import ZArith List Bool.
From SonicV Require Import Base.RustInt Base.BitsZ Gen.Funcs Model.Bitmap Model.PrefixXor Model.FuncsEsc Model.FuncsMisc.
Open Scope Z_scope.

(* src/util/arch/fallback.rs prefix_xor, as written in the source, is the running parity on every 64-bit word:
   the same function the carry-less multiplication of the native build computes *)
Theorem portable_prefix_xor_is_running_parity : forall z, 0 <= z < 2 ^ 64 ->
  exists r, Gen.Funcs.prefix_xor_fallback z = Some r /\ 0 <= r < 2 ^ 64 /\ bitsZ 64 r = prefix_xor_spec false (bitsZ 64 z).
Proof. exact prefix_xor_fallback_is_spec. Qed.

(* sonic-simd/src/bits.rs at u64: no panic inside the documented domain, clear_high_bits keeps the low bits *)
Theorem bitmask_helpers_total : forall m n, 0 <= m < 2 ^ 64 -> 0 <= n <= 64 ->
  bitmask_u64_first_offset m = Some (trailing_zeros 64 m) /\
  bitmask_u64_all_zero m = Some (m =? 0) /\
  exists r, bitmask_u64_clear_high_bits m n = Some r /\ r = m mod 2 ^ (64 - n).
Proof. exact bitmask_u64_never_panics. Qed.
Theorem first_offset_is_lowest_set_bit : forall w m, 0 < m ->
  Z.testbit m (trailing_zeros w m) = true /\ forall i, 0 <= i < trailing_zeros w m -> Z.testbit m i = false.
Proof. exact trailing_zeros_spec. Qed.

(* src/parser.rs get_escaped_branchless_u64 / _u32, as written: the escaped-byte bitmap of the specification,
   with the carry into the next word, for every word and incoming carry *)
Theorem escape_scanner_u64_as_written : forall (prev : bool) (bs : Z), 0 <= bs < 2 ^ 64 ->
  exists e p, get_escaped_branchless_u64 (b2z prev) bs = Some (e, b2z p) /\ 0 <= e < 2 ^ 64 /\
              (bitsZ 64 e, p) = escaped_spec prev (bitsZ 64 bs).
Proof. exact get_escaped_branchless_u64_is_model. Qed.
Theorem escape_scanner_u32_as_written : forall (prev : bool) (bs : Z), 0 <= bs < 2 ^ 32 ->
  exists e p, get_escaped_branchless_u32 (b2z prev) bs = Some (e, b2z p) /\ 0 <= e < 2 ^ 32 /\
              (bitsZ 32 e, p) = escaped_spec prev (bitsZ 32 bs).
Proof. exact get_escaped_branchless_u32_is_model. Qed.
Theorem whitespace_classifier_as_written : forall ch, 0 <= ch < 256 ->
  is_whitespace ch = Some ((ch =? 32) || (ch =? 9) || (ch =? 10) || (ch =? 13))%bool.
Proof. exact is_whitespace_translated. Qed.

From SonicV Require Import Model.Simd Model.FuncsLoop.
(* src/util/arch/fallback.rs get_nonspace_bits as written: bit i is set iff byte i is not one of the four blanks *)
Theorem portable_whitespace_classifier_as_written : forall data, (length data <= 64)%nat ->
  get_nonspace_bits_fallback data = Some (Z.of_N (nonspace_bits (map Z.to_N data))).
Proof. exact get_nonspace_bits_fallback_is_model. Qed.
