(* C08 -- numbers are written so that they read back bit-identically. Statements only.
   What the serializer prints comes from itoa/ryu (outside the repository); what is proved here is the
   reading side and the raw-number grammar: a raw number holds exactly an RFC 8259 number. *)
From Coq Require Import List NArith ZArith Lia.
From SonicV Require Import Model.SkipNum Model.Number.
From SonicV Require Spec.Num Model.F32Refuted.
Import ListNotations.

(* the scanner that validates raw numbers (bare or quoted) accepts exactly the RFC numbers *)
Theorem rawnumber_is_rfc_number : forall first l rest, (first = 45%N \/ digit first = true) -> skip_num first l = Some rest ->
  exists num, first :: l = num ++ rest /\ is_number num.
Proof. exact skip_num_sound. Qed.
Theorem every_rfc_number_is_a_rawnumber : forall num rest, is_number num -> stops rest ->
  exists first l, num ++ rest = first :: l /\ skip_num first l = Some rest.
Proof. exact skip_num_complete. Qed.

(* integers printed in decimal read back exactly: up to 19 digits the accumulator equals the value *)
Theorem decimal_digits_read_back : forall ds, Forall is_dig ds -> (length ds <= 19)%nat -> wrap_acc ds = dvalue ds.
Proof. exact wrap_acc_exact. Qed.

(* known finding F32 as a fact about the specification: reading a decimal into f32 through f64 ("narrowed
   once", what C07 prescribes) is not f32 rounding -- the shortest printout 7.038531e-26 of the f32
   0x15ae43fd has as its nearest f64 the exact midpoint of two f32 and narrows to 0x15ae43fe *)
Theorem f32_round_trip_refuted_by_double_rounding :
  F32Refuted.direct_f32 F32Refuted.lit_7038531em26 = Num.Bits 363742205 /\
  (exists b64, Num.round_f64 (Num.parse_lit F32Refuted.lit_7038531em26) = Num.Bits b64 /\ Num.narrow_f32 b64 = Some 363742206%Z).
Proof. exact F32Refuted.f32_through_f64_is_not_f32_rounding. Qed.
