(* C19 -- converting through the DOM commutes with converting through text; DOM equality laws.
   Statements only. *)
From Coq Require Import List NArith Arith.
From SonicV Require Import Model.ObjEq Model.SerRoundTrip.
From Coq Require Import Permutation.
From SonicV Require Model.ObjEqMore.
Import ListNotations.
Local Close Scope N_scope.
Local Open Scope nat_scope.

(* Object equality (length + every member of one found equal in the other) is symmetric for objects
   without duplicate names ... *)
Theorem object_equality_symmetric : forall (key val : Type) (keq : forall a b : key, {a = b} + {a <> b}) (veq : val -> val -> bool),
  (forall a b, veq a b = veq b a) ->
  forall a b, NoDup (map fst a) -> NoDup (map fst b) -> obj_eq key val keq veq a b = true -> obj_eq key val keq veq b a = true.
Proof. exact obj_eq_sym. Qed.
(* ... and is not with duplicate names: {"a":1,"a":2} vs {"a":1,"b":2} (known finding F7) *)
Theorem object_equality_asymmetric_with_duplicates :
  let a := [(0, 1); (0, 2)] in let b := [(0, 1); (1, 2)] in
  obj_eq nat nat Nat.eq_dec Nat.eqb a b = true /\ obj_eq nat nat Nat.eq_dec Nat.eqb b a = false.
Proof. exact obj_eq_asym. Qed.

(* the text route loses nothing: parsing the compact text of a tree gives the tree (so the DOM of
   to_string(x) is the tree the serializer was driven with) *)
Theorem text_route_is_lossless : forall (scalar key : Type) print_scalar parse_scalar print_key parse_key,
  (forall s rest, follow_ok rest -> parse_scalar (print_scalar s ++ rest) = Some (s, rest)) ->
  (forall s : scalar, exists c r, print_scalar s = c :: r /\ structural c = false) ->
  (forall k : key, exists c r, print_key k = c :: r /\ structural c = false) ->
  (forall k rest, parse_key (print_key k ++ 58%N :: rest) = Some (k, 58%N :: rest)) ->
  forall v fuel rest, (size scalar key v < fuel) -> follow_ok rest ->
  parse scalar key parse_scalar parse_key fuel (print scalar key print_scalar print_key v ++ rest) = Some (v, rest).
Proof.
  intros scalar key ps pas pk pak H1 H2 H3 H4 v.
  exact (parse_print scalar key ps pas pk pak H1 H2 H3 H4 v).
Qed.

(* ... it is reflexive, and for objects without duplicate names insensitive to the order of the members of
   either operand *)
Theorem object_equality_reflexive : forall (key val : Type) (keq : forall a b : key, {a = b} + {a <> b}) (veq : val -> val -> bool),
  (forall a, veq a a = true) -> forall a, obj_eq key val keq veq a a = true.
Proof. exact ObjEqMore.obj_eq_refl. Qed.
Theorem object_equality_ignores_member_order : forall (key val : Type) (keq : forall a b : key, {a = b} + {a <> b}) (veq : val -> val -> bool) a a' b b',
  Permutation a a' -> NoDup (map fst a) -> Permutation b b' -> NoDup (map fst b) ->
  obj_eq key val keq veq a b = obj_eq key val keq veq a' b'.
Proof. exact ObjEqMore.obj_eq_perm. Qed.
