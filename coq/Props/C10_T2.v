(* C10, statement about the unchecked skipper's string bitmap as translated on every run (T2). Statements only. *)
From Coq Require Import ZArith List Bool.
From SonicV Require Import Base.RustInt Base.BitsZ Gen.Funcs Model.Bitmap Model.FuncsEsc.
Open Scope Z_scope.

Theorem escaped_bitmap_as_written : forall (prev : bool) (bs : Z), 0 <= bs < 2 ^ 64 ->
  exists e p, get_escaped_branchless_u64 (b2z prev) bs = Some (e, b2z p) /\ 0 <= e < 2 ^ 64 /\
              (bitsZ 64 e, p) = escaped_spec prev (bitsZ 64 bs).
Proof. exact get_escaped_branchless_u64_is_model. Qed.
