(* C18 -- lazily cached decodings are correct and leak-free under concurrent readers.
   Statements only: the publish-once protocol of Inner::parse_from / LazyRaw::load (Model/Cas.v),
   sequentially consistent, any number of threads, every schedule. *)
From Coq Require Import List Arith.
From SonicV Require Import Model.Cas.
Import ListNotations.

(* with a strong compare-exchange (the code after the F15 repair): every reachable state satisfies the
   invariant - the published pointer is alive, every pending allocation is alive, owned by one thread
   and not published, every finished reader holds the published pointer, nobody dereferenced null or
   freed memory, and every live allocation is the published one or some thread's pending one *)
Theorem cache_safe_for_every_schedule : forall n sched, Inv (run Strong (init n) sched).
Proof. exact strong_safe. Qed.
Theorem no_reader_crashes : forall n sched i, nth_error (thr (run Strong (init n) sched)) i <> Some TCrash.
Proof. exact strong_no_crash. Qed.
Theorem one_step_keeps_the_invariant : forall s i b, Inv s -> Inv (step Strong s i b).
Proof. exact step_inv_strong. Qed.

(* with the weak compare-exchange the code used before: one thread, one spurious failure, null is
   dereferenced (F15, repaired) *)
Theorem weak_compare_exchange_refuted : exists sched, nth_error (thr (run Weak (init 1) sched)) 0 = Some TCrash.
Proof. exact weak_refuted. Qed.
