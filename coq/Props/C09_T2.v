(* C09, statements about the \u-escape helpers as translated on every run (T2). Statements only. *)
From Coq Require Import ZArith NArith List Bool.
From SonicV Require Import Base.RustInt Gen.Funcs Spec.Ref Model.TablesDefs Model.FuncsUni.
Import ListNotations.
Open Scope Z_scope.

(* the four-hex-digit reader of the source is the table expression the table theorems are about (hex_table_valid) *)
Theorem hex_reader_as_written : forall a b c d, 0 <= a < 256 -> 0 <= b < 256 -> 0 <= c < 256 -> 0 <= d < 256 ->
  hex_to_u32_nocheck [a; b; c; d] = Some (Z.of_N (hex_to_u32 (Z.to_N a) (Z.to_N b) (Z.to_N c) (Z.to_N d))).
Proof. exact hex_to_u32_translated. Qed.

(* the encoder of the source writes the reference UTF-8 encoding of every code point up to U+10FFFF *)
Theorem utf8_encoder_as_written : forall cp b0 b1 b2 b3 rest, 0 <= cp <= 1114111 ->
  codepoint_to_utf8 cp (b0 :: b1 :: b2 :: b3 :: rest) =
    Some (Z.of_nat (length (enc_Z cp)), enc_Z cp ++ skipn (length (enc_Z cp)) (b0 :: b1 :: b2 :: b3 :: rest)).
Proof. exact codepoint_to_utf8_translated. Qed.
Theorem utf8_encoding_is_the_reference : forall cp, 0 <= cp -> map Z.of_N (utf8_encode (Z.to_N cp)) = enc_Z cp.
Proof. exact enc_Z_is_reference. Qed.
Theorem utf8_encoder_rejects_above_max : forall cp buf, 1114111 < cp -> codepoint_to_utf8 cp buf = Some (0, buf).
Proof. exact codepoint_to_utf8_rejects. Qed.
