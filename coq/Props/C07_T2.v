(* C07, statements about the source functions as translated on every run (T2). Statements only. *)
From Coq Require Import ZArith List Bool.
From SonicV Require Import Base.RustInt Gen.Funcs Model.FuncsNum.
Open Scope Z_scope.

(* whatever Eisel-Lemire returns is either "undecided" (e = -1: the exact slow path decides) or a biased
   exponent in [0, 2047] with a fraction below 2^53 ... *)
Theorem eisel_lemire_result_shape : forall q w, - 2 ^ 63 <= q < 2 ^ 63 -> 0 <= w < W64 ->
  exists r, compute_float_f64 q w = Some r /\ fp_ok r.
Proof. exact compute_float_never_panics. Qed.
(* ... and biased_fp_to_float assembles exactly that exponent field and fraction *)
Theorem bit_assembly_is_exact : forall f e, 0 <= e <= 2047 -> 0 <= f < 2 ^ 52 ->
  biased_fp_to_bits_f64 (f, e) = Some (f + e * 2 ^ 52).
Proof. exact biased_fp_to_bits_ok. Qed.

From SonicV Require Import Model.NormalFast.
(* sonic-number/src/lib.rs parse_floating_normal_fast (the 19-digit fast path), as written in the source:
   whenever it returns Some bits, for every decimal exponent the guard lets through and every non-zero
   64-bit significand, bits = E * 2^52 + (q - 2^52) where q is the integer nearest (ties to even) to
   man * 10^exp10 / 2^(E - 1075), 2^52 <= q <= 2^53 (q = 2^53 moves to the next binade) and 1 <= E <= 2045:
   the correctly rounded, finite, normal binary64. Ties cannot occur on this path. *)
Theorem normal_fast_path_is_correctly_rounded : forall e m raw, -307 < e < 288 -> 1 <= m < W64 ->
  parse_floating_normal_fast e m = Some (Some raw) ->
  exists E, 1 <= E <= 2045 /\
    let q := nearest_scaled m e (E - 1075) in
    4503599627370496 <= q <= 9007199254740992 /\ raw = assemble q E.
Proof. exact normal_fast_correctly_rounded. Qed.
(* what the function computes, with every overflow / shift / index check of the checked build discharged *)
Theorem normal_fast_path_as_written : forall e m, -342 <= e <= 308 -> 1 <= m < W64 ->
  parse_floating_normal_fast e m = nf_model e m.
Proof. exact normal_fast_is_model. Qed.
Theorem normal_fast_path_panic_condition : forall e m, -342 <= e <= 308 -> 1 <= m < W64 ->
  parse_floating_normal_fast e m = None ->
  exists s2 s2x, idx POWER_OF_FIVE_128_Z (e + 342) = Some (s2, s2x) /\
    let s1 := m * 2 ^ leading_zeros 64 m in
    ((s1 * s2) mod W64 + (s1 * s2x) / W64) mod W64 = W64 - 1 /\
    (Z.land ((s1 * s2) / W64) 511 = 0 \/ Z.land ((s1 * s2) / W64) 511 = 511).
Proof. exact normal_fast_panics_only_on_all_ones. Qed.

(* ... and it is the oracle of the correspondence run: on this path the code as written and Spec.Num.round_pos
   (the exact-decimal specification every C07 case is compared with) agree on every input *)
Theorem normal_fast_path_agrees_with_the_specification : forall e m raw, -307 < e < 288 -> 1 <= m < W64 ->
  parse_floating_normal_fast e m = Some (Some raw) -> Spec.Num.round_pos m e = Spec.Num.Bits raw.
Proof. exact normal_fast_agrees_with_oracle. Qed.

From SonicV Require Import Model.FuncsDigits.
Import ListNotations.
(* sonic-number/src/common.rs is_8digits as written (the SWAR test of the decimal slow path): on the little-endian
   word of any eight bytes it answers exactly "all eight are ASCII digits" *)
Theorem eight_digit_test_as_written : forall l, length l = 8%nat -> Forall (fun b => 0 <= b < 256) l ->
  is_8digits (le_word l) = Some (forallb is_digit l).
Proof. exact is_8digits_translated. Qed.
