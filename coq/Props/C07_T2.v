(* C07, statements about the source functions as translated on every run (T2). Statements only. *)
From Coq Require Import ZArith List Bool.
From SonicV Require Import Base.RustInt Gen.Funcs Model.FuncsNum.
Open Scope Z_scope.

(* whatever Eisel-Lemire returns is either "undecided" (e = -1: the exact slow path decides) or a biased
   exponent in [0, 2047] with a fraction below 2^53 ... *)
Theorem eisel_lemire_result_shape : forall q w, - 2 ^ 63 <= q < 2 ^ 63 -> 0 <= w < W64 ->
  exists r, compute_float_f64 q w = Some r /\ fp_ok r.
Proof. exact compute_float_never_panics. Qed.
(* ... and biased_fp_to_float assembles exactly that exponent field and fraction *)
Theorem bit_assembly_is_exact : forall f e, 0 <= e <= 2047 -> 0 <= f < 2 ^ 52 ->
  biased_fp_to_bits_f64 (f, e) = Some (f + e * 2 ^ 52).
Proof. exact biased_fp_to_bits_ok. Qed.
