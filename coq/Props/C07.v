(* C07 -- numbers are parsed exactly. Statements only. *)
From Coq Require Import List ZArith Reals Lia.
From Flocq Require Import Core.Core IEEE754.BinarySingleNaN.
From SonicV Require Import Model.Number Model.Float Model.NumTables Model.SkipNum Gen.Tables Spec.Num.
Import ListNotations.
Open Scope Z_scope.

(* plain integer literals of up to 19 digits: exactly Unsigned v / Signed (-v), or the nearest f64
   when the magnitude does not fit, for every digit list (the wrapping accumulation never wraps) *)
Theorem int_exact_upto_19 : forall negative d ds, Forall is_dig (d :: ds) -> 1 <= d -> (length (d :: ds) <= 19)%nat ->
  parse_int negative (d :: ds) = spec_int negative (dvalue (d :: ds)).
Proof. exact int_exact_19. Qed.
(* 20 digits: u64 exactly when the value fits, else the float path with the first 19 digits *)
Theorem int_exact_at_20 : forall d ds, Forall is_dig (d :: ds) -> 1 <= d -> length (d :: ds) = 20%nat ->
  parse_int false (d :: ds) = (if dvalue (d :: ds) <? W then Unsigned (dvalue (d :: ds)) else FloatPath (dvalue (firstn 19 (d :: ds))) 1 true).
Proof. exact int_exact_20. Qed.
Theorem int_beyond_20_never_fits : forall d ds, Forall is_dig ds -> 1 <= d -> (20 < length (d :: ds))%nat -> W <= dvalue (d :: ds).
Proof. exact int_over_20. Qed.

(* Clinger fast path: m * 10^e with m < 2^53 and 0 <= e <= 22 is one correctly rounded multiplication *)
Theorem fast_path_multiplication_correct : forall m e, 0 <= m < 2 ^ 53 -> 0 <= e <= 22 ->
  B2R (fast_mul m e) = round_ne (IZR m * IZR (10 ^ e)) /\ is_finite (fast_mul m e) = true.
Proof. exact fast_mul_correct. Qed.

(* tables regenerated from the source on this run *)
Theorem pow10_integers : forall i, (i < 18)%nat -> nthN POW10_UINT i = 10 ^ Z.of_nat i.
Proof. exact pow10_uint_correct. Qed.
Theorem pow10_floats : forall i, (i < 23)%nat -> round_pos (10 ^ Z.of_nat i) 0 = Bits (nthN POW10_FLOAT_BITS i).
Proof. exact pow10_float_correct. Qed.
Theorem pow5_128_table : forall i, (i < 651)%nat ->
  let e := nth i POWER_OF_FIVE_128 (0%N, 0%N) in
  Z.of_N (fst e) * 2 ^ 64 + Z.of_N (snd e) = pow5_entry (SMALLEST_POWER_OF_FIVE + Z.of_nat i).
Proof. exact pow5_table_correct. Qed.
