(* C07 -- numbers are parsed exactly. Statements only. *)
From Coq Require Import List ZArith Reals Lia.
From Flocq Require Import Core.Core IEEE754.BinarySingleNaN.
From SonicV Require Import Model.Number Model.Float Model.NumTables Model.SkipNum Gen.Tables Spec.Num Gen.Guards Model.GuardsOk Model.FloatMore Model.NumSpec.
Import ListNotations.
Open Scope Z_scope.

(* plain integer literals of up to 19 digits: exactly Unsigned v / Signed (-v), or the nearest f64
   when the magnitude does not fit, for every digit list (the wrapping accumulation never wraps) *)
Theorem int_exact_upto_19 : forall negative d ds, Forall is_dig (d :: ds) -> 1 <= d -> (length (d :: ds) <= 19)%nat ->
  parse_int negative (d :: ds) = spec_int negative (dvalue (d :: ds)).
Proof. exact int_exact_19. Qed.
(* 20 digits: u64 exactly when the value fits, else the float path with the first 19 digits *)
Theorem int_exact_at_20 : forall d ds, Forall is_dig (d :: ds) -> 1 <= d -> length (d :: ds) = 20%nat ->
  parse_int false (d :: ds) = (if dvalue (d :: ds) <? W then Unsigned (dvalue (d :: ds)) else FloatPath (dvalue (firstn 19 (d :: ds))) 1 true).
Proof. exact int_exact_20. Qed.
Theorem int_beyond_20_never_fits : forall d ds, Forall is_dig ds -> 1 <= d -> (20 < length (d :: ds))%nat -> W <= dvalue (d :: ds).
Proof. exact int_over_20. Qed.

(* Clinger fast path: m * 10^e with m < 2^53 and 0 <= e <= 22 is one correctly rounded multiplication *)
Theorem fast_path_multiplication_correct : forall m e, 0 <= m < 2 ^ 53 -> 0 <= e <= 22 ->
  B2R (fast_mul m e) = round_ne (IZR m * IZR (10 ^ e)) /\ is_finite (fast_mul m e) = true.
Proof. exact fast_mul_correct. Qed.

(* tables regenerated from the source on this run *)
Theorem pow10_integers : forall i, (i < 18)%nat -> nthN POW10_UINT i = 10 ^ Z.of_nat i.
Proof. exact pow10_uint_correct. Qed.
Theorem pow10_floats : forall i, (i < 23)%nat -> round_pos (10 ^ Z.of_nat i) 0 = Bits (nthN POW10_FLOAT_BITS i).
Proof. exact pow10_float_correct. Qed.
Theorem pow5_128_table : forall i, (i < 651)%nat ->
  let e := nth i POWER_OF_FIVE_128 (0%N, 0%N) in
  Z.of_N (fst e) * 2 ^ 64 + Z.of_N (snd e) = pow5_entry (SMALLEST_POWER_OF_FIVE + Z.of_nat i).
Proof. exact pow5_table_correct. Qed.

(* the other two branches of parse_float_fast: negative exponents divide by an exact power of ten,
   exponents above 22 multiply twice with the first product exact -- one rounding each *)
Theorem fast_path_division_correct : forall m e, 0 <= m < 2 ^ 53 -> 0 <= e <= 22 ->
  B2R (fast_div m e) = round_ne (IZR m / IZR (10 ^ e)) /\ is_finite (fast_div m e) = true.
Proof. exact fast_div_correct. Qed.
Theorem fast_path_split_correct : forall m e, 0 <= m < 2 ^ 53 -> 22 < e <= 37 -> m * 10 ^ (e - 22) <= 10 ^ 15 ->
  B2R (fast_split m e) = round_ne (IZR m * IZR (10 ^ e)) /\ is_finite (fast_split m e) = true.
Proof. exact fast_split_correct. Qed.
Theorem fast_path_split_test_exact : forall m k, 0 <= m < 2 ^ 53 -> 0 <= k <= 22 ->
  (round_ne (IZR (m * 10 ^ k)) <= IZR (10 ^ 15))%R -> m * 10 ^ k <= 10 ^ 15.
Proof. exact split_test_is_exact. Qed.

(* the guards read from the source text on this run (Gen/Guards.v, lib/guards.py) meet the hypotheses
   of the theorems above and keep every fast path inside its domain *)
Theorem integer_digit_guard : 10 ^ G_INT_DIGITS <= 2 ^ 64 /\ G_INT_DIGITS_REDO = G_INT_DIGITS /\ G_INT_DIGITS = 19.
Proof. exact int_digits_guard. Qed.
Theorem float_digit_guard : 0 < G_FLOAT_DIGITS <= G_INT_DIGITS.
Proof. exact float_digits_guard. Qed.
Theorem exponent_clamp_is_harmless :
  343 <= - G_EXP_CLAMP_LO /\ 2 ^ 64 * 2 ^ 1075 < 10 ^ 343 /\ 309 <= G_EXP_CLAMP_HI - 20 /\ 2 ^ 1024 <= 10 ^ 309.
Proof. exact exponent_clamp_guard. Qed.
Theorem clinger_guard_in_source :
  2 ^ G_CL_SHIFT <= 2 ^ 53 /\
  0 <= - G_CL_LO < POW10_FLOAT_LEN /\ G_CL_SPLIT < POW10_FLOAT_LEN /\ G_CL_SPLIT_MUL < POW10_FLOAT_LEN /\
  0 < G_CL_SPLIT + 1 - G_CL_SPLIT_SUB /\ G_CL_HI - G_CL_SPLIT_SUB < POW10_FLOAT_LEN /\
  5 ^ G_CL_SPLIT < 2 ^ 53 /\ 5 ^ (G_CL_HI - G_CL_SPLIT_SUB) < 2 ^ 53 /\ 5 ^ (- G_CL_LO) < 2 ^ 53 /\
  10 ^ G_CL_MID_EXP < 2 ^ 53 /\ G_CL_SPLIT_MUL = G_CL_SPLIT_SUB /\ G_CL_SPLIT = G_CL_SPLIT_SUB.
Proof. exact clinger_guard. Qed.
Theorem normal_fast_guard_in_source :
  0 <= (G_NF_LO + 1) + G_NF_IDX /\ (G_NF_HI - 1) + G_NF_IDX < POW5_LEN /\ G_NF_IDX = - SMALLEST_POWER_OF_FIVE /\
  (2 ^ 64 - 1) * 10 ^ (G_NF_HI - 1) < 2 ^ 1024 - 2 ^ 970 /\
  10 ^ (- (G_NF_LO + 1)) <= 2 ^ 1022.
Proof. exact normal_fast_guard. Qed.

(* the specification of "nearest" (Spec/Num.v), by integer arithmetic: the rounding quotient is the
   unique nearest integer with ties to even, and the binade chosen for num/den contains it *)
Theorem spec_quotient_is_nearest_even : forall a b, 0 <= a -> 0 < b ->
  let q := rne_div a b in
  0 <= q /\ 2 * Z.abs (a - q * b) <= b /\ (2 * Z.abs (a - q * b) = b -> Z.even q = true).
Proof. exact rne_div_nearest. Qed.
Theorem spec_quotient_unique : forall a b q, 0 <= a -> 0 < b ->
  2 * Z.abs (a - q * b) <= b -> (2 * Z.abs (a - q * b) = b -> Z.even q = true) -> q = rne_div a b.
Proof. exact rne_div_unique. Qed.
Theorem spec_binade_contains_value : forall num den, 0 < num -> 0 < den ->
  let E := binade num den in
  (0 <= E -> den * 2 ^ E <= num < den * 2 ^ (E + 1)) /\ (E < 0 -> den <= num * 2 ^ (- E) < 2 * den).
Proof. exact binade_correct. Qed.
