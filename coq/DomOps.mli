open BinNat
open BinNums
open Datatypes
open List
open Nat

type tree =
| Leaf of coq_N list
| Arr of tree list
| Obj of (coq_N list * tree) list

type pe =
| Key of coq_N list
| Idx of nat

val tnull : tree

val keq : coq_N list -> coq_N list -> bool

val assoc : (coq_N list * tree) list -> coq_N list -> tree option

val assoc_set :
  (coq_N list * tree) list -> coq_N list -> tree -> (coq_N list * tree) list

val assoc_del :
  (coq_N list * tree) list -> coq_N list -> (coq_N list * tree) list

val set_nth : 'a1 list -> nat -> 'a1 -> 'a1 list

val remove_nth : 'a1 list -> nat -> 'a1 list

val insert_nth : 'a1 list -> nat -> 'a1 -> 'a1 list

val get_at : tree -> pe list -> tree option

val upd_at : tree -> pe list -> (tree -> tree option) -> tree option

type res =
| RUnit
| RNone
| RTree of tree
| RNat of nat
| RBool of bool
| RReject

type cop =
| CPush of tree
| CPop
| CInsertAt of nat * tree
| CRemoveAt of nat
| CSwapRemove of nat
| CTruncate of nat
| CClear
| CLen
| CObjInsert of coq_N list * tree
| CObjRemove of coq_N list
| CObjGet of coq_N list
| CContains of coq_N list
| CEntryOrInsert of coq_N list * tree
| CIndexOrInsert of coq_N list * tree
| CSet of tree
| CTake
| CArrAppend of tree list
| CObjAppend of (coq_N list * tree) list
| CRetainNonNull
| CSplitOff of nat
| CResize of nat * tree
| CExtendWithin of nat * nat
| CDrain of nat * nat
| CSwap of nat * nat
| CRemoveEntry of coq_N list
| CEntryAndModify of coq_N list * tree * tree
| CEntryOrDefault of coq_N list
| CEntryRemove of coq_N list
| CEntryInsert of coq_N list * tree
| CFillNulls of tree

val non_null : tree -> bool

val fill : tree -> tree -> tree

val last_opt : 'a1 list -> 'a1 option

val apply_cop : cop -> tree -> (tree * res) option

type op =
| ONew of tree
| OClone of nat * pe list
| ODrop of nat
| OOn of nat * pe list * cop
| OGet of nat * pe list

type state = tree option list

val step : state -> op -> state * res

val run : state -> op list -> state * res list
