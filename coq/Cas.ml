open Datatypes
open List
open PeanoNat

type ptr = nat

type cas_kind =
| Strong
| Weak

type tstate =
| TStart
| TAlloc of ptr
| TDone of ptr
| TCrash

type st = { cell : ptr option; alive : (ptr -> bool); next : ptr;
            thr : tstate list }

(** val upd : (ptr -> bool) -> ptr -> bool -> ptr -> bool **)

let upd f p b q =
  if Nat.eqb q p then b else f q

(** val set_nth : tstate list -> nat -> tstate -> tstate list **)

let rec set_nth l i t =
  match l with
  | [] -> []
  | x :: r -> (match i with
               | O -> t :: r
               | S j -> x :: (set_nth r j t))

(** val step : cas_kind -> st -> nat -> bool -> st **)

let step k s i spur =
  match nth_error s.thr i with
  | Some t ->
    (match t with
     | TStart ->
       (match s.cell with
        | Some p ->
          { cell = s.cell; alive = s.alive; next = s.next; thr =
            (set_nth s.thr i (if s.alive p then TDone p else TCrash)) }
        | None ->
          { cell = None; alive = (upd s.alive s.next true); next = (S
            s.next); thr = (set_nth s.thr i (TAlloc s.next)) })
     | TAlloc own ->
       (match s.cell with
        | Some q ->
          { cell = s.cell; alive = (upd s.alive own false); next = s.next;
            thr = (set_nth s.thr i (if s.alive q then TDone q else TCrash)) }
        | None ->
          (match k with
           | Strong ->
             { cell = (Some own); alive = s.alive; next = s.next; thr =
               (set_nth s.thr i (TDone own)) }
           | Weak ->
             if spur
             then { cell = None; alive = (upd s.alive own false); next =
                    s.next; thr = (set_nth s.thr i TCrash) }
             else { cell = (Some own); alive = s.alive; next = s.next; thr =
                    (set_nth s.thr i (TDone own)) }))
     | _ -> s)
  | None -> s

(** val init : nat -> st **)

let init n =
  { cell = None; alive = (fun _ -> false); next = O; thr = (repeat TStart n) }

(** val run : cas_kind -> st -> (nat * bool) list -> st **)

let rec run k s = function
| [] -> s
| p :: r -> let (i, b) = p in run k (step k s i b) r
