open BinNums
open Datatypes

type ('scalar, 'key) jv =
| JS of 'scalar
| JArr of ('scalar, 'key) jv list
| JObj of ('key * ('scalar, 'key) jv) list

val print :
  ('a1 -> coq_N list) -> ('a2 -> coq_N list) -> ('a1, 'a2) jv -> coq_N list
