open Datatypes
open List
open PeanoNat

type ptr = nat

type cas_kind =
| Strong
| Weak

type tstate =
| TStart
| TAlloc of ptr
| TDone of ptr
| TCrash

type st = { cell : ptr option; alive : (ptr -> bool); next : ptr;
            thr : tstate list }

val upd : (ptr -> bool) -> ptr -> bool -> ptr -> bool

val set_nth : tstate list -> nat -> tstate -> tstate list

val step : cas_kind -> st -> nat -> bool -> st

val init : nat -> st

val run : cas_kind -> st -> (nat * bool) list -> st
