open BinNat
open BinNums
open Datatypes
open List
open PeanoNat

val is_ws : coq_N -> bool

val ws : coq_N list -> coq_N list

val lit : coq_N list -> coq_N list -> coq_N list option

val numstart : coq_N -> bool

val skip_one :
  (coq_N list -> coq_N list option) -> (coq_N -> coq_N list -> coq_N list
  option) -> nat -> coq_N list -> coq_N list option
