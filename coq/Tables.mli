open BinNums

val coq_QUOTE_TAB : (coq_N * coq_N list) list

val coq_DIGIT_TO_VAL32 : coq_N list

val coq_META_KIND_BITS : coq_N

val coq_META_LEN_OFFSET : coq_N
