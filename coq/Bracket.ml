open BinInt
open BinNums
open Datatypes

type sym =
| L
| R
| O

(** val scan : sym list -> coq_Z -> coq_Z -> nat -> nat option **)

let rec scan l lefts rights pos =
  match l with
  | [] -> None
  | s :: t ->
    (match s with
     | L -> scan t (Z.add lefts (Zpos Coq_xH)) rights (S pos)
     | R ->
       if Z.ltb lefts (Z.add rights (Zpos Coq_xH))
       then Some (S pos)
       else scan t lefts (Z.add rights (Zpos Coq_xH)) (S pos)
     | O -> scan t lefts rights (S pos))
