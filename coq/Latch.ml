open Datatypes
open List

type poll =
| POk
| PErr
| PNone

type 's st = { ending : bool; cur : 's }

(** val next : ('a1 -> 'a1 * poll) -> 'a1 st -> 'a1 st * poll **)

let next inner s =
  if s.ending
  then (s, PNone)
  else let (c, r) = inner s.cur in
       (match r with
        | POk -> ({ ending = false; cur = c }, POk)
        | x -> ({ ending = true; cur = c }, x))

(** val polls : ('a1 -> 'a1 * poll) -> nat -> 'a1 st -> poll list **)

let rec polls inner n s =
  match n with
  | O -> []
  | S k -> let (s', r) = next inner s in r :: (polls inner k s')

(** val latched : poll list -> bool **)

let rec latched = function
| [] -> true
| p :: r ->
  (match p with
   | POk -> latched r
   | _ -> forallb (fun p0 -> match p0 with
                             | PNone -> true
                             | _ -> false) r)
