open BinInt
open BinNums
open Datatypes

type sym =
| L
| R
| O

val scan : sym list -> coq_Z -> coq_Z -> nat -> nat option
