open Datatypes
open List
open Nat

type 'key jv =
| JS of nat
| JObj of ('key * 'key jv) list

(** val assoc :
    ('a1 -> 'a1 -> bool) -> ('a1 * 'a2) list -> 'a1 -> 'a2 option **)

let rec assoc keq l k =
  match l with
  | [] -> None
  | p :: r -> let (k', a) = p in if keq k' k then Some a else assoc keq r k

type 'key trie =
| Node of nat list * ('key * 'key trie) list

type 'key outs = nat -> 'key jv option

(** val upd : 'a1 outs -> nat -> 'a1 jv option -> 'a1 outs **)

let upd o p v q =
  if PeanoNat.Nat.eqb q p then v else o q

(** val coq_rec :
    ('a1 -> 'a1 -> bool) -> nat -> 'a1 trie -> 'a1 jv -> 'a1 outs -> nat ->
    ('a1 outs * nat) option **)

let coq_rec keq =
  let rec rec0 fuel t v out remain =
    match fuel with
    | O -> None
    | S f ->
      if PeanoNat.Nat.eqb remain O
      then Some (out, O)
      else let Node (order, kids) = t in
           let r1 =
             match kids with
             | [] -> Some (out, remain)
             | _ :: _ ->
               (match v with
                | JS _ -> None
                | JObj ms ->
                  (match ms with
                   | [] -> None
                   | _ :: _ -> loop f kids ms out remain))
           in
           (match r1 with
            | Some p ->
              let (out1, rem1) = p in
              Some ((fold_left (fun o p0 -> upd o p0 (Some v)) order out1),
              (sub rem1 (length order)))
            | None -> None)
  and loop fuel kids ms out remain =
    match fuel with
    | O -> None
    | S f ->
      (match ms with
       | [] -> Some (out, remain)
       | p :: r ->
         let (k, x) = p in
         (match assoc keq kids k with
          | Some child ->
            (match rec0 f child x out remain with
             | Some p0 ->
               let (o', r') = p0 in
               if PeanoNat.Nat.eqb r' O
               then Some (o', O)
               else loop f kids r o' r'
             | None -> None)
          | None -> loop f kids r out remain))
  in rec0
