open Datatypes
open Nat

type t =
| Scalar of nat
| Arr of t list
| Obj of (nat * t) list

val len : t -> nat

val peak : t -> nat
