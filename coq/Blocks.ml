open BinNat
open BinNums
open Datatypes
open List
open PeanoNat

(** val find_first : (coq_N -> bool) -> coq_N list -> nat option **)

let rec find_first interesting = function
| [] -> None
| b :: t ->
  if interesting b
  then Some O
  else option_map (fun x -> S x) (find_first interesting t)

(** val find_blocks :
    (coq_N -> bool) -> nat -> nat -> coq_N list -> nat option **)

let rec find_blocks interesting fuel w l =
  match fuel with
  | O -> None
  | S f ->
    if Nat.leb w (length l)
    then (match find_first interesting (firstn w l) with
          | Some k -> Some k
          | None ->
            option_map (Nat.add w) (find_blocks interesting f w (skipn w l)))
    else find_first interesting l

(** val mask_of : (coq_N -> bool) -> coq_N list -> coq_N **)

let rec mask_of interesting = function
| [] -> N0
| b :: t ->
  N.add (if interesting b then Npos Coq_xH else N0)
    (N.mul (Npos (Coq_xO Coq_xH)) (mask_of interesting t))

(** val tz : coq_N -> nat option **)

let tz = function
| N0 -> None
| Npos p -> Some (let rec go = function
                  | Coq_xO q -> S (go q)
                  | _ -> O
                  in go p)
