open Datatypes
open List

(** val prefix_xor_spec : bool -> bool list -> bool list **)

let rec prefix_xor_spec acc = function
| [] -> []
| b :: t -> (xorb acc b) :: (prefix_xor_spec (xorb acc b) t)

(** val shl : nat -> bool list -> bool list **)

let shl k x =
  firstn (length x) (app (repeat false k) x)

(** val xor_l : bool list -> bool list -> bool list **)

let rec xor_l a b =
  match a with
  | [] -> []
  | x :: a' ->
    (match b with
     | [] -> []
     | y :: b' -> (xorb x y) :: (xor_l a' b'))

(** val stepk : nat -> bool list -> bool list **)

let stepk k x =
  xor_l x (shl k x)

(** val prefix_xor_fallback : bool list -> bool list **)

let prefix_xor_fallback x =
  stepk (S (S (S (S (S (S (S (S (S (S (S (S (S (S (S (S (S (S (S (S (S (S (S
    (S (S (S (S (S (S (S (S (S O))))))))))))))))))))))))))))))))
    (stepk (S (S (S (S (S (S (S (S (S (S (S (S (S (S (S (S O))))))))))))))))
      (stepk (S (S (S (S (S (S (S (S O))))))))
        (stepk (S (S (S (S O)))) (stepk (S (S O)) (stepk (S O) x)))))
