open BinNums
open Datatypes
open Escape
open List
open Pretty
open Ref
open SerRoundTrip
open TablesDefs

val quote_string : coq_N list -> coq_N list

val conv : nat -> Ref.jv -> (coq_N list, coq_N list) jv

val convp : nat -> Ref.jv -> (coq_N list, coq_N list) Pretty.jv

val ser_compact : Ref.jv -> coq_N list

val ser_pretty : Ref.jv -> coq_N list
