open Datatypes

module Nat =
 struct
  (** val add : nat -> nat -> nat **)

  let rec add n m =
    match n with
    | O -> m
    | S p -> S (add p m)

  (** val eqb : nat -> nat -> bool **)

  let rec eqb n m =
    match n with
    | O -> (match m with
            | O -> true
            | S _ -> false)
    | S n' -> (match m with
               | O -> false
               | S m' -> eqb n' m')

  (** val leb : nat -> nat -> bool **)

  let rec leb n m =
    match n with
    | O -> true
    | S n' -> (match m with
               | O -> false
               | S m' -> leb n' m')

  (** val ltb : nat -> nat -> bool **)

  let ltb n m =
    leb (S n) m

  (** val max : nat -> nat -> nat **)

  let rec max n m =
    match n with
    | O -> m
    | S n' -> (match m with
               | O -> n
               | S m' -> S (max n' m'))

  (** val min : nat -> nat -> nat **)

  let rec min n m =
    match n with
    | O -> O
    | S n' -> (match m with
               | O -> O
               | S m' -> S (min n' m'))
 end
