open BinNat
open BinNums
open Datatypes
open List
open Tables

(** val tab : coq_N list -> coq_N -> coq_N **)

let tab t i =
  nth (N.to_nat i) t N0

(** val hex_to_u32 : coq_N -> coq_N -> coq_N -> coq_N -> coq_N **)

let hex_to_u32 a b c d =
  N.coq_lor
    (N.coq_lor
      (N.coq_lor
        (tab coq_DIGIT_TO_VAL32
          (N.add (Npos (Coq_xO (Coq_xI (Coq_xI (Coq_xO (Coq_xI (Coq_xI
            (Coq_xI (Coq_xO (Coq_xO Coq_xH)))))))))) a))
        (tab coq_DIGIT_TO_VAL32
          (N.add (Npos (Coq_xO (Coq_xO (Coq_xI (Coq_xO (Coq_xO (Coq_xI
            (Coq_xO (Coq_xI Coq_xH))))))))) b)))
      (tab coq_DIGIT_TO_VAL32
        (N.add (Npos (Coq_xO (Coq_xI (Coq_xO (Coq_xO (Coq_xI (Coq_xO (Coq_xI
          Coq_xH)))))))) c))) (tab coq_DIGIT_TO_VAL32 (N.add N0 d))

(** val need_spec : coq_N -> bool **)

let need_spec c =
  (||)
    ((||)
      (N.ltb c (Npos (Coq_xO (Coq_xO (Coq_xO (Coq_xO (Coq_xO Coq_xH)))))))
      (N.eqb c (Npos (Coq_xO (Coq_xI (Coq_xO (Coq_xO (Coq_xO Coq_xH))))))))
    (N.eqb c (Npos (Coq_xO (Coq_xO (Coq_xI (Coq_xI (Coq_xI (Coq_xO
      Coq_xH))))))))

(** val hexdigit : coq_N -> coq_N **)

let hexdigit v =
  if N.ltb v (Npos (Coq_xO (Coq_xI (Coq_xO Coq_xH))))
  then N.add (Npos (Coq_xO (Coq_xO (Coq_xO (Coq_xO (Coq_xI Coq_xH)))))) v
  else N.add (Npos (Coq_xI (Coq_xI (Coq_xI (Coq_xO (Coq_xI (Coq_xO
         Coq_xH))))))) v

(** val quote_spec : coq_N -> coq_N list **)

let quote_spec c =
  if N.eqb c (Npos (Coq_xO (Coq_xI (Coq_xO (Coq_xO (Coq_xO Coq_xH))))))
  then (Npos (Coq_xO (Coq_xO (Coq_xI (Coq_xI (Coq_xI (Coq_xO
         Coq_xH))))))) :: ((Npos (Coq_xO (Coq_xI (Coq_xO (Coq_xO (Coq_xO
         Coq_xH)))))) :: [])
  else if N.eqb c (Npos (Coq_xO (Coq_xO (Coq_xI (Coq_xI (Coq_xI (Coq_xO
            Coq_xH)))))))
       then (Npos (Coq_xO (Coq_xO (Coq_xI (Coq_xI (Coq_xI (Coq_xO
              Coq_xH))))))) :: ((Npos (Coq_xO (Coq_xO (Coq_xI (Coq_xI (Coq_xI
              (Coq_xO Coq_xH))))))) :: [])
       else if N.eqb c (Npos (Coq_xO (Coq_xO (Coq_xO Coq_xH))))
            then (Npos (Coq_xO (Coq_xO (Coq_xI (Coq_xI (Coq_xI (Coq_xO
                   Coq_xH))))))) :: ((Npos (Coq_xO (Coq_xI (Coq_xO (Coq_xO
                   (Coq_xO (Coq_xI Coq_xH))))))) :: [])
            else if N.eqb c (Npos (Coq_xI (Coq_xO (Coq_xO Coq_xH))))
                 then (Npos (Coq_xO (Coq_xO (Coq_xI (Coq_xI (Coq_xI (Coq_xO
                        Coq_xH))))))) :: ((Npos (Coq_xO (Coq_xO (Coq_xI
                        (Coq_xO (Coq_xI (Coq_xI Coq_xH))))))) :: [])
                 else if N.eqb c (Npos (Coq_xO (Coq_xI (Coq_xO Coq_xH))))
                      then (Npos (Coq_xO (Coq_xO (Coq_xI (Coq_xI (Coq_xI
                             (Coq_xO Coq_xH))))))) :: ((Npos (Coq_xO (Coq_xI
                             (Coq_xI (Coq_xI (Coq_xO (Coq_xI
                             Coq_xH))))))) :: [])
                      else if N.eqb c (Npos (Coq_xO (Coq_xO (Coq_xI Coq_xH))))
                           then (Npos (Coq_xO (Coq_xO (Coq_xI (Coq_xI (Coq_xI
                                  (Coq_xO Coq_xH))))))) :: ((Npos (Coq_xO
                                  (Coq_xI (Coq_xI (Coq_xO (Coq_xO (Coq_xI
                                  Coq_xH))))))) :: [])
                           else if N.eqb c (Npos (Coq_xI (Coq_xO (Coq_xI
                                     Coq_xH))))
                                then (Npos (Coq_xO (Coq_xO (Coq_xI (Coq_xI
                                       (Coq_xI (Coq_xO
                                       Coq_xH))))))) :: ((Npos (Coq_xO
                                       (Coq_xI (Coq_xO (Coq_xO (Coq_xI
                                       (Coq_xI Coq_xH))))))) :: [])
                                else (Npos (Coq_xO (Coq_xO (Coq_xI (Coq_xI
                                       (Coq_xI (Coq_xO
                                       Coq_xH))))))) :: ((Npos (Coq_xI
                                       (Coq_xO (Coq_xI (Coq_xO (Coq_xI
                                       (Coq_xI Coq_xH))))))) :: ((Npos
                                       (Coq_xO (Coq_xO (Coq_xO (Coq_xO
                                       (Coq_xI Coq_xH)))))) :: ((Npos (Coq_xO
                                       (Coq_xO (Coq_xO (Coq_xO (Coq_xI
                                       Coq_xH)))))) :: ((hexdigit
                                                          (N.div c (Npos
                                                            (Coq_xO (Coq_xO
                                                            (Coq_xO (Coq_xO
                                                            Coq_xH))))))) :: (
                                       (hexdigit
                                         (N.modulo c (Npos (Coq_xO (Coq_xO
                                           (Coq_xO (Coq_xO Coq_xH))))))) :: [])))))

(** val quote_entry : coq_N -> coq_N list **)

let quote_entry c =
  let e = nth (N.to_nat c) coq_QUOTE_TAB (N0, []) in
  firstn (N.to_nat (fst e)) (snd e)
