open Datatypes
open List
open PeanoNat

type ('scalar, 'key) jv =
| JS of 'scalar
| JArr of ('scalar, 'key) jv list
| JObj of ('key * ('scalar, 'key) jv) list

type ('scalar, 'key) ev =
| EScalar of 'scalar
| EKey of 'key
| EStart of bool
| EEnd of bool * nat

val events : ('a1, 'a2) jv -> ('a1, 'a2) ev list

type ('scalar, 'key) node =
| NS of 'scalar
| NK of 'key
| NPending of nat
| NEmpty of bool
| NCont of bool * nat * ('scalar, 'key) node list

type ('scalar, 'key) vis = { stack : ('scalar, 'key) node list; parent : nat }

val step : ('a1, 'a2) vis -> ('a1, 'a2) ev -> ('a1, 'a2) vis option

val run : ('a1, 'a2) vis -> ('a1, 'a2) ev list -> ('a1, 'a2) vis option

val node_of : ('a1, 'a2) jv -> ('a1, 'a2) node
