open Datatypes
open List
open Nat

type 'key jv =
| JS of nat
| JObj of ('key * 'key jv) list

val assoc : ('a1 -> 'a1 -> bool) -> ('a1 * 'a2) list -> 'a1 -> 'a2 option

type 'key trie =
| Node of nat list * ('key * 'key trie) list

type 'key outs = nat -> 'key jv option

val upd : 'a1 outs -> nat -> 'a1 jv option -> 'a1 outs

val coq_rec :
  ('a1 -> 'a1 -> bool) -> nat -> 'a1 trie -> 'a1 jv -> 'a1 outs -> nat ->
  ('a1 outs * nat) option
