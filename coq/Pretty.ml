open BinNums
open Datatypes
open List
open Nat

type ('scalar, 'key) jv =
| JS of 'scalar
| JArr of ('scalar, 'key) jv list
| JObj of ('key * ('scalar, 'key) jv) list

(** val indent : nat -> coq_N list **)

let indent n =
  concat
    (repeat ((Npos (Coq_xO (Coq_xO (Coq_xO (Coq_xO (Coq_xO
      Coq_xH)))))) :: ((Npos (Coq_xO (Coq_xO (Coq_xO (Coq_xO (Coq_xO
      Coq_xH)))))) :: [])) n)

(** val pretty :
    ('a1 -> coq_N list) -> ('a2 -> coq_N list) -> nat -> ('a1, 'a2) jv ->
    coq_N list **)

let rec pretty pscalar pkey d = function
| JS s -> pscalar s
| JArr xs ->
  (match xs with
   | [] ->
     (Npos (Coq_xI (Coq_xI (Coq_xO (Coq_xI (Coq_xI (Coq_xO
       Coq_xH))))))) :: ((Npos (Coq_xI (Coq_xO (Coq_xI (Coq_xI (Coq_xI
       (Coq_xO Coq_xH))))))) :: [])
   | _ :: _ ->
     (Npos (Coq_xI (Coq_xI (Coq_xO (Coq_xI (Coq_xI (Coq_xO
       Coq_xH))))))) :: (app
                          (let rec go first = function
                           | [] -> []
                           | x :: r ->
                             app
                               (if first
                                then (Npos (Coq_xO (Coq_xI (Coq_xO
                                       Coq_xH)))) :: []
                                else (Npos (Coq_xO (Coq_xO (Coq_xI (Coq_xI
                                       (Coq_xO Coq_xH)))))) :: ((Npos (Coq_xO
                                       (Coq_xI (Coq_xO Coq_xH)))) :: []))
                               (app (indent (S d))
                                 (app (pretty pscalar pkey (S d) x)
                                   (go false r)))
                           in go true xs) ((Npos (Coq_xO (Coq_xI (Coq_xO
                          Coq_xH)))) :: (app (indent d) ((Npos (Coq_xI
                                          (Coq_xO (Coq_xI (Coq_xI (Coq_xI
                                          (Coq_xO Coq_xH))))))) :: [])))))
| JObj ms ->
  (match ms with
   | [] ->
     (Npos (Coq_xI (Coq_xI (Coq_xO (Coq_xI (Coq_xI (Coq_xI
       Coq_xH))))))) :: ((Npos (Coq_xI (Coq_xO (Coq_xI (Coq_xI (Coq_xI
       (Coq_xI Coq_xH))))))) :: [])
   | _ :: _ ->
     (Npos (Coq_xI (Coq_xI (Coq_xO (Coq_xI (Coq_xI (Coq_xI
       Coq_xH))))))) :: (app
                          (let rec go first = function
                           | [] -> []
                           | p :: r ->
                             let (k, x) = p in
                             app
                               (if first
                                then (Npos (Coq_xO (Coq_xI (Coq_xO
                                       Coq_xH)))) :: []
                                else (Npos (Coq_xO (Coq_xO (Coq_xI (Coq_xI
                                       (Coq_xO Coq_xH)))))) :: ((Npos (Coq_xO
                                       (Coq_xI (Coq_xO Coq_xH)))) :: []))
                               (app (indent (S d))
                                 (app (pkey k)
                                   (app ((Npos (Coq_xO (Coq_xI (Coq_xO
                                     (Coq_xI (Coq_xI Coq_xH)))))) :: ((Npos
                                     (Coq_xO (Coq_xO (Coq_xO (Coq_xO (Coq_xO
                                     Coq_xH)))))) :: []))
                                     (app (pretty pscalar pkey (S d) x)
                                       (go false r)))))
                           in go true ms) ((Npos (Coq_xO (Coq_xI (Coq_xO
                          Coq_xH)))) :: (app (indent d) ((Npos (Coq_xI
                                          (Coq_xO (Coq_xI (Coq_xI (Coq_xI
                                          (Coq_xI Coq_xH))))))) :: [])))))

type ('scalar, 'key) call =
| CScalar of 'scalar
| CKeyStr of 'key
| BeginArr
| EndArr
| BeginArrVal of bool
| EndArrVal
| BeginObj
| EndObj
| BeginKey of bool
| BeginObjVal
| EndObjVal

(** val calls : ('a1, 'a2) jv -> ('a1, 'a2) call list **)

let rec calls = function
| JS s -> (CScalar s) :: []
| JArr xs ->
  BeginArr :: (app
                (let rec go first = function
                 | [] -> []
                 | x :: r ->
                   (BeginArrVal
                     first) :: (app (calls x) (EndArrVal :: (go false r)))
                 in go true xs) (EndArr :: []))
| JObj ms ->
  BeginObj :: (app
                (let rec go first = function
                 | [] -> []
                 | p :: r ->
                   let (k, x) = p in
                   (BeginKey first) :: ((CKeyStr
                   k) :: (BeginObjVal :: (app (calls x)
                                           (EndObjVal :: (go false r)))))
                 in go true ms) (EndObj :: []))

type fst_ = { cur : nat; hasv : bool; out : coq_N list }

(** val fmt :
    ('a1 -> coq_N list) -> ('a2 -> coq_N list) -> fst_ -> ('a1, 'a2) call ->
    fst_ **)

let fmt pscalar pkey st = function
| CScalar s ->
  { cur = st.cur; hasv = st.hasv; out = (app st.out (pscalar s)) }
| CKeyStr k -> { cur = st.cur; hasv = st.hasv; out = (app st.out (pkey k)) }
| BeginArr ->
  { cur = (S st.cur); hasv = false; out =
    (app st.out ((Npos (Coq_xI (Coq_xI (Coq_xO (Coq_xI (Coq_xI (Coq_xO
      Coq_xH))))))) :: [])) }
| EndArr ->
  let c0 = pred st.cur in
  { cur = c0; hasv = st.hasv; out =
  (app st.out
    (app
      (if st.hasv
       then (Npos (Coq_xO (Coq_xI (Coq_xO Coq_xH)))) :: (indent c0)
       else []) ((Npos (Coq_xI (Coq_xO (Coq_xI (Coq_xI (Coq_xI (Coq_xO
      Coq_xH))))))) :: []))) }
| BeginArrVal first ->
  { cur = st.cur; hasv = st.hasv; out =
    (app st.out
      (app
        (if first
         then (Npos (Coq_xO (Coq_xI (Coq_xO Coq_xH)))) :: []
         else (Npos (Coq_xO (Coq_xO (Coq_xI (Coq_xI (Coq_xO
                Coq_xH)))))) :: ((Npos (Coq_xO (Coq_xI (Coq_xO
                Coq_xH)))) :: [])) (indent st.cur))) }
| BeginObj ->
  { cur = (S st.cur); hasv = false; out =
    (app st.out ((Npos (Coq_xI (Coq_xI (Coq_xO (Coq_xI (Coq_xI (Coq_xI
      Coq_xH))))))) :: [])) }
| EndObj ->
  let c0 = pred st.cur in
  { cur = c0; hasv = st.hasv; out =
  (app st.out
    (app
      (if st.hasv
       then (Npos (Coq_xO (Coq_xI (Coq_xO Coq_xH)))) :: (indent c0)
       else []) ((Npos (Coq_xI (Coq_xO (Coq_xI (Coq_xI (Coq_xI (Coq_xI
      Coq_xH))))))) :: []))) }
| BeginKey first ->
  { cur = st.cur; hasv = st.hasv; out =
    (app st.out
      (app
        (if first
         then (Npos (Coq_xO (Coq_xI (Coq_xO Coq_xH)))) :: []
         else (Npos (Coq_xO (Coq_xO (Coq_xI (Coq_xI (Coq_xO
                Coq_xH)))))) :: ((Npos (Coq_xO (Coq_xI (Coq_xO
                Coq_xH)))) :: [])) (indent st.cur))) }
| BeginObjVal ->
  { cur = st.cur; hasv = st.hasv; out =
    (app st.out ((Npos (Coq_xO (Coq_xI (Coq_xO (Coq_xI (Coq_xI
      Coq_xH)))))) :: ((Npos (Coq_xO (Coq_xO (Coq_xO (Coq_xO (Coq_xO
      Coq_xH)))))) :: []))) }
| _ -> { cur = st.cur; hasv = true; out = st.out }

(** val run :
    ('a1 -> coq_N list) -> ('a2 -> coq_N list) -> fst_ -> ('a1, 'a2) call
    list -> fst_ **)

let run pscalar pkey st cs =
  fold_left (fmt pscalar pkey) cs st
