open BinNums
open Datatypes
open Escape
open List
open Pretty
open Ref
open SerRoundTrip
open TablesDefs

(** val quote_string : coq_N list -> coq_N list **)

let quote_string d =
  (Npos (Coq_xO (Coq_xI (Coq_xO (Coq_xO (Coq_xO
    Coq_xH)))))) :: (app (spec_escape need_spec quote_spec d) ((Npos (Coq_xO
                      (Coq_xI (Coq_xO (Coq_xO (Coq_xO Coq_xH)))))) :: []))

(** val conv : nat -> Ref.jv -> (coq_N list, coq_N list) jv **)

let rec conv fuel v =
  match fuel with
  | O -> JS []
  | S f ->
    (match v with
     | JNull ->
       JS ((Npos (Coq_xO (Coq_xI (Coq_xI (Coq_xI (Coq_xO (Coq_xI
         Coq_xH))))))) :: ((Npos (Coq_xI (Coq_xO (Coq_xI (Coq_xO (Coq_xI
         (Coq_xI Coq_xH))))))) :: ((Npos (Coq_xO (Coq_xO (Coq_xI (Coq_xI
         (Coq_xO (Coq_xI Coq_xH))))))) :: ((Npos (Coq_xO (Coq_xO (Coq_xI
         (Coq_xI (Coq_xO (Coq_xI Coq_xH))))))) :: []))))
     | JBool b ->
       if b
       then JS ((Npos (Coq_xO (Coq_xO (Coq_xI (Coq_xO (Coq_xI (Coq_xI
              Coq_xH))))))) :: ((Npos (Coq_xO (Coq_xI (Coq_xO (Coq_xO (Coq_xI
              (Coq_xI Coq_xH))))))) :: ((Npos (Coq_xI (Coq_xO (Coq_xI (Coq_xO
              (Coq_xI (Coq_xI Coq_xH))))))) :: ((Npos (Coq_xI (Coq_xO (Coq_xI
              (Coq_xO (Coq_xO (Coq_xI Coq_xH))))))) :: []))))
       else JS ((Npos (Coq_xO (Coq_xI (Coq_xI (Coq_xO (Coq_xO (Coq_xI
              Coq_xH))))))) :: ((Npos (Coq_xI (Coq_xO (Coq_xO (Coq_xO (Coq_xO
              (Coq_xI Coq_xH))))))) :: ((Npos (Coq_xO (Coq_xO (Coq_xI (Coq_xI
              (Coq_xO (Coq_xI Coq_xH))))))) :: ((Npos (Coq_xI (Coq_xI (Coq_xO
              (Coq_xO (Coq_xI (Coq_xI Coq_xH))))))) :: ((Npos (Coq_xI (Coq_xO
              (Coq_xI (Coq_xO (Coq_xO (Coq_xI Coq_xH))))))) :: [])))))
     | JNum lit -> JS lit
     | JStr (d, _) -> JS (quote_string d)
     | Ref.JArr xs -> JArr (map (fun x -> conv f (snd x)) xs)
     | Ref.JObj ms ->
       JObj
         (map (fun m -> ((quote_string (fst (fst (fst m)))),
           (conv f (snd m)))) ms))

(** val convp : nat -> Ref.jv -> (coq_N list, coq_N list) Pretty.jv **)

let rec convp fuel v =
  match fuel with
  | O -> Pretty.JS []
  | S f ->
    (match v with
     | JNull ->
       Pretty.JS ((Npos (Coq_xO (Coq_xI (Coq_xI (Coq_xI (Coq_xO (Coq_xI
         Coq_xH))))))) :: ((Npos (Coq_xI (Coq_xO (Coq_xI (Coq_xO (Coq_xI
         (Coq_xI Coq_xH))))))) :: ((Npos (Coq_xO (Coq_xO (Coq_xI (Coq_xI
         (Coq_xO (Coq_xI Coq_xH))))))) :: ((Npos (Coq_xO (Coq_xO (Coq_xI
         (Coq_xI (Coq_xO (Coq_xI Coq_xH))))))) :: []))))
     | JBool b ->
       if b
       then Pretty.JS ((Npos (Coq_xO (Coq_xO (Coq_xI (Coq_xO (Coq_xI (Coq_xI
              Coq_xH))))))) :: ((Npos (Coq_xO (Coq_xI (Coq_xO (Coq_xO (Coq_xI
              (Coq_xI Coq_xH))))))) :: ((Npos (Coq_xI (Coq_xO (Coq_xI (Coq_xO
              (Coq_xI (Coq_xI Coq_xH))))))) :: ((Npos (Coq_xI (Coq_xO (Coq_xI
              (Coq_xO (Coq_xO (Coq_xI Coq_xH))))))) :: []))))
       else Pretty.JS ((Npos (Coq_xO (Coq_xI (Coq_xI (Coq_xO (Coq_xO (Coq_xI
              Coq_xH))))))) :: ((Npos (Coq_xI (Coq_xO (Coq_xO (Coq_xO (Coq_xO
              (Coq_xI Coq_xH))))))) :: ((Npos (Coq_xO (Coq_xO (Coq_xI (Coq_xI
              (Coq_xO (Coq_xI Coq_xH))))))) :: ((Npos (Coq_xI (Coq_xI (Coq_xO
              (Coq_xO (Coq_xI (Coq_xI Coq_xH))))))) :: ((Npos (Coq_xI (Coq_xO
              (Coq_xI (Coq_xO (Coq_xO (Coq_xI Coq_xH))))))) :: [])))))
     | JNum lit -> Pretty.JS lit
     | JStr (d, _) -> Pretty.JS (quote_string d)
     | Ref.JArr xs -> Pretty.JArr (map (fun x -> convp f (snd x)) xs)
     | Ref.JObj ms ->
       Pretty.JObj
         (map (fun m -> ((quote_string (fst (fst (fst m)))),
           (convp f (snd m)))) ms))

(** val ser_compact : Ref.jv -> coq_N list **)

let ser_compact v =
  print (fun s -> s) (fun k -> k) (conv (S (depth v)) v)

(** val ser_pretty : Ref.jv -> coq_N list **)

let ser_pretty v =
  pretty (fun s -> s) (fun k -> k) O (convp (S (depth v)) v)
