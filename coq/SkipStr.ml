open BinNat
open BinNums
open Datatypes
open PeanoNat

(** val is_hex : coq_N -> bool **)

let is_hex c =
  (||)
    ((||)
      ((&&)
        (N.leb (Npos (Coq_xO (Coq_xO (Coq_xO (Coq_xO (Coq_xI Coq_xH)))))) c)
        (N.leb c (Npos (Coq_xI (Coq_xO (Coq_xO (Coq_xI (Coq_xI Coq_xH))))))))
      ((&&)
        (N.leb (Npos (Coq_xI (Coq_xO (Coq_xO (Coq_xO (Coq_xO (Coq_xO
          Coq_xH))))))) c)
        (N.leb c (Npos (Coq_xO (Coq_xI (Coq_xI (Coq_xO (Coq_xO (Coq_xO
          Coq_xH))))))))))
    ((&&)
      (N.leb (Npos (Coq_xI (Coq_xO (Coq_xO (Coq_xO (Coq_xO (Coq_xI
        Coq_xH))))))) c)
      (N.leb c (Npos (Coq_xO (Coq_xI (Coq_xI (Coq_xO (Coq_xO (Coq_xI
        Coq_xH)))))))))

(** val simple_escape : coq_N -> bool **)

let simple_escape c =
  (||)
    ((||)
      ((||)
        ((||)
          ((||)
            ((||)
              ((||)
                (N.eqb c (Npos (Coq_xO (Coq_xI (Coq_xO (Coq_xO (Coq_xO
                  Coq_xH)))))))
                (N.eqb c (Npos (Coq_xO (Coq_xO (Coq_xI (Coq_xI (Coq_xI
                  (Coq_xO Coq_xH)))))))))
              (N.eqb c (Npos (Coq_xI (Coq_xI (Coq_xI (Coq_xI (Coq_xO
                Coq_xH))))))))
            (N.eqb c (Npos (Coq_xO (Coq_xI (Coq_xO (Coq_xO (Coq_xO (Coq_xI
              Coq_xH)))))))))
          (N.eqb c (Npos (Coq_xO (Coq_xI (Coq_xI (Coq_xO (Coq_xO (Coq_xI
            Coq_xH)))))))))
        (N.eqb c (Npos (Coq_xO (Coq_xI (Coq_xI (Coq_xI (Coq_xO (Coq_xI
          Coq_xH)))))))))
      (N.eqb c (Npos (Coq_xO (Coq_xI (Coq_xO (Coq_xO (Coq_xI (Coq_xI
        Coq_xH)))))))))
    (N.eqb c (Npos (Coq_xO (Coq_xO (Coq_xI (Coq_xO (Coq_xI (Coq_xI
      Coq_xH))))))))

(** val skip_str : bool -> nat -> coq_N list -> coq_N list option **)

let rec skip_str strict fuel l =
  match fuel with
  | O -> None
  | S f ->
    (match l with
     | [] -> None
     | c :: r ->
       if N.eqb c (Npos (Coq_xO (Coq_xO (Coq_xI (Coq_xI (Coq_xI (Coq_xO
            Coq_xH)))))))
       then (match r with
             | [] -> None
             | e :: r' ->
               if N.eqb e (Npos (Coq_xI (Coq_xO (Coq_xI (Coq_xO (Coq_xI
                    (Coq_xI Coq_xH)))))))
               then if Nat.leb (S (S (S (S (S (S O)))))) (length r)
                    then (match r' with
                          | [] -> None
                          | h1 :: l0 ->
                            (match l0 with
                             | [] -> None
                             | h2 :: l1 ->
                               (match l1 with
                                | [] -> None
                                | h3 :: l2 ->
                                  (match l2 with
                                   | [] -> None
                                   | h4 :: r'' ->
                                     if (&&) strict
                                          (negb
                                            ((&&)
                                              ((&&)
                                                ((&&) (is_hex h1) (is_hex h2))
                                                (is_hex h3)) (is_hex h4)))
                                     then None
                                     else skip_str strict f r''))))
                    else None
               else if simple_escape e then skip_str strict f r' else None)
       else if N.eqb c (Npos (Coq_xO (Coq_xI (Coq_xO (Coq_xO (Coq_xO
                 Coq_xH))))))
            then Some r
            else if N.leb c (Npos (Coq_xI (Coq_xI (Coq_xI (Coq_xI Coq_xH)))))
                 then None
                 else skip_str strict f r)
