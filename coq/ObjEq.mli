open Datatypes
open List
open PeanoNat

val get : ('a1 -> 'a1 -> bool) -> ('a1 * 'a2) list -> 'a1 -> 'a2 option

val oeq : ('a1 -> 'a1 -> bool) -> 'a1 option -> 'a1 option -> bool

val obj_eq :
  ('a1 -> 'a1 -> bool) -> ('a2 -> 'a2 -> bool) -> ('a1 * 'a2) list ->
  ('a1 * 'a2) list -> bool
