open Datatypes
open Nat

type t =
| Scalar of nat
| Arr of t list
| Obj of (nat * t) list

(** val len : t -> nat **)

let rec len = function
| Scalar n -> S n
| Arr xs ->
  add
    (add (S (S O))
      (let rec go = function
       | [] -> O
       | x :: r -> add (len x) (go r)
       in go xs)) (pred (length xs))
| Obj ms ->
  add
    (add (S (S O))
      (let rec go = function
       | [] -> O
       | y :: r ->
         let (k, x) = y in
         add (add (add (add (S (S O)) k) (S O)) (len x)) (go r)
       in go ms)) (pred (length ms))

(** val peak : t -> nat **)

let rec peak = function
| Scalar _ -> S O
| Arr xs ->
  let rec go done0 = function
  | [] -> add (S O) done0
  | x :: r ->
    PeanoNat.Nat.max (add (add (S O) done0) (peak x)) (go (S done0) r)
  in go O xs
| Obj ms ->
  let rec go done0 = function
  | [] -> add (S O) done0
  | y :: r ->
    let (_, x) = y in
    PeanoNat.Nat.max (add (add (add (S O) done0) (S O)) (peak x))
      (go (add (S (S O)) done0) r)
  in go O ms
