open BinNat
open BinNums
open Datatypes
open List
open Nat

type buf = coq_N list

val get : buf -> nat -> coq_N option

val write : buf -> nat -> coq_N list -> buf option

val quote : coq_N

val bslash : coq_N

val dec :
  (coq_N list -> (coq_N list * nat) option) -> nat -> coq_N list -> (coq_N
  list * coq_N list) option

type res =
| Done of nat * buf * nat
| Err
| Crash

val inplace :
  (coq_N list -> (coq_N list * nat) option) -> nat -> buf -> nat -> nat -> res
