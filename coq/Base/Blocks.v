From Coq Require Import List NArith Arith Lia Bool.
Import ListNotations.

Section Scan.
Variable interesting : N -> bool.

Fixpoint find_first (l : list N) : option nat :=
  match l with
  | [] => None
  | b :: t => if interesting b then Some 0 else option_map S (find_first t)
  end.

Fixpoint find_blocks (fuel w : nat) (l : list N) : option nat :=
  match fuel with
  | 0 => None
  | S f =>
    if w <=? length l then
      match find_first (firstn w l) with
      | Some k => Some k
      | None => option_map (Nat.add w) (find_blocks f w (skipn w l))
      end
    else find_first l
  end.

Lemma find_first_app : forall a b,
  find_first (a ++ b) = match find_first a with Some k => Some k | None => option_map (Nat.add (length a)) (find_first b) end.
Proof.
  induction a as [|x a IH]; intros b; cbn [find_first app length].
  - destruct (find_first b); reflexivity.
  - destruct (interesting x); [reflexivity|]. rewrite IH.
    destruct (find_first a); cbn; [reflexivity|]. destruct (find_first b); reflexivity.
Qed.

Theorem find_blocks_correct : forall fuel w l, 0 < w -> length l < fuel -> find_blocks fuel w l = find_first l.
Proof.
  induction fuel as [|f IH]; intros w l Hw Hl; [lia|]. cbn [find_blocks].
  destruct (Nat.leb_spec w (length l)) as [Hle|Hgt]; [|reflexivity].
  transitivity (find_first (firstn w l ++ skipn w l)); [|now rewrite firstn_skipn]. rewrite find_first_app.
  destruct (find_first (firstn w l)); [reflexivity|].
  rewrite firstn_length_le by lia.
  rewrite IH; [reflexivity | lia |]. rewrite skipn_length. lia.
Qed.

(* bitmask view: bit i of mask set iff byte i interesting; trailing_zeros = find_first *)
Fixpoint mask_of (l : list N) : N :=
  match l with [] => 0%N | b :: t => ((if interesting b then 1 else 0) + 2 * mask_of t)%N end.

Definition tz (m : N) : option nat :=   (* trailing_zeros, None for 0 *)
  match m with N0 => None | Npos p => Some ((fix go p := match p with xO q => S (go q) | _ => 0 end) p) end.

Lemma tz_double : forall m, tz (2 * m) = option_map S (tz m).
Proof. destruct m as [|p]; reflexivity. Qed.
Lemma tz_succ_double : forall m, tz (1 + 2 * m) = Some 0.
Proof. destruct m as [|p]; reflexivity. Qed.

Theorem tz_mask_is_find_first : forall l, tz (mask_of l) = find_first l.
Proof.
  induction l as [|b t IH]; [reflexivity|]. cbn [mask_of find_first].
  destruct (interesting b).
  - apply tz_succ_double.
  - rewrite N.add_0_l, tz_double, IH. reflexivity.
Qed.
End Scan.
Print Assumptions find_blocks_correct.
Print Assumptions tz_mask_is_find_first.
