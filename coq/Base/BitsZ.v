(* Base/BitsZ.v -- bridge between the integer arithmetic the function translator (T2) emits and the
   bit-list models (Model/Bitmap.v, Model/PrefixXor.v): an n-bit word is the list of its bits,
   least significant first. *)
From Coq Require Import ZArith List Bool Lia.
From SonicV Require Import Base.RustInt.
Import ListNotations.
Open Scope Z_scope.
Ltac Zify.zify_post_hook ::= Z.div_mod_to_equations.

Fixpoint bitsZ (n : nat) (z : Z) : list bool :=
  match n with O => [] | S k => Z.odd z :: bitsZ k (z / 2) end.
Fixpoint ofbits (l : list bool) : Z :=
  match l with [] => 0 | b :: t => b2z b + 2 * ofbits t end.

Lemma bitsZ_length : forall n z, length (bitsZ n z) = n.
Proof. induction n as [|k IH]; intros z; cbn [bitsZ length]; [reflexivity|]. rewrite IH. reflexivity. Qed.

Lemma odd_decomp : forall z, z = 2 * (z / 2) + b2z (Z.odd z).
Proof.
  intros z. rewrite (Z.div_mod z 2) at 1 by lia. f_equal.
  rewrite Zmod_odd. destruct (Z.odd z); reflexivity.
Qed.

Lemma ofbits_bitsZ : forall n z, 0 <= z < 2 ^ Z.of_nat n -> ofbits (bitsZ n z) = z.
Proof.
  induction n as [|k IH]; intros z H.
  - cbn in *. lia.
  - cbn [bitsZ ofbits]. rewrite Nat2Z.inj_succ, Z.pow_succ_r in H by lia.
    rewrite IH.
    + pose proof (odd_decomp z). lia.
    + split; [apply Z.div_pos; lia | apply Z.div_lt_upper_bound; lia].
Qed.

Lemma ofbits_range : forall l, 0 <= ofbits l < 2 ^ Z.of_nat (length l).
Proof.
  induction l as [|b t IH]; cbn [ofbits length]; [cbn; lia|].
  rewrite Nat2Z.inj_succ, Z.pow_succ_r by lia. destruct b; cbn [b2z]; lia.
Qed.

Lemma bitsZ_ofbits : forall l, bitsZ (length l) (ofbits l) = l.
Proof.
  induction l as [|b t IH]; cbn [length bitsZ ofbits]; [reflexivity|].
  assert (E : (b2z b + 2 * ofbits t) / 2 = ofbits t) by (destruct b; cbn [b2z]; lia).
  assert (O : Z.odd (b2z b + 2 * ofbits t) = b).
  { rewrite Z.odd_add_mul_2. destruct b; reflexivity. }
  rewrite E, O, IH. reflexivity.
Qed.

(* bit i of the list is bit i of the integer *)
Lemma nth_bitsZ : forall n z i, (i < n)%nat -> nth i (bitsZ n z) false = Z.testbit z (Z.of_nat i).
Proof.
  induction n as [|k IH]; intros z i Hi; [lia|].
  cbn [bitsZ]. destruct i as [|j].
  - cbn [nth]. symmetry. apply Z.bit0_odd.
  - cbn [nth]. rewrite IH by lia. replace (Z.of_nat (S j)) with (Z.succ (Z.of_nat j)) by lia.
    rewrite <- Z.div2_bits by lia. reflexivity.
Qed.

Lemma list_ext_nth : forall (a b : list bool), length a = length b ->
  (forall i, (i < length a)%nat -> nth i a false = nth i b false) -> a = b.
Proof.
  induction a as [|x a IH]; intros [|y b] L H; cbn [length] in *; try lia; [reflexivity|].
  f_equal; [exact (H 0%nat ltac:(lia))|].
  apply IH; [lia|]. intros i Hi. exact (H (S i) ltac:(lia)).
Qed.

Lemma bitsZ_ext : forall n a b, (forall i, 0 <= i < Z.of_nat n -> Z.testbit a i = Z.testbit b i) -> bitsZ n a = bitsZ n b.
Proof.
  intros n a b H. apply list_ext_nth; [rewrite !bitsZ_length; reflexivity|].
  intros i Hi. rewrite bitsZ_length in Hi. rewrite !nth_bitsZ by lia. apply H. lia.
Qed.

Lemma bitsZ_mod : forall n z, bitsZ n (z mod 2 ^ Z.of_nat n) = bitsZ n z.
Proof. intros n z. apply bitsZ_ext. intros i Hi. apply Z.mod_pow2_bits_low. lia. Qed.

Fixpoint map2b (f : bool -> bool -> bool) (a b : list bool) : list bool :=
  match a, b with x :: a', y :: b' => f x y :: map2b f a' b' | _, _ => [] end.

Lemma nth_map2b : forall f a b i, f false false = false -> nth i (map2b f a b) false = if (i <? Nat.min (length a) (length b))%nat then f (nth i a false) (nth i b false) else false.
Proof.
  intros f. induction a as [|x a IH]; intros b i F.
  - cbn. destruct i; reflexivity.
  - destruct b as [|y b]; [cbn; destruct i; reflexivity|].
    destruct i as [|j]; cbn [map2b nth length Nat.min]; [reflexivity|].
    rewrite IH by exact F. reflexivity.
Qed.

Lemma map2b_length : forall f a b, length a = length b -> length (map2b f a b) = length a.
Proof. intros f. induction a as [|x a IH]; intros [|y b] L; cbn [map2b length] in *; try lia. rewrite IH by lia. reflexivity. Qed.

Lemma bitsZ_bitop : forall (op : Z -> Z -> Z) (f : bool -> bool -> bool),
  f false false = false ->
  (forall a b i, 0 <= i -> Z.testbit (op a b) i = f (Z.testbit a i) (Z.testbit b i)) ->
  forall n a b, bitsZ n (op a b) = map2b f (bitsZ n a) (bitsZ n b).
Proof.
  intros op f F S n a b. apply list_ext_nth.
  - rewrite map2b_length; rewrite !bitsZ_length; reflexivity.
  - intros i Hi. rewrite bitsZ_length in Hi. rewrite nth_map2b by exact F. rewrite !bitsZ_length, Nat.min_id.
    destruct (Nat.ltb_spec i n); [|lia]. rewrite !nth_bitsZ by lia. apply S. lia.
Qed.

Lemma bitsZ_land : forall n a b, bitsZ n (Z.land a b) = map2b andb (bitsZ n a) (bitsZ n b).
Proof. apply bitsZ_bitop; [reflexivity|]. intros. apply Z.land_spec. Qed.
Lemma bitsZ_lor : forall n a b, bitsZ n (Z.lor a b) = map2b orb (bitsZ n a) (bitsZ n b).
Proof. apply bitsZ_bitop; [reflexivity|]. intros. apply Z.lor_spec. Qed.
Lemma bitsZ_lxor : forall n a b, bitsZ n (Z.lxor a b) = map2b xorb (bitsZ n a) (bitsZ n b).
Proof. apply bitsZ_bitop; [reflexivity|]. intros. apply Z.lxor_spec. Qed.

(* complement inside the word *)
Lemma bitsZ_not : forall n a, bitsZ n (2 ^ Z.of_nat n - 1 - a) = map negb (bitsZ n a).
Proof.
  induction n as [|k IH]; intros a; [reflexivity|].
  cbn [bitsZ map]. rewrite Nat2Z.inj_succ, Z.pow_succ_r by lia.
  assert (O : Z.odd (2 * 2 ^ Z.of_nat k - 1 - a) = negb (Z.odd a)).
  { replace (2 * 2 ^ Z.of_nat k - 1 - a) with ((- a - 1) + 2 * 2 ^ Z.of_nat k) by lia.
    rewrite Z.odd_add_mul_2. replace (- a - 1) with (- (a + 1)) by lia. rewrite Z.odd_opp, Z.odd_add. destruct (Z.odd a); reflexivity. }
  assert (D : (2 * 2 ^ Z.of_nat k - 1 - a) / 2 = 2 ^ Z.of_nat k - 1 - a / 2).
  { pose proof (odd_decomp a) as E. destruct (Z.odd a); cbn [b2z] in E; lia. }
  rewrite O, D, IH. reflexivity.
Qed.

(* (x << 1) | carry-in, truncated to the width *)
Fixpoint shl1 (x : list bool) (cin : bool) : list bool :=
  match x with [] => [] | b :: t => cin :: shl1 t b end.
Lemma bitsZ_shl1 : forall n a c, bitsZ n (2 * a + b2z c) = shl1 (bitsZ n a) c.
Proof.
  induction n as [|k IH]; intros a c; [reflexivity|].
  cbn [bitsZ shl1].
  assert (O : Z.odd (2 * a + b2z c) = c) by (rewrite Z.add_comm, Z.odd_add_mul_2; destruct c; reflexivity).
  assert (D : (2 * a + b2z c) / 2 = a) by (destruct c; cbn [b2z]; lia).
  rewrite O, D. f_equal. rewrite <- IH. f_equal. pose proof (odd_decomp a). lia.
Qed.

(* ripple-carry addition *)
Fixpoint addb (a b : list bool) (c : bool) : list bool * bool :=
  match a, b with
  | x :: a', y :: b' => let (r, co) := addb a' b' ((x && y) || (c && xorb x y)) in (xorb (xorb x y) c :: r, co)
  | _, _ => ([], c)
  end.
Lemma bitsZ_add : forall n a b c, 0 <= a -> 0 <= b ->
  addb (bitsZ n a) (bitsZ n b) c =
    (bitsZ n (a + b + b2z c), 2 ^ Z.of_nat n <=? a mod 2 ^ Z.of_nat n + b mod 2 ^ Z.of_nat n + b2z c).
Proof.
  induction n as [|k IH]; intros a b c Ha Hb.
  - cbn [bitsZ addb Z.of_nat]. rewrite !Z.mod_1_r. f_equal. destruct c; reflexivity.
  - cbn [bitsZ addb].
    set (x := Z.odd a). set (y := Z.odd b).
    rewrite IH by (apply Z.div_pos; lia).
    pose proof (odd_decomp a) as Ea. pose proof (odd_decomp b) as Eb. fold x in Ea. fold y in Eb.
    set (c' := (x && y) || (c && xorb x y)).
    assert (S1 : a + b + b2z c = 2 * (a / 2 + b / 2 + b2z c') + b2z (xorb (xorb x y) c)).
    { unfold c'. destruct x, y, c; cbn [b2z andb orb xorb] in *; lia. }
    assert (O : Z.odd (a + b + b2z c) = xorb (xorb x y) c).
    { rewrite S1, Z.add_comm, Z.odd_add_mul_2. destruct (xorb (xorb x y) c); reflexivity. }
    assert (D : (a + b + b2z c) / 2 = a / 2 + b / 2 + b2z c').
    { rewrite S1. destruct (xorb (xorb x y) c); cbn [b2z]; lia. }
    rewrite O, D. f_equal.
    rewrite Nat2Z.inj_succ, Z.pow_succ_r by lia.
    assert (P : 0 < 2 ^ Z.of_nat k) by (apply Z.pow_pos_nonneg; lia).
    assert (Ma : a mod (2 * 2 ^ Z.of_nat k) = 2 * ((a / 2) mod 2 ^ Z.of_nat k) + b2z x).
    { rewrite Z.rem_mul_r by lia. rewrite Zmod_odd. fold x. destruct x; cbn [b2z]; lia. }
    assert (Mb : b mod (2 * 2 ^ Z.of_nat k) = 2 * ((b / 2) mod 2 ^ Z.of_nat k) + b2z y).
    { rewrite Z.rem_mul_r by lia. rewrite Zmod_odd. fold y. destruct y; cbn [b2z]; lia. }
    rewrite Ma, Mb. unfold c'.
    destruct (Z.leb_spec (2 ^ Z.of_nat k) ((a / 2) mod 2 ^ Z.of_nat k + (b / 2) mod 2 ^ Z.of_nat k + b2z (x && y || c && xorb x y)));
      destruct (Z.leb_spec (2 * 2 ^ Z.of_nat k) (2 * ((a / 2) mod 2 ^ Z.of_nat k) + b2z x + (2 * ((b / 2) mod 2 ^ Z.of_nat k) + b2z y) + b2z c));
      try reflexivity; exfalso; destruct x, y, c; cbn [b2z andb orb xorb] in *; lia.
Qed.

(* shift left by k inside the word *)
Lemma bitsZ_shiftl_nth : forall n a k i, (i < n)%nat ->
  nth i (bitsZ n ((a * 2 ^ Z.of_nat k) mod 2 ^ Z.of_nat n)) false = if (i <? k)%nat then false else nth (i - k) (bitsZ n a) false.
Proof.
  intros n a k i Hi. rewrite bitsZ_mod. rewrite nth_bitsZ by lia.
  destruct (Nat.ltb_spec i k).
  - apply Z.mul_pow2_bits_low. lia.
  - rewrite Z.mul_pow2_bits by lia. rewrite nth_bitsZ by lia. f_equal. lia.
Qed.
