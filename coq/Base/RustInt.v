(* Base/RustInt.v -- the semantics the function translator (lib/rs2coq.py, T2) targets.
   Machine integers are mathematical integers (Z) kept inside the range of their Rust type; an
   operation that panics in a build with overflow checks and debug assertions (plain + - * on
   overflow, unary minus of MIN, a shift by at least the width, an index out of range, a failed
   assert!/debug_assert!, unreachable!) evaluates to None, every other operation to Some of the
   value both build modes compute. Wrapping operations, casts and bit operations are total. *)
From Coq Require Import ZArith List Bool Lia.
Import ListNotations.
Open Scope Z_scope.

Definition bind {A B} (o : option A) (f : A -> option B) : option B :=
  match o with Some x => f x | None => None end.
Notation "x <- e ;; k" := (bind e (fun x => k)) (at level 61, e at next level, right associativity).
Notation "' p <- e ;; k" := (bind e (fun x => let p := x in k)) (at level 61, p pattern, e at next level, right associativity).

Definition in_u (w x : Z) : bool := (0 <=? x) && (x <? 2 ^ w).
Definition in_s (w x : Z) : bool := (- 2 ^ (w - 1) <=? x) && (x <? 2 ^ (w - 1)).
Definition wrap_u (w x : Z) : Z := x mod 2 ^ w.
Definition wrap_s (w x : Z) : Z := (x + 2 ^ (w - 1)) mod 2 ^ w - 2 ^ (w - 1).

Definition chk_u (w x : Z) : option Z := if in_u w x then Some x else None.
Definition chk_s (w x : Z) : option Z := if in_s w x then Some x else None.
Definition assert (b : bool) : option unit := if b then Some tt else None.

(* shifts: the amount must lie in [0, width); bits shifted out are dropped *)
Definition shl_u (w a s : Z) : Z := (a * 2 ^ s) mod 2 ^ w.
Definition shl_s (w a s : Z) : Z := wrap_s w (a * 2 ^ s).
Definition shr (a s : Z) : Z := a / 2 ^ s.            (* floor: logical on unsigned, arithmetic on signed *)
Definition chk_shl_u (w a s : Z) : option Z := if (0 <=? s) && (s <? w) then Some (shl_u w a s) else None.
Definition chk_shl_s (w a s : Z) : option Z := if (0 <=? s) && (s <? w) then Some (shl_s w a s) else None.
Definition chk_shr (w a s : Z) : option Z := if (0 <=? s) && (s <? w) then Some (shr a s) else None.
Definition chk_div (a b : Z) : option Z := if b =? 0 then None else Some (Z.quot a b).
Definition chk_rem (a b : Z) : option Z := if b =? 0 then None else Some (Z.rem a b).

Definition not_u (w a : Z) : Z := 2 ^ w - 1 - a.
Definition not_s (a : Z) : Z := - a - 1.
Definition b2z (b : bool) : Z := if b then 1 else 0.

(* bit counting on a w-bit unsigned value *)
Definition leading_zeros (w a : Z) : Z := if a <=? 0 then w else w - 1 - Z.log2 a.
Fixpoint ctz_pos (p : positive) : Z := match p with xO q => 1 + ctz_pos q | _ => 0 end.
Definition trailing_zeros (w a : Z) : Z := match a with Zpos p => ctz_pos p | _ => w end.
Fixpoint popcount_pos (p : positive) : Z := match p with xH => 1 | xO q => popcount_pos q | xI q => 1 + popcount_pos q end.
Definition count_ones (a : Z) : Z := match a with Zpos p => popcount_pos p | _ => 0 end.

(* slices, arrays and tables: an index out of range panics *)
(* the bound is tested before the index is converted: the extracted code must not build a huge unary number *)
Definition idx {A} (l : list A) (i : Z) : option A :=
  if (i <? 0) || (Z.of_nat (length l) <=? i) then None else nth_error l (Z.to_nat i).
(* a write through a raw pointer at a constant offset of an output buffer *)
Fixpoint upd_nat (l : list Z) (i : nat) (v : Z) : list Z :=
  match l, i with
  | [], _ => []
  | _ :: t, O => v :: t
  | x :: t, S j => x :: upd_nat t j v
  end.
Definition upd (l : list Z) (i v : Z) : list Z := upd_nat l (Z.to_nat i) v.

Lemma bind_some : forall {A B} (o : option A) (f : A -> option B) x, o = Some x -> bind o f = f x.
Proof. intros A B o f x H. rewrite H. reflexivity. Qed.
Lemma chk_u_some : forall w x, 0 <= x < 2 ^ w -> chk_u w x = Some x.
Proof. intros w x H. unfold chk_u, in_u. destruct (Z.leb_spec 0 x); [|lia]. destruct (Z.ltb_spec x (2 ^ w)); [reflexivity|lia]. Qed.
Lemma chk_s_some : forall w x, - 2 ^ (w - 1) <= x < 2 ^ (w - 1) -> chk_s w x = Some x.
Proof. intros w x H. unfold chk_s, in_s. destruct (Z.leb_spec (- 2 ^ (w - 1)) x); [|lia]. destruct (Z.ltb_spec x (2 ^ (w - 1))); [reflexivity|lia]. Qed.
Lemma chk_shr_some : forall w a s, 0 <= s < w -> chk_shr w a s = Some (shr a s).
Proof. intros w a s H. unfold chk_shr. destruct (Z.leb_spec 0 s); [|lia]. destruct (Z.ltb_spec s w); [reflexivity|lia]. Qed.
Lemma chk_shl_u_some : forall w a s, 0 <= s < w -> chk_shl_u w a s = Some (shl_u w a s).
Proof. intros w a s H. unfold chk_shl_u. destruct (Z.leb_spec 0 s); [|lia]. destruct (Z.ltb_spec s w); [reflexivity|lia]. Qed.

(* loops over a slice: a monadic fold whose state is the tuple of variables the body assigns *)
Fixpoint foldM {S A} (f : S -> A -> option S) (l : list A) (s : S) : option S :=
  match l with [] => Some s | x :: t => match f s x with Some s' => foldM f t s' | None => None end end.
Fixpoint foldM_enum_from {S A} (f : Z * S -> A -> option S) (i : Z) (l : list A) (s : S) : option S :=
  match l with [] => Some s | x :: t => match f (i, s) x with Some s' => foldM_enum_from f (i + 1) t s' | None => None end end.
Definition foldM_enum {S A} (f : Z * S -> A -> option S) (l : list A) (s : S) : option S := foldM_enum_from f 0 l s.
(* &l[lo..hi]: panics unless lo <= hi <= len *)
Definition slice {A} (l : list A) (lo hi : Z) : option (list A) :=
  if (0 <=? lo) && (lo <=? hi) && (hi <=? Z.of_nat (length l)) then Some (firstn (Z.to_nat (hi - lo)) (skipn (Z.to_nat lo) l)) else None.
