open BinNat
open BinNums
open Tables

val pack : coq_N -> coq_N -> coq_N -> coq_N

val unpack_idx : coq_N -> coq_N

val unpack_len : coq_N -> coq_N
