open BinInt
open BinNat
open BinNums
open Datatypes
open List

(** val dig : coq_N -> bool **)

let dig c =
  (&&) (N.leb (Npos (Coq_xO (Coq_xO (Coq_xO (Coq_xO (Coq_xI Coq_xH)))))) c)
    (N.leb c (Npos (Coq_xI (Coq_xO (Coq_xO (Coq_xI (Coq_xI Coq_xH)))))))

(** val take_digits : coq_N list -> coq_N list * coq_N list **)

let rec take_digits l = match l with
| [] -> ([], [])
| c :: r ->
  if dig c then let (d, rest) = take_digits r in ((c :: d), rest) else ([], l)

(** val dval : coq_N list -> coq_Z **)

let dval ds =
  fold_left (fun a c ->
    Z.add (Z.mul a (Zpos (Coq_xO (Coq_xI (Coq_xO Coq_xH)))))
      (Z.sub (Z.of_N c) (Zpos (Coq_xO (Coq_xO (Coq_xO (Coq_xO (Coq_xI
        Coq_xH)))))))) ds Z0

type decimal = { neg : bool; mant : coq_Z; exp10 : coq_Z; plain_int : bool }

(** val neg : decimal -> bool **)

let neg d =
  d.neg

(** val mant : decimal -> coq_Z **)

let mant d =
  d.mant

(** val exp10 : decimal -> coq_Z **)

let exp10 d =
  d.exp10

(** val plain_int : decimal -> bool **)

let plain_int d =
  d.plain_int

(** val parse_lit : coq_N list -> decimal **)

let parse_lit lit = match lit with
| [] ->
  let ng = false in
  let (ip, l1) = take_digits lit in
  let (fp, l2) =
    match l1 with
    | [] -> ([], l1)
    | n :: r ->
      (match n with
       | N0 -> ([], l1)
       | Npos p ->
         (match p with
          | Coq_xI _ -> ([], l1)
          | Coq_xO p0 ->
            (match p0 with
             | Coq_xI p1 ->
               (match p1 with
                | Coq_xI p2 ->
                  (match p2 with
                   | Coq_xI p3 ->
                     (match p3 with
                      | Coq_xI _ -> ([], l1)
                      | Coq_xO p4 ->
                        (match p4 with
                         | Coq_xI _ -> ([], l1)
                         | Coq_xO _ -> ([], l1)
                         | Coq_xH -> take_digits r)
                      | Coq_xH -> ([], l1))
                   | _ -> ([], l1))
                | _ -> ([], l1))
             | _ -> ([], l1))
          | Coq_xH -> ([], l1)))
  in
  let hasfrac =
    match l1 with
    | [] -> false
    | n :: _ ->
      (match n with
       | N0 -> false
       | Npos p ->
         (match p with
          | Coq_xO p0 ->
            (match p0 with
             | Coq_xI p1 ->
               (match p1 with
                | Coq_xI p2 ->
                  (match p2 with
                   | Coq_xI p3 ->
                     (match p3 with
                      | Coq_xO p4 ->
                        (match p4 with
                         | Coq_xH -> true
                         | _ -> false)
                      | _ -> false)
                   | _ -> false)
                | _ -> false)
             | _ -> false)
          | _ -> false))
  in
  (match l2 with
   | [] ->
     let hasexp = false in
     let ex = Z0 in
     { neg = ng; mant = (dval (app ip fp)); exp10 =
     (Z.sub ex (Z.of_nat (length fp))); plain_int =
     ((&&) (negb hasfrac) (negb hasexp)) }
   | c :: r ->
     if (||)
          (N.eqb c (Npos (Coq_xI (Coq_xO (Coq_xI (Coq_xO (Coq_xO (Coq_xI
            Coq_xH))))))))
          (N.eqb c (Npos (Coq_xI (Coq_xO (Coq_xI (Coq_xO (Coq_xO (Coq_xO
            Coq_xH))))))))
     then (match r with
           | [] ->
             let hasexp = true in
             let ex = dval (fst (take_digits r)) in
             { neg = ng; mant = (dval (app ip fp)); exp10 =
             (Z.sub ex (Z.of_nat (length fp))); plain_int =
             ((&&) (negb hasfrac) (negb hasexp)) }
           | n :: r' ->
             (match n with
              | N0 ->
                let hasexp = true in
                let ex = dval (fst (take_digits r)) in
                { neg = ng; mant = (dval (app ip fp)); exp10 =
                (Z.sub ex (Z.of_nat (length fp))); plain_int =
                ((&&) (negb hasfrac) (negb hasexp)) }
              | Npos p ->
                (match p with
                 | Coq_xI p0 ->
                   (match p0 with
                    | Coq_xI p1 ->
                      (match p1 with
                       | Coq_xO p2 ->
                         (match p2 with
                          | Coq_xI p3 ->
                            (match p3 with
                             | Coq_xO p4 ->
                               (match p4 with
                                | Coq_xH ->
                                  let hasexp = true in
                                  let ex = dval (fst (take_digits r')) in
                                  { neg = ng; mant = (dval (app ip fp));
                                  exp10 = (Z.sub ex (Z.of_nat (length fp)));
                                  plain_int =
                                  ((&&) (negb hasfrac) (negb hasexp)) }
                                | _ ->
                                  let hasexp = true in
                                  let ex = dval (fst (take_digits r)) in
                                  { neg = ng; mant = (dval (app ip fp));
                                  exp10 = (Z.sub ex (Z.of_nat (length fp)));
                                  plain_int =
                                  ((&&) (negb hasfrac) (negb hasexp)) })
                             | _ ->
                               let hasexp = true in
                               let ex = dval (fst (take_digits r)) in
                               { neg = ng; mant = (dval (app ip fp)); exp10 =
                               (Z.sub ex (Z.of_nat (length fp))); plain_int =
                               ((&&) (negb hasfrac) (negb hasexp)) })
                          | _ ->
                            let hasexp = true in
                            let ex = dval (fst (take_digits r)) in
                            { neg = ng; mant = (dval (app ip fp)); exp10 =
                            (Z.sub ex (Z.of_nat (length fp))); plain_int =
                            ((&&) (negb hasfrac) (negb hasexp)) })
                       | _ ->
                         let hasexp = true in
                         let ex = dval (fst (take_digits r)) in
                         { neg = ng; mant = (dval (app ip fp)); exp10 =
                         (Z.sub ex (Z.of_nat (length fp))); plain_int =
                         ((&&) (negb hasfrac) (negb hasexp)) })
                    | Coq_xO p1 ->
                      (match p1 with
                       | Coq_xI p2 ->
                         (match p2 with
                          | Coq_xI p3 ->
                            (match p3 with
                             | Coq_xO p4 ->
                               (match p4 with
                                | Coq_xH ->
                                  let hasexp = true in
                                  let ex = Z.opp (dval (fst (take_digits r')))
                                  in
                                  { neg = ng; mant = (dval (app ip fp));
                                  exp10 = (Z.sub ex (Z.of_nat (length fp)));
                                  plain_int =
                                  ((&&) (negb hasfrac) (negb hasexp)) }
                                | _ ->
                                  let hasexp = true in
                                  let ex = dval (fst (take_digits r)) in
                                  { neg = ng; mant = (dval (app ip fp));
                                  exp10 = (Z.sub ex (Z.of_nat (length fp)));
                                  plain_int =
                                  ((&&) (negb hasfrac) (negb hasexp)) })
                             | _ ->
                               let hasexp = true in
                               let ex = dval (fst (take_digits r)) in
                               { neg = ng; mant = (dval (app ip fp)); exp10 =
                               (Z.sub ex (Z.of_nat (length fp))); plain_int =
                               ((&&) (negb hasfrac) (negb hasexp)) })
                          | _ ->
                            let hasexp = true in
                            let ex = dval (fst (take_digits r)) in
                            { neg = ng; mant = (dval (app ip fp)); exp10 =
                            (Z.sub ex (Z.of_nat (length fp))); plain_int =
                            ((&&) (negb hasfrac) (negb hasexp)) })
                       | _ ->
                         let hasexp = true in
                         let ex = dval (fst (take_digits r)) in
                         { neg = ng; mant = (dval (app ip fp)); exp10 =
                         (Z.sub ex (Z.of_nat (length fp))); plain_int =
                         ((&&) (negb hasfrac) (negb hasexp)) })
                    | Coq_xH ->
                      let hasexp = true in
                      let ex = dval (fst (take_digits r)) in
                      { neg = ng; mant = (dval (app ip fp)); exp10 =
                      (Z.sub ex (Z.of_nat (length fp))); plain_int =
                      ((&&) (negb hasfrac) (negb hasexp)) })
                 | _ ->
                   let hasexp = true in
                   let ex = dval (fst (take_digits r)) in
                   { neg = ng; mant = (dval (app ip fp)); exp10 =
                   (Z.sub ex (Z.of_nat (length fp))); plain_int =
                   ((&&) (negb hasfrac) (negb hasexp)) })))
     else let hasexp = false in
          let ex = Z0 in
          { neg = ng; mant = (dval (app ip fp)); exp10 =
          (Z.sub ex (Z.of_nat (length fp))); plain_int =
          ((&&) (negb hasfrac) (negb hasexp)) })
| n :: r ->
  (match n with
   | N0 ->
     let ng = false in
     let (ip, l1) = take_digits lit in
     let (fp, l2) =
       match l1 with
       | [] -> ([], l1)
       | n0 :: r0 ->
         (match n0 with
          | N0 -> ([], l1)
          | Npos p ->
            (match p with
             | Coq_xI _ -> ([], l1)
             | Coq_xO p0 ->
               (match p0 with
                | Coq_xI p1 ->
                  (match p1 with
                   | Coq_xI p2 ->
                     (match p2 with
                      | Coq_xI p3 ->
                        (match p3 with
                         | Coq_xI _ -> ([], l1)
                         | Coq_xO p4 ->
                           (match p4 with
                            | Coq_xI _ -> ([], l1)
                            | Coq_xO _ -> ([], l1)
                            | Coq_xH -> take_digits r0)
                         | Coq_xH -> ([], l1))
                      | _ -> ([], l1))
                   | _ -> ([], l1))
                | _ -> ([], l1))
             | Coq_xH -> ([], l1)))
     in
     let hasfrac =
       match l1 with
       | [] -> false
       | n0 :: _ ->
         (match n0 with
          | N0 -> false
          | Npos p ->
            (match p with
             | Coq_xO p0 ->
               (match p0 with
                | Coq_xI p1 ->
                  (match p1 with
                   | Coq_xI p2 ->
                     (match p2 with
                      | Coq_xI p3 ->
                        (match p3 with
                         | Coq_xO p4 ->
                           (match p4 with
                            | Coq_xH -> true
                            | _ -> false)
                         | _ -> false)
                      | _ -> false)
                   | _ -> false)
                | _ -> false)
             | _ -> false))
     in
     (match l2 with
      | [] ->
        let hasexp = false in
        let ex = Z0 in
        { neg = ng; mant = (dval (app ip fp)); exp10 =
        (Z.sub ex (Z.of_nat (length fp))); plain_int =
        ((&&) (negb hasfrac) (negb hasexp)) }
      | c :: r0 ->
        if (||)
             (N.eqb c (Npos (Coq_xI (Coq_xO (Coq_xI (Coq_xO (Coq_xO (Coq_xI
               Coq_xH))))))))
             (N.eqb c (Npos (Coq_xI (Coq_xO (Coq_xI (Coq_xO (Coq_xO (Coq_xO
               Coq_xH))))))))
        then (match r0 with
              | [] ->
                let hasexp = true in
                let ex = dval (fst (take_digits r0)) in
                { neg = ng; mant = (dval (app ip fp)); exp10 =
                (Z.sub ex (Z.of_nat (length fp))); plain_int =
                ((&&) (negb hasfrac) (negb hasexp)) }
              | n0 :: r' ->
                (match n0 with
                 | N0 ->
                   let hasexp = true in
                   let ex = dval (fst (take_digits r0)) in
                   { neg = ng; mant = (dval (app ip fp)); exp10 =
                   (Z.sub ex (Z.of_nat (length fp))); plain_int =
                   ((&&) (negb hasfrac) (negb hasexp)) }
                 | Npos p ->
                   (match p with
                    | Coq_xI p0 ->
                      (match p0 with
                       | Coq_xI p1 ->
                         (match p1 with
                          | Coq_xO p2 ->
                            (match p2 with
                             | Coq_xI p3 ->
                               (match p3 with
                                | Coq_xO p4 ->
                                  (match p4 with
                                   | Coq_xH ->
                                     let hasexp = true in
                                     let ex = dval (fst (take_digits r')) in
                                     { neg = ng; mant = (dval (app ip fp));
                                     exp10 =
                                     (Z.sub ex (Z.of_nat (length fp)));
                                     plain_int =
                                     ((&&) (negb hasfrac) (negb hasexp)) }
                                   | _ ->
                                     let hasexp = true in
                                     let ex = dval (fst (take_digits r0)) in
                                     { neg = ng; mant = (dval (app ip fp));
                                     exp10 =
                                     (Z.sub ex (Z.of_nat (length fp)));
                                     plain_int =
                                     ((&&) (negb hasfrac) (negb hasexp)) })
                                | _ ->
                                  let hasexp = true in
                                  let ex = dval (fst (take_digits r0)) in
                                  { neg = ng; mant = (dval (app ip fp));
                                  exp10 = (Z.sub ex (Z.of_nat (length fp)));
                                  plain_int =
                                  ((&&) (negb hasfrac) (negb hasexp)) })
                             | _ ->
                               let hasexp = true in
                               let ex = dval (fst (take_digits r0)) in
                               { neg = ng; mant = (dval (app ip fp)); exp10 =
                               (Z.sub ex (Z.of_nat (length fp))); plain_int =
                               ((&&) (negb hasfrac) (negb hasexp)) })
                          | _ ->
                            let hasexp = true in
                            let ex = dval (fst (take_digits r0)) in
                            { neg = ng; mant = (dval (app ip fp)); exp10 =
                            (Z.sub ex (Z.of_nat (length fp))); plain_int =
                            ((&&) (negb hasfrac) (negb hasexp)) })
                       | Coq_xO p1 ->
                         (match p1 with
                          | Coq_xI p2 ->
                            (match p2 with
                             | Coq_xI p3 ->
                               (match p3 with
                                | Coq_xO p4 ->
                                  (match p4 with
                                   | Coq_xH ->
                                     let hasexp = true in
                                     let ex =
                                       Z.opp (dval (fst (take_digits r')))
                                     in
                                     { neg = ng; mant = (dval (app ip fp));
                                     exp10 =
                                     (Z.sub ex (Z.of_nat (length fp)));
                                     plain_int =
                                     ((&&) (negb hasfrac) (negb hasexp)) }
                                   | _ ->
                                     let hasexp = true in
                                     let ex = dval (fst (take_digits r0)) in
                                     { neg = ng; mant = (dval (app ip fp));
                                     exp10 =
                                     (Z.sub ex (Z.of_nat (length fp)));
                                     plain_int =
                                     ((&&) (negb hasfrac) (negb hasexp)) })
                                | _ ->
                                  let hasexp = true in
                                  let ex = dval (fst (take_digits r0)) in
                                  { neg = ng; mant = (dval (app ip fp));
                                  exp10 = (Z.sub ex (Z.of_nat (length fp)));
                                  plain_int =
                                  ((&&) (negb hasfrac) (negb hasexp)) })
                             | _ ->
                               let hasexp = true in
                               let ex = dval (fst (take_digits r0)) in
                               { neg = ng; mant = (dval (app ip fp)); exp10 =
                               (Z.sub ex (Z.of_nat (length fp))); plain_int =
                               ((&&) (negb hasfrac) (negb hasexp)) })
                          | _ ->
                            let hasexp = true in
                            let ex = dval (fst (take_digits r0)) in
                            { neg = ng; mant = (dval (app ip fp)); exp10 =
                            (Z.sub ex (Z.of_nat (length fp))); plain_int =
                            ((&&) (negb hasfrac) (negb hasexp)) })
                       | Coq_xH ->
                         let hasexp = true in
                         let ex = dval (fst (take_digits r0)) in
                         { neg = ng; mant = (dval (app ip fp)); exp10 =
                         (Z.sub ex (Z.of_nat (length fp))); plain_int =
                         ((&&) (negb hasfrac) (negb hasexp)) })
                    | _ ->
                      let hasexp = true in
                      let ex = dval (fst (take_digits r0)) in
                      { neg = ng; mant = (dval (app ip fp)); exp10 =
                      (Z.sub ex (Z.of_nat (length fp))); plain_int =
                      ((&&) (negb hasfrac) (negb hasexp)) })))
        else let hasexp = false in
             let ex = Z0 in
             { neg = ng; mant = (dval (app ip fp)); exp10 =
             (Z.sub ex (Z.of_nat (length fp))); plain_int =
             ((&&) (negb hasfrac) (negb hasexp)) })
   | Npos p ->
     (match p with
      | Coq_xI p0 ->
        (match p0 with
         | Coq_xO p1 ->
           (match p1 with
            | Coq_xI p2 ->
              (match p2 with
               | Coq_xI p3 ->
                 (match p3 with
                  | Coq_xO p4 ->
                    (match p4 with
                     | Coq_xH ->
                       let ng = true in
                       let (ip, l1) = take_digits r in
                       let (fp, l2) =
                         match l1 with
                         | [] -> ([], l1)
                         | n0 :: r0 ->
                           (match n0 with
                            | N0 -> ([], l1)
                            | Npos p5 ->
                              (match p5 with
                               | Coq_xI _ -> ([], l1)
                               | Coq_xO p6 ->
                                 (match p6 with
                                  | Coq_xI p7 ->
                                    (match p7 with
                                     | Coq_xI p8 ->
                                       (match p8 with
                                        | Coq_xI p9 ->
                                          (match p9 with
                                           | Coq_xI _ -> ([], l1)
                                           | Coq_xO p10 ->
                                             (match p10 with
                                              | Coq_xI _ -> ([], l1)
                                              | Coq_xO _ -> ([], l1)
                                              | Coq_xH -> take_digits r0)
                                           | Coq_xH -> ([], l1))
                                        | _ -> ([], l1))
                                     | _ -> ([], l1))
                                  | _ -> ([], l1))
                               | Coq_xH -> ([], l1)))
                       in
                       let hasfrac =
                         match l1 with
                         | [] -> false
                         | n0 :: _ ->
                           (match n0 with
                            | N0 -> false
                            | Npos p5 ->
                              (match p5 with
                               | Coq_xO p6 ->
                                 (match p6 with
                                  | Coq_xI p7 ->
                                    (match p7 with
                                     | Coq_xI p8 ->
                                       (match p8 with
                                        | Coq_xI p9 ->
                                          (match p9 with
                                           | Coq_xO p10 ->
                                             (match p10 with
                                              | Coq_xH -> true
                                              | _ -> false)
                                           | _ -> false)
                                        | _ -> false)
                                     | _ -> false)
                                  | _ -> false)
                               | _ -> false))
                       in
                       (match l2 with
                        | [] ->
                          let hasexp = false in
                          let ex = Z0 in
                          { neg = ng; mant = (dval (app ip fp)); exp10 =
                          (Z.sub ex (Z.of_nat (length fp))); plain_int =
                          ((&&) (negb hasfrac) (negb hasexp)) }
                        | c :: r0 ->
                          if (||)
                               (N.eqb c (Npos (Coq_xI (Coq_xO (Coq_xI (Coq_xO
                                 (Coq_xO (Coq_xI Coq_xH))))))))
                               (N.eqb c (Npos (Coq_xI (Coq_xO (Coq_xI (Coq_xO
                                 (Coq_xO (Coq_xO Coq_xH))))))))
                          then (match r0 with
                                | [] ->
                                  let hasexp = true in
                                  let ex = dval (fst (take_digits r0)) in
                                  { neg = ng; mant = (dval (app ip fp));
                                  exp10 = (Z.sub ex (Z.of_nat (length fp)));
                                  plain_int =
                                  ((&&) (negb hasfrac) (negb hasexp)) }
                                | n0 :: r' ->
                                  (match n0 with
                                   | N0 ->
                                     let hasexp = true in
                                     let ex = dval (fst (take_digits r0)) in
                                     { neg = ng; mant = (dval (app ip fp));
                                     exp10 =
                                     (Z.sub ex (Z.of_nat (length fp)));
                                     plain_int =
                                     ((&&) (negb hasfrac) (negb hasexp)) }
                                   | Npos p5 ->
                                     (match p5 with
                                      | Coq_xI p6 ->
                                        (match p6 with
                                         | Coq_xI p7 ->
                                           (match p7 with
                                            | Coq_xO p8 ->
                                              (match p8 with
                                               | Coq_xI p9 ->
                                                 (match p9 with
                                                  | Coq_xO p10 ->
                                                    (match p10 with
                                                     | Coq_xH ->
                                                       let hasexp = true in
                                                       let ex =
                                                         dval
                                                           (fst
                                                             (take_digits r'))
                                                       in
                                                       { neg = ng; mant =
                                                       (dval (app ip fp));
                                                       exp10 =
                                                       (Z.sub ex
                                                         (Z.of_nat
                                                           (length fp)));
                                                       plain_int =
                                                       ((&&) (negb hasfrac)
                                                         (negb hasexp)) }
                                                     | _ ->
                                                       let hasexp = true in
                                                       let ex =
                                                         dval
                                                           (fst
                                                             (take_digits r0))
                                                       in
                                                       { neg = ng; mant =
                                                       (dval (app ip fp));
                                                       exp10 =
                                                       (Z.sub ex
                                                         (Z.of_nat
                                                           (length fp)));
                                                       plain_int =
                                                       ((&&) (negb hasfrac)
                                                         (negb hasexp)) })
                                                  | _ ->
                                                    let hasexp = true in
                                                    let ex =
                                                      dval
                                                        (fst (take_digits r0))
                                                    in
                                                    { neg = ng; mant =
                                                    (dval (app ip fp));
                                                    exp10 =
                                                    (Z.sub ex
                                                      (Z.of_nat (length fp)));
                                                    plain_int =
                                                    ((&&) (negb hasfrac)
                                                      (negb hasexp)) })
                                               | _ ->
                                                 let hasexp = true in
                                                 let ex =
                                                   dval (fst (take_digits r0))
                                                 in
                                                 { neg = ng; mant =
                                                 (dval (app ip fp)); exp10 =
                                                 (Z.sub ex
                                                   (Z.of_nat (length fp)));
                                                 plain_int =
                                                 ((&&) (negb hasfrac)
                                                   (negb hasexp)) })
                                            | _ ->
                                              let hasexp = true in
                                              let ex =
                                                dval (fst (take_digits r0))
                                              in
                                              { neg = ng; mant =
                                              (dval (app ip fp)); exp10 =
                                              (Z.sub ex
                                                (Z.of_nat (length fp)));
                                              plain_int =
                                              ((&&) (negb hasfrac)
                                                (negb hasexp)) })
                                         | Coq_xO p7 ->
                                           (match p7 with
                                            | Coq_xI p8 ->
                                              (match p8 with
                                               | Coq_xI p9 ->
                                                 (match p9 with
                                                  | Coq_xO p10 ->
                                                    (match p10 with
                                                     | Coq_xH ->
                                                       let hasexp = true in
                                                       let ex =
                                                         Z.opp
                                                           (dval
                                                             (fst
                                                               (take_digits
                                                                 r')))
                                                       in
                                                       { neg = ng; mant =
                                                       (dval (app ip fp));
                                                       exp10 =
                                                       (Z.sub ex
                                                         (Z.of_nat
                                                           (length fp)));
                                                       plain_int =
                                                       ((&&) (negb hasfrac)
                                                         (negb hasexp)) }
                                                     | _ ->
                                                       let hasexp = true in
                                                       let ex =
                                                         dval
                                                           (fst
                                                             (take_digits r0))
                                                       in
                                                       { neg = ng; mant =
                                                       (dval (app ip fp));
                                                       exp10 =
                                                       (Z.sub ex
                                                         (Z.of_nat
                                                           (length fp)));
                                                       plain_int =
                                                       ((&&) (negb hasfrac)
                                                         (negb hasexp)) })
                                                  | _ ->
                                                    let hasexp = true in
                                                    let ex =
                                                      dval
                                                        (fst (take_digits r0))
                                                    in
                                                    { neg = ng; mant =
                                                    (dval (app ip fp));
                                                    exp10 =
                                                    (Z.sub ex
                                                      (Z.of_nat (length fp)));
                                                    plain_int =
                                                    ((&&) (negb hasfrac)
                                                      (negb hasexp)) })
                                               | _ ->
                                                 let hasexp = true in
                                                 let ex =
                                                   dval (fst (take_digits r0))
                                                 in
                                                 { neg = ng; mant =
                                                 (dval (app ip fp)); exp10 =
                                                 (Z.sub ex
                                                   (Z.of_nat (length fp)));
                                                 plain_int =
                                                 ((&&) (negb hasfrac)
                                                   (negb hasexp)) })
                                            | _ ->
                                              let hasexp = true in
                                              let ex =
                                                dval (fst (take_digits r0))
                                              in
                                              { neg = ng; mant =
                                              (dval (app ip fp)); exp10 =
                                              (Z.sub ex
                                                (Z.of_nat (length fp)));
                                              plain_int =
                                              ((&&) (negb hasfrac)
                                                (negb hasexp)) })
                                         | Coq_xH ->
                                           let hasexp = true in
                                           let ex =
                                             dval (fst (take_digits r0))
                                           in
                                           { neg = ng; mant =
                                           (dval (app ip fp)); exp10 =
                                           (Z.sub ex (Z.of_nat (length fp)));
                                           plain_int =
                                           ((&&) (negb hasfrac) (negb hasexp)) })
                                      | _ ->
                                        let hasexp = true in
                                        let ex = dval (fst (take_digits r0))
                                        in
                                        { neg = ng; mant =
                                        (dval (app ip fp)); exp10 =
                                        (Z.sub ex (Z.of_nat (length fp)));
                                        plain_int =
                                        ((&&) (negb hasfrac) (negb hasexp)) })))
                          else let hasexp = false in
                               let ex = Z0 in
                               { neg = ng; mant = (dval (app ip fp)); exp10 =
                               (Z.sub ex (Z.of_nat (length fp))); plain_int =
                               ((&&) (negb hasfrac) (negb hasexp)) })
                     | _ ->
                       let ng = false in
                       let (ip, l1) = take_digits lit in
                       let (fp, l2) =
                         match l1 with
                         | [] -> ([], l1)
                         | n0 :: r0 ->
                           (match n0 with
                            | N0 -> ([], l1)
                            | Npos p5 ->
                              (match p5 with
                               | Coq_xI _ -> ([], l1)
                               | Coq_xO p6 ->
                                 (match p6 with
                                  | Coq_xI p7 ->
                                    (match p7 with
                                     | Coq_xI p8 ->
                                       (match p8 with
                                        | Coq_xI p9 ->
                                          (match p9 with
                                           | Coq_xI _ -> ([], l1)
                                           | Coq_xO p10 ->
                                             (match p10 with
                                              | Coq_xI _ -> ([], l1)
                                              | Coq_xO _ -> ([], l1)
                                              | Coq_xH -> take_digits r0)
                                           | Coq_xH -> ([], l1))
                                        | _ -> ([], l1))
                                     | _ -> ([], l1))
                                  | _ -> ([], l1))
                               | Coq_xH -> ([], l1)))
                       in
                       let hasfrac =
                         match l1 with
                         | [] -> false
                         | n0 :: _ ->
                           (match n0 with
                            | N0 -> false
                            | Npos p5 ->
                              (match p5 with
                               | Coq_xO p6 ->
                                 (match p6 with
                                  | Coq_xI p7 ->
                                    (match p7 with
                                     | Coq_xI p8 ->
                                       (match p8 with
                                        | Coq_xI p9 ->
                                          (match p9 with
                                           | Coq_xO p10 ->
                                             (match p10 with
                                              | Coq_xH -> true
                                              | _ -> false)
                                           | _ -> false)
                                        | _ -> false)
                                     | _ -> false)
                                  | _ -> false)
                               | _ -> false))
                       in
                       (match l2 with
                        | [] ->
                          let hasexp = false in
                          let ex = Z0 in
                          { neg = ng; mant = (dval (app ip fp)); exp10 =
                          (Z.sub ex (Z.of_nat (length fp))); plain_int =
                          ((&&) (negb hasfrac) (negb hasexp)) }
                        | c :: r0 ->
                          if (||)
                               (N.eqb c (Npos (Coq_xI (Coq_xO (Coq_xI (Coq_xO
                                 (Coq_xO (Coq_xI Coq_xH))))))))
                               (N.eqb c (Npos (Coq_xI (Coq_xO (Coq_xI (Coq_xO
                                 (Coq_xO (Coq_xO Coq_xH))))))))
                          then (match r0 with
                                | [] ->
                                  let hasexp = true in
                                  let ex = dval (fst (take_digits r0)) in
                                  { neg = ng; mant = (dval (app ip fp));
                                  exp10 = (Z.sub ex (Z.of_nat (length fp)));
                                  plain_int =
                                  ((&&) (negb hasfrac) (negb hasexp)) }
                                | n0 :: r' ->
                                  (match n0 with
                                   | N0 ->
                                     let hasexp = true in
                                     let ex = dval (fst (take_digits r0)) in
                                     { neg = ng; mant = (dval (app ip fp));
                                     exp10 =
                                     (Z.sub ex (Z.of_nat (length fp)));
                                     plain_int =
                                     ((&&) (negb hasfrac) (negb hasexp)) }
                                   | Npos p5 ->
                                     (match p5 with
                                      | Coq_xI p6 ->
                                        (match p6 with
                                         | Coq_xI p7 ->
                                           (match p7 with
                                            | Coq_xO p8 ->
                                              (match p8 with
                                               | Coq_xI p9 ->
                                                 (match p9 with
                                                  | Coq_xO p10 ->
                                                    (match p10 with
                                                     | Coq_xH ->
                                                       let hasexp = true in
                                                       let ex =
                                                         dval
                                                           (fst
                                                             (take_digits r'))
                                                       in
                                                       { neg = ng; mant =
                                                       (dval (app ip fp));
                                                       exp10 =
                                                       (Z.sub ex
                                                         (Z.of_nat
                                                           (length fp)));
                                                       plain_int =
                                                       ((&&) (negb hasfrac)
                                                         (negb hasexp)) }
                                                     | _ ->
                                                       let hasexp = true in
                                                       let ex =
                                                         dval
                                                           (fst
                                                             (take_digits r0))
                                                       in
                                                       { neg = ng; mant =
                                                       (dval (app ip fp));
                                                       exp10 =
                                                       (Z.sub ex
                                                         (Z.of_nat
                                                           (length fp)));
                                                       plain_int =
                                                       ((&&) (negb hasfrac)
                                                         (negb hasexp)) })
                                                  | _ ->
                                                    let hasexp = true in
                                                    let ex =
                                                      dval
                                                        (fst (take_digits r0))
                                                    in
                                                    { neg = ng; mant =
                                                    (dval (app ip fp));
                                                    exp10 =
                                                    (Z.sub ex
                                                      (Z.of_nat (length fp)));
                                                    plain_int =
                                                    ((&&) (negb hasfrac)
                                                      (negb hasexp)) })
                                               | _ ->
                                                 let hasexp = true in
                                                 let ex =
                                                   dval (fst (take_digits r0))
                                                 in
                                                 { neg = ng; mant =
                                                 (dval (app ip fp)); exp10 =
                                                 (Z.sub ex
                                                   (Z.of_nat (length fp)));
                                                 plain_int =
                                                 ((&&) (negb hasfrac)
                                                   (negb hasexp)) })
                                            | _ ->
                                              let hasexp = true in
                                              let ex =
                                                dval (fst (take_digits r0))
                                              in
                                              { neg = ng; mant =
                                              (dval (app ip fp)); exp10 =
                                              (Z.sub ex
                                                (Z.of_nat (length fp)));
                                              plain_int =
                                              ((&&) (negb hasfrac)
                                                (negb hasexp)) })
                                         | Coq_xO p7 ->
                                           (match p7 with
                                            | Coq_xI p8 ->
                                              (match p8 with
                                               | Coq_xI p9 ->
                                                 (match p9 with
                                                  | Coq_xO p10 ->
                                                    (match p10 with
                                                     | Coq_xH ->
                                                       let hasexp = true in
                                                       let ex =
                                                         Z.opp
                                                           (dval
                                                             (fst
                                                               (take_digits
                                                                 r')))
                                                       in
                                                       { neg = ng; mant =
                                                       (dval (app ip fp));
                                                       exp10 =
                                                       (Z.sub ex
                                                         (Z.of_nat
                                                           (length fp)));
                                                       plain_int =
                                                       ((&&) (negb hasfrac)
                                                         (negb hasexp)) }
                                                     | _ ->
                                                       let hasexp = true in
                                                       let ex =
                                                         dval
                                                           (fst
                                                             (take_digits r0))
                                                       in
                                                       { neg = ng; mant =
                                                       (dval (app ip fp));
                                                       exp10 =
                                                       (Z.sub ex
                                                         (Z.of_nat
                                                           (length fp)));
                                                       plain_int =
                                                       ((&&) (negb hasfrac)
                                                         (negb hasexp)) })
                                                  | _ ->
                                                    let hasexp = true in
                                                    let ex =
                                                      dval
                                                        (fst (take_digits r0))
                                                    in
                                                    { neg = ng; mant =
                                                    (dval (app ip fp));
                                                    exp10 =
                                                    (Z.sub ex
                                                      (Z.of_nat (length fp)));
                                                    plain_int =
                                                    ((&&) (negb hasfrac)
                                                      (negb hasexp)) })
                                               | _ ->
                                                 let hasexp = true in
                                                 let ex =
                                                   dval (fst (take_digits r0))
                                                 in
                                                 { neg = ng; mant =
                                                 (dval (app ip fp)); exp10 =
                                                 (Z.sub ex
                                                   (Z.of_nat (length fp)));
                                                 plain_int =
                                                 ((&&) (negb hasfrac)
                                                   (negb hasexp)) })
                                            | _ ->
                                              let hasexp = true in
                                              let ex =
                                                dval (fst (take_digits r0))
                                              in
                                              { neg = ng; mant =
                                              (dval (app ip fp)); exp10 =
                                              (Z.sub ex
                                                (Z.of_nat (length fp)));
                                              plain_int =
                                              ((&&) (negb hasfrac)
                                                (negb hasexp)) })
                                         | Coq_xH ->
                                           let hasexp = true in
                                           let ex =
                                             dval (fst (take_digits r0))
                                           in
                                           { neg = ng; mant =
                                           (dval (app ip fp)); exp10 =
                                           (Z.sub ex (Z.of_nat (length fp)));
                                           plain_int =
                                           ((&&) (negb hasfrac) (negb hasexp)) })
                                      | _ ->
                                        let hasexp = true in
                                        let ex = dval (fst (take_digits r0))
                                        in
                                        { neg = ng; mant =
                                        (dval (app ip fp)); exp10 =
                                        (Z.sub ex (Z.of_nat (length fp)));
                                        plain_int =
                                        ((&&) (negb hasfrac) (negb hasexp)) })))
                          else let hasexp = false in
                               let ex = Z0 in
                               { neg = ng; mant = (dval (app ip fp)); exp10 =
                               (Z.sub ex (Z.of_nat (length fp))); plain_int =
                               ((&&) (negb hasfrac) (negb hasexp)) }))
                  | _ ->
                    let ng = false in
                    let (ip, l1) = take_digits lit in
                    let (fp, l2) =
                      match l1 with
                      | [] -> ([], l1)
                      | n0 :: r0 ->
                        (match n0 with
                         | N0 -> ([], l1)
                         | Npos p4 ->
                           (match p4 with
                            | Coq_xI _ -> ([], l1)
                            | Coq_xO p5 ->
                              (match p5 with
                               | Coq_xI p6 ->
                                 (match p6 with
                                  | Coq_xI p7 ->
                                    (match p7 with
                                     | Coq_xI p8 ->
                                       (match p8 with
                                        | Coq_xI _ -> ([], l1)
                                        | Coq_xO p9 ->
                                          (match p9 with
                                           | Coq_xI _ -> ([], l1)
                                           | Coq_xO _ -> ([], l1)
                                           | Coq_xH -> take_digits r0)
                                        | Coq_xH -> ([], l1))
                                     | _ -> ([], l1))
                                  | _ -> ([], l1))
                               | _ -> ([], l1))
                            | Coq_xH -> ([], l1)))
                    in
                    let hasfrac =
                      match l1 with
                      | [] -> false
                      | n0 :: _ ->
                        (match n0 with
                         | N0 -> false
                         | Npos p4 ->
                           (match p4 with
                            | Coq_xO p5 ->
                              (match p5 with
                               | Coq_xI p6 ->
                                 (match p6 with
                                  | Coq_xI p7 ->
                                    (match p7 with
                                     | Coq_xI p8 ->
                                       (match p8 with
                                        | Coq_xO p9 ->
                                          (match p9 with
                                           | Coq_xH -> true
                                           | _ -> false)
                                        | _ -> false)
                                     | _ -> false)
                                  | _ -> false)
                               | _ -> false)
                            | _ -> false))
                    in
                    (match l2 with
                     | [] ->
                       let hasexp = false in
                       let ex = Z0 in
                       { neg = ng; mant = (dval (app ip fp)); exp10 =
                       (Z.sub ex (Z.of_nat (length fp))); plain_int =
                       ((&&) (negb hasfrac) (negb hasexp)) }
                     | c :: r0 ->
                       if (||)
                            (N.eqb c (Npos (Coq_xI (Coq_xO (Coq_xI (Coq_xO
                              (Coq_xO (Coq_xI Coq_xH))))))))
                            (N.eqb c (Npos (Coq_xI (Coq_xO (Coq_xI (Coq_xO
                              (Coq_xO (Coq_xO Coq_xH))))))))
                       then (match r0 with
                             | [] ->
                               let hasexp = true in
                               let ex = dval (fst (take_digits r0)) in
                               { neg = ng; mant = (dval (app ip fp)); exp10 =
                               (Z.sub ex (Z.of_nat (length fp))); plain_int =
                               ((&&) (negb hasfrac) (negb hasexp)) }
                             | n0 :: r' ->
                               (match n0 with
                                | N0 ->
                                  let hasexp = true in
                                  let ex = dval (fst (take_digits r0)) in
                                  { neg = ng; mant = (dval (app ip fp));
                                  exp10 = (Z.sub ex (Z.of_nat (length fp)));
                                  plain_int =
                                  ((&&) (negb hasfrac) (negb hasexp)) }
                                | Npos p4 ->
                                  (match p4 with
                                   | Coq_xI p5 ->
                                     (match p5 with
                                      | Coq_xI p6 ->
                                        (match p6 with
                                         | Coq_xO p7 ->
                                           (match p7 with
                                            | Coq_xI p8 ->
                                              (match p8 with
                                               | Coq_xO p9 ->
                                                 (match p9 with
                                                  | Coq_xH ->
                                                    let hasexp = true in
                                                    let ex =
                                                      dval
                                                        (fst (take_digits r'))
                                                    in
                                                    { neg = ng; mant =
                                                    (dval (app ip fp));
                                                    exp10 =
                                                    (Z.sub ex
                                                      (Z.of_nat (length fp)));
                                                    plain_int =
                                                    ((&&) (negb hasfrac)
                                                      (negb hasexp)) }
                                                  | _ ->
                                                    let hasexp = true in
                                                    let ex =
                                                      dval
                                                        (fst (take_digits r0))
                                                    in
                                                    { neg = ng; mant =
                                                    (dval (app ip fp));
                                                    exp10 =
                                                    (Z.sub ex
                                                      (Z.of_nat (length fp)));
                                                    plain_int =
                                                    ((&&) (negb hasfrac)
                                                      (negb hasexp)) })
                                               | _ ->
                                                 let hasexp = true in
                                                 let ex =
                                                   dval (fst (take_digits r0))
                                                 in
                                                 { neg = ng; mant =
                                                 (dval (app ip fp)); exp10 =
                                                 (Z.sub ex
                                                   (Z.of_nat (length fp)));
                                                 plain_int =
                                                 ((&&) (negb hasfrac)
                                                   (negb hasexp)) })
                                            | _ ->
                                              let hasexp = true in
                                              let ex =
                                                dval (fst (take_digits r0))
                                              in
                                              { neg = ng; mant =
                                              (dval (app ip fp)); exp10 =
                                              (Z.sub ex
                                                (Z.of_nat (length fp)));
                                              plain_int =
                                              ((&&) (negb hasfrac)
                                                (negb hasexp)) })
                                         | _ ->
                                           let hasexp = true in
                                           let ex =
                                             dval (fst (take_digits r0))
                                           in
                                           { neg = ng; mant =
                                           (dval (app ip fp)); exp10 =
                                           (Z.sub ex (Z.of_nat (length fp)));
                                           plain_int =
                                           ((&&) (negb hasfrac) (negb hasexp)) })
                                      | Coq_xO p6 ->
                                        (match p6 with
                                         | Coq_xI p7 ->
                                           (match p7 with
                                            | Coq_xI p8 ->
                                              (match p8 with
                                               | Coq_xO p9 ->
                                                 (match p9 with
                                                  | Coq_xH ->
                                                    let hasexp = true in
                                                    let ex =
                                                      Z.opp
                                                        (dval
                                                          (fst
                                                            (take_digits r')))
                                                    in
                                                    { neg = ng; mant =
                                                    (dval (app ip fp));
                                                    exp10 =
                                                    (Z.sub ex
                                                      (Z.of_nat (length fp)));
                                                    plain_int =
                                                    ((&&) (negb hasfrac)
                                                      (negb hasexp)) }
                                                  | _ ->
                                                    let hasexp = true in
                                                    let ex =
                                                      dval
                                                        (fst (take_digits r0))
                                                    in
                                                    { neg = ng; mant =
                                                    (dval (app ip fp));
                                                    exp10 =
                                                    (Z.sub ex
                                                      (Z.of_nat (length fp)));
                                                    plain_int =
                                                    ((&&) (negb hasfrac)
                                                      (negb hasexp)) })
                                               | _ ->
                                                 let hasexp = true in
                                                 let ex =
                                                   dval (fst (take_digits r0))
                                                 in
                                                 { neg = ng; mant =
                                                 (dval (app ip fp)); exp10 =
                                                 (Z.sub ex
                                                   (Z.of_nat (length fp)));
                                                 plain_int =
                                                 ((&&) (negb hasfrac)
                                                   (negb hasexp)) })
                                            | _ ->
                                              let hasexp = true in
                                              let ex =
                                                dval (fst (take_digits r0))
                                              in
                                              { neg = ng; mant =
                                              (dval (app ip fp)); exp10 =
                                              (Z.sub ex
                                                (Z.of_nat (length fp)));
                                              plain_int =
                                              ((&&) (negb hasfrac)
                                                (negb hasexp)) })
                                         | _ ->
                                           let hasexp = true in
                                           let ex =
                                             dval (fst (take_digits r0))
                                           in
                                           { neg = ng; mant =
                                           (dval (app ip fp)); exp10 =
                                           (Z.sub ex (Z.of_nat (length fp)));
                                           plain_int =
                                           ((&&) (negb hasfrac) (negb hasexp)) })
                                      | Coq_xH ->
                                        let hasexp = true in
                                        let ex = dval (fst (take_digits r0))
                                        in
                                        { neg = ng; mant =
                                        (dval (app ip fp)); exp10 =
                                        (Z.sub ex (Z.of_nat (length fp)));
                                        plain_int =
                                        ((&&) (negb hasfrac) (negb hasexp)) })
                                   | _ ->
                                     let hasexp = true in
                                     let ex = dval (fst (take_digits r0)) in
                                     { neg = ng; mant = (dval (app ip fp));
                                     exp10 =
                                     (Z.sub ex (Z.of_nat (length fp)));
                                     plain_int =
                                     ((&&) (negb hasfrac) (negb hasexp)) })))
                       else let hasexp = false in
                            let ex = Z0 in
                            { neg = ng; mant = (dval (app ip fp)); exp10 =
                            (Z.sub ex (Z.of_nat (length fp))); plain_int =
                            ((&&) (negb hasfrac) (negb hasexp)) }))
               | _ ->
                 let ng = false in
                 let (ip, l1) = take_digits lit in
                 let (fp, l2) =
                   match l1 with
                   | [] -> ([], l1)
                   | n0 :: r0 ->
                     (match n0 with
                      | N0 -> ([], l1)
                      | Npos p3 ->
                        (match p3 with
                         | Coq_xI _ -> ([], l1)
                         | Coq_xO p4 ->
                           (match p4 with
                            | Coq_xI p5 ->
                              (match p5 with
                               | Coq_xI p6 ->
                                 (match p6 with
                                  | Coq_xI p7 ->
                                    (match p7 with
                                     | Coq_xI _ -> ([], l1)
                                     | Coq_xO p8 ->
                                       (match p8 with
                                        | Coq_xI _ -> ([], l1)
                                        | Coq_xO _ -> ([], l1)
                                        | Coq_xH -> take_digits r0)
                                     | Coq_xH -> ([], l1))
                                  | _ -> ([], l1))
                               | _ -> ([], l1))
                            | _ -> ([], l1))
                         | Coq_xH -> ([], l1)))
                 in
                 let hasfrac =
                   match l1 with
                   | [] -> false
                   | n0 :: _ ->
                     (match n0 with
                      | N0 -> false
                      | Npos p3 ->
                        (match p3 with
                         | Coq_xO p4 ->
                           (match p4 with
                            | Coq_xI p5 ->
                              (match p5 with
                               | Coq_xI p6 ->
                                 (match p6 with
                                  | Coq_xI p7 ->
                                    (match p7 with
                                     | Coq_xO p8 ->
                                       (match p8 with
                                        | Coq_xH -> true
                                        | _ -> false)
                                     | _ -> false)
                                  | _ -> false)
                               | _ -> false)
                            | _ -> false)
                         | _ -> false))
                 in
                 (match l2 with
                  | [] ->
                    let hasexp = false in
                    let ex = Z0 in
                    { neg = ng; mant = (dval (app ip fp)); exp10 =
                    (Z.sub ex (Z.of_nat (length fp))); plain_int =
                    ((&&) (negb hasfrac) (negb hasexp)) }
                  | c :: r0 ->
                    if (||)
                         (N.eqb c (Npos (Coq_xI (Coq_xO (Coq_xI (Coq_xO
                           (Coq_xO (Coq_xI Coq_xH))))))))
                         (N.eqb c (Npos (Coq_xI (Coq_xO (Coq_xI (Coq_xO
                           (Coq_xO (Coq_xO Coq_xH))))))))
                    then (match r0 with
                          | [] ->
                            let hasexp = true in
                            let ex = dval (fst (take_digits r0)) in
                            { neg = ng; mant = (dval (app ip fp)); exp10 =
                            (Z.sub ex (Z.of_nat (length fp))); plain_int =
                            ((&&) (negb hasfrac) (negb hasexp)) }
                          | n0 :: r' ->
                            (match n0 with
                             | N0 ->
                               let hasexp = true in
                               let ex = dval (fst (take_digits r0)) in
                               { neg = ng; mant = (dval (app ip fp)); exp10 =
                               (Z.sub ex (Z.of_nat (length fp))); plain_int =
                               ((&&) (negb hasfrac) (negb hasexp)) }
                             | Npos p3 ->
                               (match p3 with
                                | Coq_xI p4 ->
                                  (match p4 with
                                   | Coq_xI p5 ->
                                     (match p5 with
                                      | Coq_xO p6 ->
                                        (match p6 with
                                         | Coq_xI p7 ->
                                           (match p7 with
                                            | Coq_xO p8 ->
                                              (match p8 with
                                               | Coq_xH ->
                                                 let hasexp = true in
                                                 let ex =
                                                   dval (fst (take_digits r'))
                                                 in
                                                 { neg = ng; mant =
                                                 (dval (app ip fp)); exp10 =
                                                 (Z.sub ex
                                                   (Z.of_nat (length fp)));
                                                 plain_int =
                                                 ((&&) (negb hasfrac)
                                                   (negb hasexp)) }
                                               | _ ->
                                                 let hasexp = true in
                                                 let ex =
                                                   dval (fst (take_digits r0))
                                                 in
                                                 { neg = ng; mant =
                                                 (dval (app ip fp)); exp10 =
                                                 (Z.sub ex
                                                   (Z.of_nat (length fp)));
                                                 plain_int =
                                                 ((&&) (negb hasfrac)
                                                   (negb hasexp)) })
                                            | _ ->
                                              let hasexp = true in
                                              let ex =
                                                dval (fst (take_digits r0))
                                              in
                                              { neg = ng; mant =
                                              (dval (app ip fp)); exp10 =
                                              (Z.sub ex
                                                (Z.of_nat (length fp)));
                                              plain_int =
                                              ((&&) (negb hasfrac)
                                                (negb hasexp)) })
                                         | _ ->
                                           let hasexp = true in
                                           let ex =
                                             dval (fst (take_digits r0))
                                           in
                                           { neg = ng; mant =
                                           (dval (app ip fp)); exp10 =
                                           (Z.sub ex (Z.of_nat (length fp)));
                                           plain_int =
                                           ((&&) (negb hasfrac) (negb hasexp)) })
                                      | _ ->
                                        let hasexp = true in
                                        let ex = dval (fst (take_digits r0))
                                        in
                                        { neg = ng; mant =
                                        (dval (app ip fp)); exp10 =
                                        (Z.sub ex (Z.of_nat (length fp)));
                                        plain_int =
                                        ((&&) (negb hasfrac) (negb hasexp)) })
                                   | Coq_xO p5 ->
                                     (match p5 with
                                      | Coq_xI p6 ->
                                        (match p6 with
                                         | Coq_xI p7 ->
                                           (match p7 with
                                            | Coq_xO p8 ->
                                              (match p8 with
                                               | Coq_xH ->
                                                 let hasexp = true in
                                                 let ex =
                                                   Z.opp
                                                     (dval
                                                       (fst (take_digits r')))
                                                 in
                                                 { neg = ng; mant =
                                                 (dval (app ip fp)); exp10 =
                                                 (Z.sub ex
                                                   (Z.of_nat (length fp)));
                                                 plain_int =
                                                 ((&&) (negb hasfrac)
                                                   (negb hasexp)) }
                                               | _ ->
                                                 let hasexp = true in
                                                 let ex =
                                                   dval (fst (take_digits r0))
                                                 in
                                                 { neg = ng; mant =
                                                 (dval (app ip fp)); exp10 =
                                                 (Z.sub ex
                                                   (Z.of_nat (length fp)));
                                                 plain_int =
                                                 ((&&) (negb hasfrac)
                                                   (negb hasexp)) })
                                            | _ ->
                                              let hasexp = true in
                                              let ex =
                                                dval (fst (take_digits r0))
                                              in
                                              { neg = ng; mant =
                                              (dval (app ip fp)); exp10 =
                                              (Z.sub ex
                                                (Z.of_nat (length fp)));
                                              plain_int =
                                              ((&&) (negb hasfrac)
                                                (negb hasexp)) })
                                         | _ ->
                                           let hasexp = true in
                                           let ex =
                                             dval (fst (take_digits r0))
                                           in
                                           { neg = ng; mant =
                                           (dval (app ip fp)); exp10 =
                                           (Z.sub ex (Z.of_nat (length fp)));
                                           plain_int =
                                           ((&&) (negb hasfrac) (negb hasexp)) })
                                      | _ ->
                                        let hasexp = true in
                                        let ex = dval (fst (take_digits r0))
                                        in
                                        { neg = ng; mant =
                                        (dval (app ip fp)); exp10 =
                                        (Z.sub ex (Z.of_nat (length fp)));
                                        plain_int =
                                        ((&&) (negb hasfrac) (negb hasexp)) })
                                   | Coq_xH ->
                                     let hasexp = true in
                                     let ex = dval (fst (take_digits r0)) in
                                     { neg = ng; mant = (dval (app ip fp));
                                     exp10 =
                                     (Z.sub ex (Z.of_nat (length fp)));
                                     plain_int =
                                     ((&&) (negb hasfrac) (negb hasexp)) })
                                | _ ->
                                  let hasexp = true in
                                  let ex = dval (fst (take_digits r0)) in
                                  { neg = ng; mant = (dval (app ip fp));
                                  exp10 = (Z.sub ex (Z.of_nat (length fp)));
                                  plain_int =
                                  ((&&) (negb hasfrac) (negb hasexp)) })))
                    else let hasexp = false in
                         let ex = Z0 in
                         { neg = ng; mant = (dval (app ip fp)); exp10 =
                         (Z.sub ex (Z.of_nat (length fp))); plain_int =
                         ((&&) (negb hasfrac) (negb hasexp)) }))
            | _ ->
              let ng = false in
              let (ip, l1) = take_digits lit in
              let (fp, l2) =
                match l1 with
                | [] -> ([], l1)
                | n0 :: r0 ->
                  (match n0 with
                   | N0 -> ([], l1)
                   | Npos p2 ->
                     (match p2 with
                      | Coq_xI _ -> ([], l1)
                      | Coq_xO p3 ->
                        (match p3 with
                         | Coq_xI p4 ->
                           (match p4 with
                            | Coq_xI p5 ->
                              (match p5 with
                               | Coq_xI p6 ->
                                 (match p6 with
                                  | Coq_xI _ -> ([], l1)
                                  | Coq_xO p7 ->
                                    (match p7 with
                                     | Coq_xI _ -> ([], l1)
                                     | Coq_xO _ -> ([], l1)
                                     | Coq_xH -> take_digits r0)
                                  | Coq_xH -> ([], l1))
                               | _ -> ([], l1))
                            | _ -> ([], l1))
                         | _ -> ([], l1))
                      | Coq_xH -> ([], l1)))
              in
              let hasfrac =
                match l1 with
                | [] -> false
                | n0 :: _ ->
                  (match n0 with
                   | N0 -> false
                   | Npos p2 ->
                     (match p2 with
                      | Coq_xO p3 ->
                        (match p3 with
                         | Coq_xI p4 ->
                           (match p4 with
                            | Coq_xI p5 ->
                              (match p5 with
                               | Coq_xI p6 ->
                                 (match p6 with
                                  | Coq_xO p7 ->
                                    (match p7 with
                                     | Coq_xH -> true
                                     | _ -> false)
                                  | _ -> false)
                               | _ -> false)
                            | _ -> false)
                         | _ -> false)
                      | _ -> false))
              in
              (match l2 with
               | [] ->
                 let hasexp = false in
                 let ex = Z0 in
                 { neg = ng; mant = (dval (app ip fp)); exp10 =
                 (Z.sub ex (Z.of_nat (length fp))); plain_int =
                 ((&&) (negb hasfrac) (negb hasexp)) }
               | c :: r0 ->
                 if (||)
                      (N.eqb c (Npos (Coq_xI (Coq_xO (Coq_xI (Coq_xO (Coq_xO
                        (Coq_xI Coq_xH))))))))
                      (N.eqb c (Npos (Coq_xI (Coq_xO (Coq_xI (Coq_xO (Coq_xO
                        (Coq_xO Coq_xH))))))))
                 then (match r0 with
                       | [] ->
                         let hasexp = true in
                         let ex = dval (fst (take_digits r0)) in
                         { neg = ng; mant = (dval (app ip fp)); exp10 =
                         (Z.sub ex (Z.of_nat (length fp))); plain_int =
                         ((&&) (negb hasfrac) (negb hasexp)) }
                       | n0 :: r' ->
                         (match n0 with
                          | N0 ->
                            let hasexp = true in
                            let ex = dval (fst (take_digits r0)) in
                            { neg = ng; mant = (dval (app ip fp)); exp10 =
                            (Z.sub ex (Z.of_nat (length fp))); plain_int =
                            ((&&) (negb hasfrac) (negb hasexp)) }
                          | Npos p2 ->
                            (match p2 with
                             | Coq_xI p3 ->
                               (match p3 with
                                | Coq_xI p4 ->
                                  (match p4 with
                                   | Coq_xO p5 ->
                                     (match p5 with
                                      | Coq_xI p6 ->
                                        (match p6 with
                                         | Coq_xO p7 ->
                                           (match p7 with
                                            | Coq_xH ->
                                              let hasexp = true in
                                              let ex =
                                                dval (fst (take_digits r'))
                                              in
                                              { neg = ng; mant =
                                              (dval (app ip fp)); exp10 =
                                              (Z.sub ex
                                                (Z.of_nat (length fp)));
                                              plain_int =
                                              ((&&) (negb hasfrac)
                                                (negb hasexp)) }
                                            | _ ->
                                              let hasexp = true in
                                              let ex =
                                                dval (fst (take_digits r0))
                                              in
                                              { neg = ng; mant =
                                              (dval (app ip fp)); exp10 =
                                              (Z.sub ex
                                                (Z.of_nat (length fp)));
                                              plain_int =
                                              ((&&) (negb hasfrac)
                                                (negb hasexp)) })
                                         | _ ->
                                           let hasexp = true in
                                           let ex =
                                             dval (fst (take_digits r0))
                                           in
                                           { neg = ng; mant =
                                           (dval (app ip fp)); exp10 =
                                           (Z.sub ex (Z.of_nat (length fp)));
                                           plain_int =
                                           ((&&) (negb hasfrac) (negb hasexp)) })
                                      | _ ->
                                        let hasexp = true in
                                        let ex = dval (fst (take_digits r0))
                                        in
                                        { neg = ng; mant =
                                        (dval (app ip fp)); exp10 =
                                        (Z.sub ex (Z.of_nat (length fp)));
                                        plain_int =
                                        ((&&) (negb hasfrac) (negb hasexp)) })
                                   | _ ->
                                     let hasexp = true in
                                     let ex = dval (fst (take_digits r0)) in
                                     { neg = ng; mant = (dval (app ip fp));
                                     exp10 =
                                     (Z.sub ex (Z.of_nat (length fp)));
                                     plain_int =
                                     ((&&) (negb hasfrac) (negb hasexp)) })
                                | Coq_xO p4 ->
                                  (match p4 with
                                   | Coq_xI p5 ->
                                     (match p5 with
                                      | Coq_xI p6 ->
                                        (match p6 with
                                         | Coq_xO p7 ->
                                           (match p7 with
                                            | Coq_xH ->
                                              let hasexp = true in
                                              let ex =
                                                Z.opp
                                                  (dval
                                                    (fst (take_digits r')))
                                              in
                                              { neg = ng; mant =
                                              (dval (app ip fp)); exp10 =
                                              (Z.sub ex
                                                (Z.of_nat (length fp)));
                                              plain_int =
                                              ((&&) (negb hasfrac)
                                                (negb hasexp)) }
                                            | _ ->
                                              let hasexp = true in
                                              let ex =
                                                dval (fst (take_digits r0))
                                              in
                                              { neg = ng; mant =
                                              (dval (app ip fp)); exp10 =
                                              (Z.sub ex
                                                (Z.of_nat (length fp)));
                                              plain_int =
                                              ((&&) (negb hasfrac)
                                                (negb hasexp)) })
                                         | _ ->
                                           let hasexp = true in
                                           let ex =
                                             dval (fst (take_digits r0))
                                           in
                                           { neg = ng; mant =
                                           (dval (app ip fp)); exp10 =
                                           (Z.sub ex (Z.of_nat (length fp)));
                                           plain_int =
                                           ((&&) (negb hasfrac) (negb hasexp)) })
                                      | _ ->
                                        let hasexp = true in
                                        let ex = dval (fst (take_digits r0))
                                        in
                                        { neg = ng; mant =
                                        (dval (app ip fp)); exp10 =
                                        (Z.sub ex (Z.of_nat (length fp)));
                                        plain_int =
                                        ((&&) (negb hasfrac) (negb hasexp)) })
                                   | _ ->
                                     let hasexp = true in
                                     let ex = dval (fst (take_digits r0)) in
                                     { neg = ng; mant = (dval (app ip fp));
                                     exp10 =
                                     (Z.sub ex (Z.of_nat (length fp)));
                                     plain_int =
                                     ((&&) (negb hasfrac) (negb hasexp)) })
                                | Coq_xH ->
                                  let hasexp = true in
                                  let ex = dval (fst (take_digits r0)) in
                                  { neg = ng; mant = (dval (app ip fp));
                                  exp10 = (Z.sub ex (Z.of_nat (length fp)));
                                  plain_int =
                                  ((&&) (negb hasfrac) (negb hasexp)) })
                             | _ ->
                               let hasexp = true in
                               let ex = dval (fst (take_digits r0)) in
                               { neg = ng; mant = (dval (app ip fp)); exp10 =
                               (Z.sub ex (Z.of_nat (length fp))); plain_int =
                               ((&&) (negb hasfrac) (negb hasexp)) })))
                 else let hasexp = false in
                      let ex = Z0 in
                      { neg = ng; mant = (dval (app ip fp)); exp10 =
                      (Z.sub ex (Z.of_nat (length fp))); plain_int =
                      ((&&) (negb hasfrac) (negb hasexp)) }))
         | _ ->
           let ng = false in
           let (ip, l1) = take_digits lit in
           let (fp, l2) =
             match l1 with
             | [] -> ([], l1)
             | n0 :: r0 ->
               (match n0 with
                | N0 -> ([], l1)
                | Npos p1 ->
                  (match p1 with
                   | Coq_xI _ -> ([], l1)
                   | Coq_xO p2 ->
                     (match p2 with
                      | Coq_xI p3 ->
                        (match p3 with
                         | Coq_xI p4 ->
                           (match p4 with
                            | Coq_xI p5 ->
                              (match p5 with
                               | Coq_xI _ -> ([], l1)
                               | Coq_xO p6 ->
                                 (match p6 with
                                  | Coq_xI _ -> ([], l1)
                                  | Coq_xO _ -> ([], l1)
                                  | Coq_xH -> take_digits r0)
                               | Coq_xH -> ([], l1))
                            | _ -> ([], l1))
                         | _ -> ([], l1))
                      | _ -> ([], l1))
                   | Coq_xH -> ([], l1)))
           in
           let hasfrac =
             match l1 with
             | [] -> false
             | n0 :: _ ->
               (match n0 with
                | N0 -> false
                | Npos p1 ->
                  (match p1 with
                   | Coq_xO p2 ->
                     (match p2 with
                      | Coq_xI p3 ->
                        (match p3 with
                         | Coq_xI p4 ->
                           (match p4 with
                            | Coq_xI p5 ->
                              (match p5 with
                               | Coq_xO p6 ->
                                 (match p6 with
                                  | Coq_xH -> true
                                  | _ -> false)
                               | _ -> false)
                            | _ -> false)
                         | _ -> false)
                      | _ -> false)
                   | _ -> false))
           in
           (match l2 with
            | [] ->
              let hasexp = false in
              let ex = Z0 in
              { neg = ng; mant = (dval (app ip fp)); exp10 =
              (Z.sub ex (Z.of_nat (length fp))); plain_int =
              ((&&) (negb hasfrac) (negb hasexp)) }
            | c :: r0 ->
              if (||)
                   (N.eqb c (Npos (Coq_xI (Coq_xO (Coq_xI (Coq_xO (Coq_xO
                     (Coq_xI Coq_xH))))))))
                   (N.eqb c (Npos (Coq_xI (Coq_xO (Coq_xI (Coq_xO (Coq_xO
                     (Coq_xO Coq_xH))))))))
              then (match r0 with
                    | [] ->
                      let hasexp = true in
                      let ex = dval (fst (take_digits r0)) in
                      { neg = ng; mant = (dval (app ip fp)); exp10 =
                      (Z.sub ex (Z.of_nat (length fp))); plain_int =
                      ((&&) (negb hasfrac) (negb hasexp)) }
                    | n0 :: r' ->
                      (match n0 with
                       | N0 ->
                         let hasexp = true in
                         let ex = dval (fst (take_digits r0)) in
                         { neg = ng; mant = (dval (app ip fp)); exp10 =
                         (Z.sub ex (Z.of_nat (length fp))); plain_int =
                         ((&&) (negb hasfrac) (negb hasexp)) }
                       | Npos p1 ->
                         (match p1 with
                          | Coq_xI p2 ->
                            (match p2 with
                             | Coq_xI p3 ->
                               (match p3 with
                                | Coq_xO p4 ->
                                  (match p4 with
                                   | Coq_xI p5 ->
                                     (match p5 with
                                      | Coq_xO p6 ->
                                        (match p6 with
                                         | Coq_xH ->
                                           let hasexp = true in
                                           let ex =
                                             dval (fst (take_digits r'))
                                           in
                                           { neg = ng; mant =
                                           (dval (app ip fp)); exp10 =
                                           (Z.sub ex (Z.of_nat (length fp)));
                                           plain_int =
                                           ((&&) (negb hasfrac) (negb hasexp)) }
                                         | _ ->
                                           let hasexp = true in
                                           let ex =
                                             dval (fst (take_digits r0))
                                           in
                                           { neg = ng; mant =
                                           (dval (app ip fp)); exp10 =
                                           (Z.sub ex (Z.of_nat (length fp)));
                                           plain_int =
                                           ((&&) (negb hasfrac) (negb hasexp)) })
                                      | _ ->
                                        let hasexp = true in
                                        let ex = dval (fst (take_digits r0))
                                        in
                                        { neg = ng; mant =
                                        (dval (app ip fp)); exp10 =
                                        (Z.sub ex (Z.of_nat (length fp)));
                                        plain_int =
                                        ((&&) (negb hasfrac) (negb hasexp)) })
                                   | _ ->
                                     let hasexp = true in
                                     let ex = dval (fst (take_digits r0)) in
                                     { neg = ng; mant = (dval (app ip fp));
                                     exp10 =
                                     (Z.sub ex (Z.of_nat (length fp)));
                                     plain_int =
                                     ((&&) (negb hasfrac) (negb hasexp)) })
                                | _ ->
                                  let hasexp = true in
                                  let ex = dval (fst (take_digits r0)) in
                                  { neg = ng; mant = (dval (app ip fp));
                                  exp10 = (Z.sub ex (Z.of_nat (length fp)));
                                  plain_int =
                                  ((&&) (negb hasfrac) (negb hasexp)) })
                             | Coq_xO p3 ->
                               (match p3 with
                                | Coq_xI p4 ->
                                  (match p4 with
                                   | Coq_xI p5 ->
                                     (match p5 with
                                      | Coq_xO p6 ->
                                        (match p6 with
                                         | Coq_xH ->
                                           let hasexp = true in
                                           let ex =
                                             Z.opp
                                               (dval (fst (take_digits r')))
                                           in
                                           { neg = ng; mant =
                                           (dval (app ip fp)); exp10 =
                                           (Z.sub ex (Z.of_nat (length fp)));
                                           plain_int =
                                           ((&&) (negb hasfrac) (negb hasexp)) }
                                         | _ ->
                                           let hasexp = true in
                                           let ex =
                                             dval (fst (take_digits r0))
                                           in
                                           { neg = ng; mant =
                                           (dval (app ip fp)); exp10 =
                                           (Z.sub ex (Z.of_nat (length fp)));
                                           plain_int =
                                           ((&&) (negb hasfrac) (negb hasexp)) })
                                      | _ ->
                                        let hasexp = true in
                                        let ex = dval (fst (take_digits r0))
                                        in
                                        { neg = ng; mant =
                                        (dval (app ip fp)); exp10 =
                                        (Z.sub ex (Z.of_nat (length fp)));
                                        plain_int =
                                        ((&&) (negb hasfrac) (negb hasexp)) })
                                   | _ ->
                                     let hasexp = true in
                                     let ex = dval (fst (take_digits r0)) in
                                     { neg = ng; mant = (dval (app ip fp));
                                     exp10 =
                                     (Z.sub ex (Z.of_nat (length fp)));
                                     plain_int =
                                     ((&&) (negb hasfrac) (negb hasexp)) })
                                | _ ->
                                  let hasexp = true in
                                  let ex = dval (fst (take_digits r0)) in
                                  { neg = ng; mant = (dval (app ip fp));
                                  exp10 = (Z.sub ex (Z.of_nat (length fp)));
                                  plain_int =
                                  ((&&) (negb hasfrac) (negb hasexp)) })
                             | Coq_xH ->
                               let hasexp = true in
                               let ex = dval (fst (take_digits r0)) in
                               { neg = ng; mant = (dval (app ip fp)); exp10 =
                               (Z.sub ex (Z.of_nat (length fp))); plain_int =
                               ((&&) (negb hasfrac) (negb hasexp)) })
                          | _ ->
                            let hasexp = true in
                            let ex = dval (fst (take_digits r0)) in
                            { neg = ng; mant = (dval (app ip fp)); exp10 =
                            (Z.sub ex (Z.of_nat (length fp))); plain_int =
                            ((&&) (negb hasfrac) (negb hasexp)) })))
              else let hasexp = false in
                   let ex = Z0 in
                   { neg = ng; mant = (dval (app ip fp)); exp10 =
                   (Z.sub ex (Z.of_nat (length fp))); plain_int =
                   ((&&) (negb hasfrac) (negb hasexp)) }))
      | _ ->
        let ng = false in
        let (ip, l1) = take_digits lit in
        let (fp, l2) =
          match l1 with
          | [] -> ([], l1)
          | n0 :: r0 ->
            (match n0 with
             | N0 -> ([], l1)
             | Npos p0 ->
               (match p0 with
                | Coq_xI _ -> ([], l1)
                | Coq_xO p1 ->
                  (match p1 with
                   | Coq_xI p2 ->
                     (match p2 with
                      | Coq_xI p3 ->
                        (match p3 with
                         | Coq_xI p4 ->
                           (match p4 with
                            | Coq_xI _ -> ([], l1)
                            | Coq_xO p5 ->
                              (match p5 with
                               | Coq_xI _ -> ([], l1)
                               | Coq_xO _ -> ([], l1)
                               | Coq_xH -> take_digits r0)
                            | Coq_xH -> ([], l1))
                         | _ -> ([], l1))
                      | _ -> ([], l1))
                   | _ -> ([], l1))
                | Coq_xH -> ([], l1)))
        in
        let hasfrac =
          match l1 with
          | [] -> false
          | n0 :: _ ->
            (match n0 with
             | N0 -> false
             | Npos p0 ->
               (match p0 with
                | Coq_xO p1 ->
                  (match p1 with
                   | Coq_xI p2 ->
                     (match p2 with
                      | Coq_xI p3 ->
                        (match p3 with
                         | Coq_xI p4 ->
                           (match p4 with
                            | Coq_xO p5 ->
                              (match p5 with
                               | Coq_xH -> true
                               | _ -> false)
                            | _ -> false)
                         | _ -> false)
                      | _ -> false)
                   | _ -> false)
                | _ -> false))
        in
        (match l2 with
         | [] ->
           let hasexp = false in
           let ex = Z0 in
           { neg = ng; mant = (dval (app ip fp)); exp10 =
           (Z.sub ex (Z.of_nat (length fp))); plain_int =
           ((&&) (negb hasfrac) (negb hasexp)) }
         | c :: r0 ->
           if (||)
                (N.eqb c (Npos (Coq_xI (Coq_xO (Coq_xI (Coq_xO (Coq_xO
                  (Coq_xI Coq_xH))))))))
                (N.eqb c (Npos (Coq_xI (Coq_xO (Coq_xI (Coq_xO (Coq_xO
                  (Coq_xO Coq_xH))))))))
           then (match r0 with
                 | [] ->
                   let hasexp = true in
                   let ex = dval (fst (take_digits r0)) in
                   { neg = ng; mant = (dval (app ip fp)); exp10 =
                   (Z.sub ex (Z.of_nat (length fp))); plain_int =
                   ((&&) (negb hasfrac) (negb hasexp)) }
                 | n0 :: r' ->
                   (match n0 with
                    | N0 ->
                      let hasexp = true in
                      let ex = dval (fst (take_digits r0)) in
                      { neg = ng; mant = (dval (app ip fp)); exp10 =
                      (Z.sub ex (Z.of_nat (length fp))); plain_int =
                      ((&&) (negb hasfrac) (negb hasexp)) }
                    | Npos p0 ->
                      (match p0 with
                       | Coq_xI p1 ->
                         (match p1 with
                          | Coq_xI p2 ->
                            (match p2 with
                             | Coq_xO p3 ->
                               (match p3 with
                                | Coq_xI p4 ->
                                  (match p4 with
                                   | Coq_xO p5 ->
                                     (match p5 with
                                      | Coq_xH ->
                                        let hasexp = true in
                                        let ex = dval (fst (take_digits r'))
                                        in
                                        { neg = ng; mant =
                                        (dval (app ip fp)); exp10 =
                                        (Z.sub ex (Z.of_nat (length fp)));
                                        plain_int =
                                        ((&&) (negb hasfrac) (negb hasexp)) }
                                      | _ ->
                                        let hasexp = true in
                                        let ex = dval (fst (take_digits r0))
                                        in
                                        { neg = ng; mant =
                                        (dval (app ip fp)); exp10 =
                                        (Z.sub ex (Z.of_nat (length fp)));
                                        plain_int =
                                        ((&&) (negb hasfrac) (negb hasexp)) })
                                   | _ ->
                                     let hasexp = true in
                                     let ex = dval (fst (take_digits r0)) in
                                     { neg = ng; mant = (dval (app ip fp));
                                     exp10 =
                                     (Z.sub ex (Z.of_nat (length fp)));
                                     plain_int =
                                     ((&&) (negb hasfrac) (negb hasexp)) })
                                | _ ->
                                  let hasexp = true in
                                  let ex = dval (fst (take_digits r0)) in
                                  { neg = ng; mant = (dval (app ip fp));
                                  exp10 = (Z.sub ex (Z.of_nat (length fp)));
                                  plain_int =
                                  ((&&) (negb hasfrac) (negb hasexp)) })
                             | _ ->
                               let hasexp = true in
                               let ex = dval (fst (take_digits r0)) in
                               { neg = ng; mant = (dval (app ip fp)); exp10 =
                               (Z.sub ex (Z.of_nat (length fp))); plain_int =
                               ((&&) (negb hasfrac) (negb hasexp)) })
                          | Coq_xO p2 ->
                            (match p2 with
                             | Coq_xI p3 ->
                               (match p3 with
                                | Coq_xI p4 ->
                                  (match p4 with
                                   | Coq_xO p5 ->
                                     (match p5 with
                                      | Coq_xH ->
                                        let hasexp = true in
                                        let ex =
                                          Z.opp (dval (fst (take_digits r')))
                                        in
                                        { neg = ng; mant =
                                        (dval (app ip fp)); exp10 =
                                        (Z.sub ex (Z.of_nat (length fp)));
                                        plain_int =
                                        ((&&) (negb hasfrac) (negb hasexp)) }
                                      | _ ->
                                        let hasexp = true in
                                        let ex = dval (fst (take_digits r0))
                                        in
                                        { neg = ng; mant =
                                        (dval (app ip fp)); exp10 =
                                        (Z.sub ex (Z.of_nat (length fp)));
                                        plain_int =
                                        ((&&) (negb hasfrac) (negb hasexp)) })
                                   | _ ->
                                     let hasexp = true in
                                     let ex = dval (fst (take_digits r0)) in
                                     { neg = ng; mant = (dval (app ip fp));
                                     exp10 =
                                     (Z.sub ex (Z.of_nat (length fp)));
                                     plain_int =
                                     ((&&) (negb hasfrac) (negb hasexp)) })
                                | _ ->
                                  let hasexp = true in
                                  let ex = dval (fst (take_digits r0)) in
                                  { neg = ng; mant = (dval (app ip fp));
                                  exp10 = (Z.sub ex (Z.of_nat (length fp)));
                                  plain_int =
                                  ((&&) (negb hasfrac) (negb hasexp)) })
                             | _ ->
                               let hasexp = true in
                               let ex = dval (fst (take_digits r0)) in
                               { neg = ng; mant = (dval (app ip fp)); exp10 =
                               (Z.sub ex (Z.of_nat (length fp))); plain_int =
                               ((&&) (negb hasfrac) (negb hasexp)) })
                          | Coq_xH ->
                            let hasexp = true in
                            let ex = dval (fst (take_digits r0)) in
                            { neg = ng; mant = (dval (app ip fp)); exp10 =
                            (Z.sub ex (Z.of_nat (length fp))); plain_int =
                            ((&&) (negb hasfrac) (negb hasexp)) })
                       | _ ->
                         let hasexp = true in
                         let ex = dval (fst (take_digits r0)) in
                         { neg = ng; mant = (dval (app ip fp)); exp10 =
                         (Z.sub ex (Z.of_nat (length fp))); plain_int =
                         ((&&) (negb hasfrac) (negb hasexp)) })))
           else let hasexp = false in
                let ex = Z0 in
                { neg = ng; mant = (dval (app ip fp)); exp10 =
                (Z.sub ex (Z.of_nat (length fp))); plain_int =
                ((&&) (negb hasfrac) (negb hasexp)) })))

(** val ndigits_f : nat -> coq_Z -> coq_Z **)

let rec ndigits_f fuel m =
  match fuel with
  | O -> Z0
  | S f ->
    if Z.leb m Z0
    then Z0
    else Z.add (Zpos Coq_xH)
           (ndigits_f f (Z.div m (Zpos (Coq_xO (Coq_xI (Coq_xO Coq_xH))))))

(** val ndigits : coq_Z -> coq_Z **)

let ndigits m =
  ndigits_f (S (Z.to_nat (Z.log2 m))) m

(** val rne_div : coq_Z -> coq_Z -> coq_Z **)

let rne_div a b =
  let q = Z.div a b in
  let r = Z.modulo a b in
  if Z.ltb (Z.mul (Zpos (Coq_xO Coq_xH)) r) b
  then q
  else if Z.ltb b (Z.mul (Zpos (Coq_xO Coq_xH)) r)
       then Z.add q (Zpos Coq_xH)
       else Z.add q (Z.modulo q (Zpos (Coq_xO Coq_xH)))

type f64res =
| Bits of coq_Z
| Infinite

(** val f64res_rect : (coq_Z -> 'a1) -> 'a1 -> f64res -> 'a1 **)

let f64res_rect f f0 = function
| Bits b -> f b
| Infinite -> f0

(** val f64res_rec : (coq_Z -> 'a1) -> 'a1 -> f64res -> 'a1 **)

let f64res_rec f f0 = function
| Bits b -> f b
| Infinite -> f0

(** val round_rat : coq_Z -> coq_Z -> coq_Z -> coq_Z -> f64res **)

let round_rat p emax num den =
  let bl = Z.sub (Z.log2 num) (Z.log2 den) in
  let ge =
    if Z.leb Z0 bl
    then Z.leb (Z.mul den (Z.pow (Zpos (Coq_xO Coq_xH)) bl)) num
    else Z.leb den (Z.mul num (Z.pow (Zpos (Coq_xO Coq_xH)) (Z.opp bl)))
  in
  let e = if ge then bl else Z.sub bl (Zpos Coq_xH) in
  let emin = Z.sub (Zpos Coq_xH) emax in
  if Z.ltb e emin
  then Bits
         (rne_div
           (Z.mul num
             (Z.pow (Zpos (Coq_xO Coq_xH))
               (Z.sub (Z.sub p (Zpos Coq_xH)) emin))) den)
  else let s = Z.sub e (Z.sub p (Zpos Coq_xH)) in
       let q =
         if Z.leb Z0 s
         then rne_div num (Z.mul den (Z.pow (Zpos (Coq_xO Coq_xH)) s))
         else rne_div (Z.mul num (Z.pow (Zpos (Coq_xO Coq_xH)) (Z.opp s))) den
       in
       if Z.eqb q (Z.pow (Zpos (Coq_xO Coq_xH)) p)
       then let e' = Z.add e (Zpos Coq_xH) in
            let q' = Z.pow (Zpos (Coq_xO Coq_xH)) (Z.sub p (Zpos Coq_xH)) in
            if Z.ltb emax e'
            then Infinite
            else Bits
                   (Z.add
                     (Z.mul (Z.add e' emax)
                       (Z.pow (Zpos (Coq_xO Coq_xH)) (Z.sub p (Zpos Coq_xH))))
                     (Z.sub q'
                       (Z.pow (Zpos (Coq_xO Coq_xH)) (Z.sub p (Zpos Coq_xH)))))
       else if Z.ltb emax e
            then Infinite
            else Bits
                   (Z.add
                     (Z.mul (Z.add e emax)
                       (Z.pow (Zpos (Coq_xO Coq_xH)) (Z.sub p (Zpos Coq_xH))))
                     (Z.sub q
                       (Z.pow (Zpos (Coq_xO Coq_xH)) (Z.sub p (Zpos Coq_xH)))))

(** val round_pos : coq_Z -> coq_Z -> f64res **)

let round_pos m e =
  let nd = ndigits m in
  if Z.ltb (Zpos (Coq_xO (Coq_xO (Coq_xO (Coq_xO (Coq_xI (Coq_xO (Coq_xO
       (Coq_xI Coq_xH))))))))) (Z.add e nd)
  then Infinite
  else if Z.ltb (Z.add e nd) (Zneg (Coq_xO (Coq_xO (Coq_xO (Coq_xO (Coq_xI
            (Coq_xO (Coq_xO (Coq_xI Coq_xH)))))))))
       then Bits Z0
       else let num =
              if Z.leb Z0 e
              then Z.mul m (Z.pow (Zpos (Coq_xO (Coq_xI (Coq_xO Coq_xH)))) e)
              else m
            in
            let den =
              if Z.leb Z0 e
              then Zpos Coq_xH
              else Z.pow (Zpos (Coq_xO (Coq_xI (Coq_xO Coq_xH)))) (Z.opp e)
            in
            round_rat (Zpos (Coq_xI (Coq_xO (Coq_xI (Coq_xO (Coq_xI
              Coq_xH)))))) (Zpos (Coq_xI (Coq_xI (Coq_xI (Coq_xI (Coq_xI
              (Coq_xI (Coq_xI (Coq_xI (Coq_xI Coq_xH)))))))))) num den

(** val round_f64 : decimal -> f64res **)

let round_f64 d =
  let sign =
    if d.neg
    then Z.pow (Zpos (Coq_xO Coq_xH)) (Zpos (Coq_xI (Coq_xI (Coq_xI (Coq_xI
           (Coq_xI Coq_xH))))))
    else Z0
  in
  if Z.eqb d.mant Z0
  then Bits sign
  else (match round_pos d.mant d.exp10 with
        | Bits b -> Bits (Z.add sign b)
        | Infinite -> Infinite)

(** val narrow_f32 : coq_Z -> coq_Z option **)

let narrow_f32 bits =
  let sign =
    Z.div bits
      (Z.pow (Zpos (Coq_xO Coq_xH)) (Zpos (Coq_xI (Coq_xI (Coq_xI (Coq_xI
        (Coq_xI Coq_xH)))))))
  in
  let e =
    Z.modulo
      (Z.div bits
        (Z.pow (Zpos (Coq_xO Coq_xH)) (Zpos (Coq_xO (Coq_xO (Coq_xI (Coq_xO
          (Coq_xI Coq_xH))))))))
      (Z.pow (Zpos (Coq_xO Coq_xH)) (Zpos (Coq_xI (Coq_xI (Coq_xO Coq_xH)))))
  in
  let m =
    Z.modulo bits
      (Z.pow (Zpos (Coq_xO Coq_xH)) (Zpos (Coq_xO (Coq_xO (Coq_xI (Coq_xO
        (Coq_xI Coq_xH)))))))
  in
  let s32 =
    Z.mul sign
      (Z.pow (Zpos (Coq_xO Coq_xH)) (Zpos (Coq_xI (Coq_xI (Coq_xI (Coq_xI
        Coq_xH))))))
  in
  if Z.eqb e (Zpos (Coq_xI (Coq_xI (Coq_xI (Coq_xI (Coq_xI (Coq_xI (Coq_xI
       (Coq_xI (Coq_xI (Coq_xI Coq_xH)))))))))))
  then if Z.eqb m Z0
       then Some
              (Z.add s32
                (Z.mul (Zpos (Coq_xI (Coq_xI (Coq_xI (Coq_xI (Coq_xI (Coq_xI
                  (Coq_xI Coq_xH))))))))
                  (Z.pow (Zpos (Coq_xO Coq_xH)) (Zpos (Coq_xI (Coq_xI (Coq_xI
                    (Coq_xO Coq_xH))))))))
       else None
  else if (&&) (Z.eqb e Z0) (Z.eqb m Z0)
       then Some s32
       else if Z.eqb e Z0
            then let den =
                   Z.pow (Zpos (Coq_xO Coq_xH)) (Zpos (Coq_xO (Coq_xI (Coq_xO
                     (Coq_xO (Coq_xI (Coq_xI (Coq_xO (Coq_xO (Coq_xO (Coq_xO
                     Coq_xH)))))))))))
                 in
                 (match round_rat (Zpos (Coq_xO (Coq_xO (Coq_xO (Coq_xI
                          Coq_xH))))) (Zpos (Coq_xI (Coq_xI (Coq_xI (Coq_xI
                          (Coq_xI (Coq_xI Coq_xH))))))) m den with
                  | Bits b -> Some (Z.add s32 b)
                  | Infinite ->
                    Some
                      (Z.add s32
                        (Z.mul (Zpos (Coq_xI (Coq_xI (Coq_xI (Coq_xI (Coq_xI
                          (Coq_xI (Coq_xI Coq_xH))))))))
                          (Z.pow (Zpos (Coq_xO Coq_xH)) (Zpos (Coq_xI (Coq_xI
                            (Coq_xI (Coq_xO Coq_xH)))))))))
            else if Z.leb (Zpos (Coq_xI (Coq_xI (Coq_xO (Coq_xO (Coq_xI
                      (Coq_xI (Coq_xO (Coq_xO (Coq_xO (Coq_xO
                      Coq_xH))))))))))) e
                 then let num =
                        Z.mul
                          (Z.add
                            (Z.pow (Zpos (Coq_xO Coq_xH)) (Zpos (Coq_xO
                              (Coq_xO (Coq_xI (Coq_xO (Coq_xI Coq_xH))))))) m)
                          (Z.pow (Zpos (Coq_xO Coq_xH))
                            (Z.sub e (Zpos (Coq_xI (Coq_xI (Coq_xO (Coq_xO
                              (Coq_xI (Coq_xI (Coq_xO (Coq_xO (Coq_xO (Coq_xO
                              Coq_xH)))))))))))))
                      in
                      let den = Zpos Coq_xH in
                      (match round_rat (Zpos (Coq_xO (Coq_xO (Coq_xO (Coq_xI
                               Coq_xH))))) (Zpos (Coq_xI (Coq_xI (Coq_xI
                               (Coq_xI (Coq_xI (Coq_xI Coq_xH))))))) num den with
                       | Bits b -> Some (Z.add s32 b)
                       | Infinite ->
                         Some
                           (Z.add s32
                             (Z.mul (Zpos (Coq_xI (Coq_xI (Coq_xI (Coq_xI
                               (Coq_xI (Coq_xI (Coq_xI Coq_xH))))))))
                               (Z.pow (Zpos (Coq_xO Coq_xH)) (Zpos (Coq_xI
                                 (Coq_xI (Coq_xI (Coq_xO Coq_xH)))))))))
                 else let num =
                        Z.add
                          (Z.pow (Zpos (Coq_xO Coq_xH)) (Zpos (Coq_xO (Coq_xO
                            (Coq_xI (Coq_xO (Coq_xI Coq_xH))))))) m
                      in
                      let den =
                        Z.pow (Zpos (Coq_xO Coq_xH))
                          (Z.sub (Zpos (Coq_xI (Coq_xI (Coq_xO (Coq_xO
                            (Coq_xI (Coq_xI (Coq_xO (Coq_xO (Coq_xO (Coq_xO
                            Coq_xH))))))))))) e)
                      in
                      (match round_rat (Zpos (Coq_xO (Coq_xO (Coq_xO (Coq_xI
                               Coq_xH))))) (Zpos (Coq_xI (Coq_xI (Coq_xI
                               (Coq_xI (Coq_xI (Coq_xI Coq_xH))))))) num den with
                       | Bits b -> Some (Z.add s32 b)
                       | Infinite ->
                         Some
                           (Z.add s32
                             (Z.mul (Zpos (Coq_xI (Coq_xI (Coq_xI (Coq_xI
                               (Coq_xI (Coq_xI (Coq_xI Coq_xH))))))))
                               (Z.pow (Zpos (Coq_xO Coq_xH)) (Zpos (Coq_xI
                                 (Coq_xI (Coq_xI (Coq_xO Coq_xH)))))))))

type numclass =
| CU64 of coq_Z
| CI64 of coq_Z
| CF64 of coq_Z
| CInf

(** val numclass_rect :
    (coq_Z -> 'a1) -> (coq_Z -> 'a1) -> (coq_Z -> 'a1) -> 'a1 -> numclass ->
    'a1 **)

let numclass_rect f f0 f1 f2 = function
| CU64 v -> f v
| CI64 v -> f0 v
| CF64 bits -> f1 bits
| CInf -> f2

(** val numclass_rec :
    (coq_Z -> 'a1) -> (coq_Z -> 'a1) -> (coq_Z -> 'a1) -> 'a1 -> numclass ->
    'a1 **)

let numclass_rec f f0 f1 f2 = function
| CU64 v -> f v
| CI64 v -> f0 v
| CF64 bits -> f1 bits
| CInf -> f2

(** val classify : coq_N list -> numclass **)

let classify lit =
  let d = parse_lit lit in
  let v = d.mant in
  if (&&) ((&&) d.plain_int (negb d.neg))
       (Z.ltb v
         (Z.pow (Zpos (Coq_xO Coq_xH)) (Zpos (Coq_xO (Coq_xO (Coq_xO (Coq_xO
           (Coq_xO (Coq_xO Coq_xH)))))))))
  then CU64 v
  else if (&&) ((&&) ((&&) d.plain_int d.neg) (Z.ltb Z0 v))
            (Z.leb v
              (Z.pow (Zpos (Coq_xO Coq_xH)) (Zpos (Coq_xI (Coq_xI (Coq_xI
                (Coq_xI (Coq_xI Coq_xH))))))))
       then CI64 (Z.opp v)
       else (match round_f64 d with
             | Bits b -> CF64 b
             | Infinite -> CInf)

(** val finite_lit : coq_N list -> bool **)

let finite_lit lit =
  match classify lit with
  | CInf -> false
  | _ -> true

(** val widen_f32 : coq_Z -> coq_Z **)

let widen_f32 bits =
  let sign =
    Z.div bits
      (Z.pow (Zpos (Coq_xO Coq_xH)) (Zpos (Coq_xI (Coq_xI (Coq_xI (Coq_xI
        Coq_xH))))))
  in
  let e =
    Z.modulo
      (Z.div bits
        (Z.pow (Zpos (Coq_xO Coq_xH)) (Zpos (Coq_xI (Coq_xI (Coq_xI (Coq_xO
          Coq_xH)))))))
      (Z.pow (Zpos (Coq_xO Coq_xH)) (Zpos (Coq_xO (Coq_xO (Coq_xO Coq_xH)))))
  in
  let m =
    Z.modulo bits
      (Z.pow (Zpos (Coq_xO Coq_xH)) (Zpos (Coq_xI (Coq_xI (Coq_xI (Coq_xO
        Coq_xH))))))
  in
  let s64 =
    Z.mul sign
      (Z.pow (Zpos (Coq_xO Coq_xH)) (Zpos (Coq_xI (Coq_xI (Coq_xI (Coq_xI
        (Coq_xI Coq_xH)))))))
  in
  if (&&) (Z.eqb e Z0) (Z.eqb m Z0)
  then s64
  else if Z.eqb e Z0
       then let k = Z.log2 m in
            Z.add
              (Z.add s64
                (Z.mul
                  (Z.add
                    (Z.sub k (Zpos (Coq_xI (Coq_xO (Coq_xI (Coq_xO (Coq_xI
                      (Coq_xO (Coq_xO Coq_xH))))))))) (Zpos (Coq_xI (Coq_xI
                    (Coq_xI (Coq_xI (Coq_xI (Coq_xI (Coq_xI (Coq_xI (Coq_xI
                    Coq_xH)))))))))))
                  (Z.pow (Zpos (Coq_xO Coq_xH)) (Zpos (Coq_xO (Coq_xO (Coq_xI
                    (Coq_xO (Coq_xI Coq_xH)))))))))
              (Z.mul (Z.sub m (Z.pow (Zpos (Coq_xO Coq_xH)) k))
                (Z.pow (Zpos (Coq_xO Coq_xH))
                  (Z.sub (Zpos (Coq_xO (Coq_xO (Coq_xI (Coq_xO (Coq_xI
                    Coq_xH)))))) k)))
       else Z.add
              (Z.add s64
                (Z.mul
                  (Z.add
                    (Z.sub e (Zpos (Coq_xI (Coq_xI (Coq_xI (Coq_xI (Coq_xI
                      (Coq_xI Coq_xH)))))))) (Zpos (Coq_xI (Coq_xI (Coq_xI
                    (Coq_xI (Coq_xI (Coq_xI (Coq_xI (Coq_xI (Coq_xI
                    Coq_xH)))))))))))
                  (Z.pow (Zpos (Coq_xO Coq_xH)) (Zpos (Coq_xO (Coq_xO (Coq_xI
                    (Coq_xO (Coq_xI Coq_xH)))))))))
              (Z.mul m
                (Z.pow (Zpos (Coq_xO Coq_xH)) (Zpos (Coq_xI (Coq_xO (Coq_xI
                  (Coq_xI Coq_xH)))))))
